#!/bin/sh
# Builds the framework from files on disk only (offline): Lean library + drivers, Rust harness.
set -e
cd "$(dirname "$0")"
export CARGO_NET_OFFLINE=true
python3 tools/extract_consts.py
(cd lean && lake build AgModel Driver $(python3 ../tools/list_targets.py drivers))
(cd harness && cargo build --offline --bins)
echo "setup done"
