//! Shared by `bin/c07.rs` and `bin/c08.rs` (included with `#[path]`): block-id interning, canonical
//! output formats of the finality / parent-ready trackers and the pool, world generators and the
//! naive reference semantics ("spec") used by the oracles.
//!
//! Block hash ids: id 0 is `GENESIS_BLOCK_HASH`; id k > 0 is `ag_harness::advhash::block_hash(k)`: the ids
//! 4g+1..4g+4 share all bytes but one (early or late, depending on g), and the `Ord` of real hashes equals
//! the order of the ids (the code sorts ready parents by `(slot, hash)` in `wait_for_parent_ready`).
//! The generators allocate the competing blocks of one slot inside one group.
#![allow(dead_code)]
use std::collections::{BTreeMap, BTreeSet};

use ag_harness::*;
use alpenglow::consensus::pool_verif::{VerifFinalityTracker, VerifFinalizationEvent};
use alpenglow::crypto::merkle::{BlockHash, GENESIS_BLOCK_HASH};
use alpenglow::types::Slot;
use alpenglow::BlockId;

pub type B = (u64, u64);

pub fn hash(id: u64) -> BlockHash {
    advhash::block_hash(id)
}

pub fn hid(h: &BlockHash) -> u64 {
    advhash::block_id(h).expect("interned block hash")
}

pub fn bid(b: B) -> BlockId {
    (Slot::new(b.0), hash(b.1))
}

pub fn unbid(b: &BlockId) -> B {
    (b.0.inner(), hid(&b.1))
}

pub fn fmt_blk(b: B) -> String {
    format!("{}:{}", b.0, b.1)
}

pub fn fmt_list(l: Vec<String>) -> String {
    if l.is_empty() { "-".into() } else { l.join(",") }
}

/// plain form of a finalization event
#[derive(Clone, Debug, Default, PartialEq, Eq)]
pub struct Ev {
    pub fin: Option<B>,
    pub ifin: Vec<B>,
    pub iskip: Vec<u64>,
}

pub fn ev_plain(ev: &VerifFinalizationEvent) -> Ev {
    Ev { fin: ev.0.as_ref().map(unbid), ifin: ev.1.iter().map(unbid).collect(), iskip: ev.2.iter().map(|s| s.inner()).collect() }
}

pub fn fmt_event(ev: &Ev) -> String {
    format!(
        "F={} IF={} IS={}",
        ev.fin.map(fmt_blk).unwrap_or("-".into()),
        fmt_list(ev.ifin.iter().map(|b| fmt_blk(*b)).collect()),
        fmt_list(ev.iskip.iter().map(|s| s.to_string()).collect())
    )
}

pub fn fmt_status(st: &[(Slot, u8, Option<BlockHash>)]) -> String {
    fmt_list(
        st.iter()
            .map(|(s, tag, h)| {
                let t = ["N", "P", "F", "I", "S"][*tag as usize];
                match h {
                    Some(h) => format!("{}:{}:{}", s.inner(), t, hid(h)),
                    None => format!("{}:{}", s.inner(), t),
                }
            })
            .collect(),
    )
}

pub fn fmt_parents(par: &[(BlockId, BlockId)]) -> String {
    let mut v: Vec<(B, B)> = par.iter().map(|(b, p)| (unbid(b), unbid(p))).collect();
    v.sort();
    fmt_list(v.iter().map(|(b, p)| format!("{}>{}", fmt_blk(*b), fmt_blk(*p))).collect())
}

pub fn fmt_fin_tracker(t: &VerifFinalityTracker) -> String {
    format!(
        "hi={} fu={} st={} par={}",
        t.highest_finalized_slot().inner(),
        t.first_unpruned_slot().inner(),
        fmt_status(&t.status()),
        fmt_parents(&t.parents())
    )
}

// ---------------------------------------------------------------------------------------------
// inputs of the finality tracker and their naive reference semantics

#[derive(Clone, Copy, Debug, PartialEq, Eq, PartialOrd, Ord, Hash)]
pub enum FOp {
    Parent(B, B),
    FastFinal(B),
    Notar(B),
    Final(u64),
}

impl FOp {
    pub fn line(&self) -> String {
        match self {
            FOp::Parent(b, p) => format!("fp {} {} {} {}", b.0, b.1, p.0, p.1),
            FOp::FastFinal(b) => format!("fff {} {}", b.0, b.1),
            FOp::Notar(b) => format!("fn {} {}", b.0, b.1),
            FOp::Final(s) => format!("ffi {s}"),
        }
    }
    pub fn slot(&self) -> u64 {
        match self {
            FOp::Parent(b, _) | FOp::FastFinal(b) | FOp::Notar(b) => b.0,
            FOp::Final(s) => *s,
        }
    }
}

/// The *sets* of certificates / parent links delivered so far and what the property says follows
/// from them (independent of the model and of the code: a naive fixpoint).
#[derive(Clone, Debug, Default)]
pub struct Spec {
    pub notar: BTreeSet<B>,
    pub fin: BTreeSet<u64>,
    pub ff: BTreeSet<B>,
    pub parent: BTreeMap<B, B>,
}

#[derive(Clone, Debug, Default, PartialEq, Eq)]
pub struct SpecView {
    /// fast-final cert, or final cert + notar cert
    pub direct: BTreeSet<B>,
    /// direct ∪ ancestors through known parent links
    pub final_star: BTreeSet<B>,
    /// strictly between a Final* block and its known parent
    pub impl_skipped: BTreeSet<u64>,
    pub highest: u64,
    /// end of the decided prefix 1..=w (0 if slot 1 is undecided)
    pub watermark: u64,
}

impl Spec {
    pub fn add(&mut self, op: &FOp) {
        match op {
            FOp::Parent(b, p) => {
                self.parent.entry(*b).or_insert(*p);
            }
            FOp::FastFinal(b) => {
                self.ff.insert(*b);
            }
            FOp::Notar(b) => {
                self.notar.insert(*b);
            }
            FOp::Final(s) => {
                self.fin.insert(*s);
            }
        }
    }
    pub fn view(&self) -> SpecView {
        let mut v = SpecView::default();
        for b in &self.ff {
            v.direct.insert(*b);
        }
        for b in &self.notar {
            if self.fin.contains(&b.0) {
                v.direct.insert(*b);
            }
        }
        let mut todo: Vec<B> = v.direct.iter().copied().collect();
        while let Some(b) = todo.pop() {
            if !v.final_star.insert(b) {
                continue;
            }
            if let Some(p) = self.parent.get(&b) {
                for t in p.0 + 1..b.0 {
                    v.impl_skipped.insert(t);
                }
                todo.push(*p);
            }
        }
        v.highest = v.direct.iter().map(|b| b.0).max().unwrap_or(0);
        let decided: BTreeSet<u64> = v.final_star.iter().map(|b| b.0).chain(v.impl_skipped.iter().copied()).collect();
        let mut w = 0;
        while decided.contains(&(w + 1)) {
            w += 1;
        }
        v.watermark = w;
        v
    }
    /// no slot with two different final* blocks, no final* slot that is also implicitly skipped, no
    /// two notar certs in a slot, no notar cert of a different block in a slot with a *directly*
    /// finalized block, no final cert in a skipped slot: what agreement (C01) guarantees; outside of
    /// it the tracker is allowed to panic ("consensus safety violation").
    /// A block that is final* only through a descendant may have a notarized sibling (D27: one
    /// equivocating leader suffices; C01 excludes other certified blocks only next to a directly
    /// finalized one).  (A final cert in such a slot would make the sibling direct: two final* blocks.)
    pub fn consistent(&self) -> bool {
        let v = self.view();
        let mut by_slot: BTreeMap<u64, u64> = BTreeMap::new();
        for b in &v.final_star {
            if let Some(h) = by_slot.insert(b.0, b.1) {
                if h != b.1 {
                    return false;
                }
            }
        }
        let mut notar_by_slot: BTreeMap<u64, u64> = BTreeMap::new();
        for b in &self.notar {
            if let Some(h) = notar_by_slot.insert(b.0, b.1) {
                if h != b.1 {
                    return false;
                }
            }
            if v.direct.iter().any(|d| d.0 == b.0 && d.1 != b.1) {
                return false;
            }
        }
        for s in &v.impl_skipped {
            if by_slot.contains_key(s) || self.fin.contains(s) {
                return false;
            }
        }
        for (b, p) in &self.parent {
            if p.0 >= b.0 {
                return false;
            }
        }
        // genesis is final by definition: a final* chain reaching slot 0 must reach genesis
        if let Some(h) = by_slot.get(&0) {
            if *h != 0 {
                return false;
            }
        }
        !v.impl_skipped.contains(&0)
    }
}

/// hash id of the notarized sibling of chain block `b` (D27)
pub fn sibling_of(b: B) -> B {
    (b.0, b.1 + 1)
}

/// hash id of the chain block of slot `s`: the first member of hash group `s` (`advhash`: ids 4s+1..4s+4 differ in a
/// single byte).  Everything else a world puts into slot `s` - the notarized sibling (4s+2), side blocks (4s+3, 4s+4),
/// the off-chain notarization of a skipped slot (4s+2) - comes from the same group.
pub fn chain_id(s: u64) -> u64 {
    4 * s + 1
}

/// A consistent "world": one chain from genesis, side blocks, off-chain notarizations (in slots the
/// chain skips, and — D27 — siblings of chain blocks that are at most implicitly finalized).
#[derive(Clone, Debug)]
pub struct World {
    pub top: u64,
    /// chain[0] = genesis, ascending slots
    pub chain: Vec<B>,
    /// side blocks (never certified final) with a parent link
    pub side: Vec<(B, B)>,
}

pub fn gen_world(rng: &mut Rng, max_slot: u64) -> World {
    let top = rng.range(2, max_slot);
    let mut chain = vec![(0u64, 0u64)];
    let mut next_hash = 1u64;
    let density = rng.range(3, 9);
    for s in 1..=top {
        if rng.chance(density, 10) || s == top {
            chain.push((s, chain_id(s)));
        }
    }
    let mut side: Vec<(B, B)> = Vec::new();
    for _ in 0..rng.below(4) {
        let s = rng.range(1, top + 1);
        let k = side.iter().filter(|(b, _)| b.0 == s).count() as u64;
        let b = (s, if k < 2 { chain_id(s) + 2 + k } else { next_hash += 1; chain_id(40 + next_hash) });
        // parent: any earlier chain block or earlier side block
        let mut cands: Vec<B> = chain.iter().copied().filter(|c| c.0 < s).collect();
        cands.extend(side.iter().map(|(b, _): &(B, B)| *b).filter(|c| c.0 < s));
        let p = *rng.pick(&cands);
        side.push((b, p));
    }
    World { top, chain, side }
}

/// The certificates / links of a world, each kept with the given probabilities.
pub fn world_fops(rng: &mut Rng, w: &World) -> Vec<FOp> {
    let mut ops = Vec::new();
    let n = w.chain.len();
    for i in 1..n {
        let b = w.chain[i];
        let p = w.chain[i - 1];
        if rng.chance(85, 100) {
            ops.push(FOp::Parent(b, p));
        }
        let is_top = i == n - 1;
        let kind = rng.below(10);
        // top-most block is finalized most of the time, others sometimes
        let (nt, fi, ff) = match (is_top, kind) {
            (true, 0) => (true, false, false),
            (true, 1..=3) => (true, true, false),
            (true, 4..=5) => (false, false, true),
            (true, 6..=7) => (true, true, true),
            (true, _) => (true, false, true),
            (false, 0..=2) => (true, false, false),
            (false, 3) => (false, true, false),
            (false, 4) => (true, true, false),
            (false, 5) => (true, true, true),
            (false, 6) => (false, false, true),
            (false, 7) => (false, true, true),
            (false, _) => (false, false, false),
        };
        if nt {
            ops.push(FOp::Notar(b));
        }
        if fi {
            ops.push(FOp::Final(b.0));
        }
        if ff {
            ops.push(FOp::FastFinal(b));
        }
        // D27: the chain block has no certificate of its own (it can only become implicitly finalized);
        // a sibling in its slot holds the notarization certificate (the chain block would hold a
        // notar-fallback certificate, which the finality tracker never sees).  Arrival order is
        // randomised by the callers: the sibling's certificate comes before or after the walk.
        if !is_top && !nt && !fi && !ff && rng.chance(3, 5) {
            let sib = sibling_of(b);
            ops.push(FOp::Notar(sib));
            if rng.chance(1, 2) {
                ops.push(FOp::Parent(sib, p));
            }
        }
    }
    for (b, p) in &w.side {
        ops.push(FOp::Parent(*b, *p));
    }
    // notarization of a block in a slot the chain skips (tolerated by the code: overwritten by / kept as
    // the implicit skip)
    let on_chain: BTreeSet<u64> = w.chain.iter().map(|b| b.0).collect();
    for s in 1..=w.top {
        if !on_chain.contains(&s) && rng.chance(1, 4) {
            ops.push(FOp::Notar((s, chain_id(s) + 1)));
        }
    }
    ops
}

// ---------------------------------------------------------------------------------------------
// parent-ready tracker (direct) and pool-level driving

use alpenglow::consensus::pool_verif::VerifParentReadyTracker;
use alpenglow::consensus::{
    Cert, EpochInfo, FastFinalCert, FinalCert, FinalVote, NotarCert, NotarFallbackCert, NotarFallbackVote, NotarVote, Pool, PoolEvent,
    PoolImpl, SkipCert, SkipVote, ValidatedCert, ValidatorEpochInfo,
};
use alpenglow::crypto::aggsig::SecretKey;
use alpenglow::ValidatorIndex;
use std::collections::HashMap;
use std::sync::Arc;
use tokio::sync::{mpsc, oneshot};

pub type Ann = (u64, B);

pub fn fmt_ann(l: &[Ann]) -> String {
    fmt_list(l.iter().map(|(s, b)| format!("{s}={}", fmt_blk(*b))).collect())
}

#[allow(clippy::type_complexity)]
pub fn fmt_pr_states(root: Slot, states: &[(Slot, bool, Vec<BlockHash>, Vec<BlockId>, bool)]) -> String {
    let sts: Vec<String> = states
        .iter()
        .map(|(s, skip, nfs, ready, waiter)| {
            format!(
                "{}:{}:{}:{}:{}",
                s.inner(),
                *skip as u8,
                nfs.iter().map(|h| hid(h).to_string()).collect::<Vec<_>>().join("/"),
                ready.iter().map(|b| format!("{}.{}", b.0.inner(), hid(&b.1))).collect::<Vec<_>>().join("/"),
                *waiter as u8
            )
        })
        .collect();
    format!("root={} pr={}", root.inner(), fmt_list(sts))
}

/// polls all outstanding waiters; returns the wake-ups `(slot, block)` in slot order
pub fn poll_waiters(waiters: &mut BTreeMap<u64, oneshot::Receiver<BlockId>>) -> Vec<Ann> {
    let mut out = Vec::new();
    let slots: Vec<u64> = waiters.keys().copied().collect();
    for s in slots {
        let rx = waiters.get_mut(&s).unwrap();
        match rx.try_recv() {
            Ok(b) => {
                out.push((s, unbid(&b)));
                waiters.remove(&s);
            }
            Err(oneshot::error::TryRecvError::Empty) => {}
            Err(oneshot::error::TryRecvError::Closed) => {
                waiters.remove(&s);
            }
        }
    }
    out
}

#[derive(Clone, Copy, Debug, PartialEq, Eq, PartialOrd, Ord, Hash)]
pub enum CK {
    N,
    NF,
    S,
    FF,
    F,
}

impl CK {
    pub fn tag(&self) -> &'static str {
        match self {
            CK::N => "N",
            CK::NF => "NF",
            CK::S => "S",
            CK::FF => "FF",
            CK::F => "F",
        }
    }
}

/// pool-level inputs
#[derive(Clone, Copy, Debug, PartialEq, Eq, PartialOrd, Ord, Hash)]
pub enum POp {
    Cert(CK, u64, u64),
    Block(B, B),
    Query(u64),
    Wait(u64),
}

impl POp {
    pub fn line(&self) -> String {
        match self {
            POp::Cert(k, s, h) => format!("cc {} {s} {h}", k.tag()),
            POp::Block(b, p) => format!("cb {} {} {} {}", b.0, b.1, p.0, p.1),
            POp::Query(s) => format!("cq {s}"),
            POp::Wait(s) => format!("cw {s}"),
        }
    }
}

/// One validator holding all the stake signs every certificate (thresholds are not what C07/C08 are
/// about); certificates are cached across cases.
pub struct CertFactory {
    sk: SecretKey,
    pub epoch: Arc<ValidatorEpochInfo>,
    cache: HashMap<(CK, u64, u64), ValidatedCert>,
}

impl CertFactory {
    pub fn new() -> Self {
        let (sks, epoch_info): (Vec<SecretKey>, EpochInfo) = alpenglow::test_utils::generate_validators(1);
        let epoch = Arc::new(ValidatorEpochInfo::new(ValidatorIndex::new(0), epoch_info));
        Self { sk: sks.into_iter().next().unwrap(), epoch, cache: HashMap::new() }
    }
    pub fn cert(&mut self, k: CK, s: u64, h: u64) -> ValidatedCert {
        if let Some(c) = self.cache.get(&(k, s, h)) {
            return c.clone();
        }
        let v0 = ValidatorIndex::new(0);
        let slot = Slot::new(s);
        let vals = self.epoch.epoch_info().validators();
        let cert = match k {
            CK::N => Cert::Notar(NotarCert::try_new(&[NotarVote::new(slot, hash(h), &self.sk, v0)], vals).unwrap()),
            CK::FF => Cert::FastFinal(FastFinalCert::try_new(&[NotarVote::new(slot, hash(h), &self.sk, v0)], vals).unwrap()),
            CK::NF => Cert::NotarFallback(NotarFallbackCert::try_new(&[], &[NotarFallbackVote::new(slot, hash(h), &self.sk, v0)], vals).unwrap()),
            CK::S => Cert::Skip(SkipCert::try_new(&[SkipVote::new(slot, &self.sk, v0)], &[], vals).unwrap()),
            CK::F => Cert::Final(FinalCert::try_new(&[FinalVote::new(slot, &self.sk, v0)], vals).unwrap()),
        };
        let vc = ValidatedCert::try_new(cert, self.epoch.epoch_info()).expect("certificate signed by all the stake validates");
        self.cache.insert((k, s, h), vc.clone());
        vc
    }
}

pub struct PoolCase {
    pub pool: PoolImpl,
    votor_rx: mpsc::Receiver<PoolEvent>,
    repair_rx: mpsc::Receiver<BlockId>,
    pub waiters: BTreeMap<u64, oneshot::Receiver<BlockId>>,
    pub dead: bool,
    pub log_seen: usize,
}

#[derive(Clone, Debug, Default)]
pub struct PoolStepOut {
    pub verdict: String,
    pub announced: Vec<Ann>,
    pub wakes: Vec<Ann>,
    /// finalization events appended to the hook log by this op
    pub fin_events: Vec<Ev>,
    pub line: String,
}

impl PoolCase {
    pub fn new(f: &CertFactory) -> Self {
        let (votor_tx, votor_rx) = mpsc::channel(1 << 14);
        let (repair_tx, repair_rx) = mpsc::channel(1 << 14);
        Self { pool: PoolImpl::new(f.epoch.clone(), votor_tx, repair_tx), votor_rx, repair_rx, waiters: BTreeMap::new(), dead: false, log_seen: 0 }
    }

    pub fn dump(&self) -> String {
        let ret: Vec<String> = self.pool.verif_retained_slots().iter().map(|s| s.inner().to_string()).collect();
        let (root, states) = self.pool.verif_parent_ready_states();
        let mut s2n: Vec<(B, B)> = self.pool.verif_s2n_waiting().iter().map(|(p, c)| (unbid(p), unbid(c))).collect();
        s2n.sort();
        format!(
            "hi={} fu={} ret={} {} s2n={}",
            self.pool.finalized_slot().inner(),
            self.pool.verif_first_unpruned_slot().inner(),
            fmt_list(ret),
            fmt_pr_states(root, &states),
            fmt_list(s2n.iter().map(|(p, c)| format!("{}>{}", fmt_blk(*p), fmt_blk(*c))).collect())
        )
    }

    fn drain(&mut self) -> Vec<Ann> {
        let mut ann = Vec::new();
        while let Ok(ev) = self.votor_rx.try_recv() {
            if let PoolEvent::ParentReady { slot, parent } = ev {
                ann.push((slot.inner(), unbid(&parent)));
            }
        }
        while self.repair_rx.try_recv().is_ok() {}
        ann
    }

    /// `apply` without the O(retained state) output line and without the finalization-log delta (deep-chain cases:
    /// thousands of ops on one pool); certificates and blocks only
    pub fn apply_quiet(&mut self, rt: &tokio::runtime::Runtime, f: &mut CertFactory, op: &POp) -> PoolStepOut {
        let mut out = PoolStepOut::default();
        let res: Result<String, String> = match op {
            POp::Cert(k, s, h) => {
                let c = f.cert(*k, *s, *h);
                catch(|| {
                    rt.block_on(async {
                        match self.pool.add_cert(c).await {
                            Ok(()) => "ok".to_string(),
                            Err(alpenglow::consensus::AddCertError::SlotOutOfBounds) => "oob".to_string(),
                            Err(alpenglow::consensus::AddCertError::Duplicate) => "dup".to_string(),
                        }
                    })
                })
            }
            POp::Block(b, p) => catch(|| {
                rt.block_on(async {
                    self.pool.add_block(bid(*b), bid(*p)).await;
                    "ok".to_string()
                })
            }),
            _ => unreachable!("apply_quiet: certificates and blocks only"),
        };
        match res {
            Err(_) => {
                self.dead = true;
                out.verdict = "panic".into();
            }
            Ok(v) => {
                out.announced = self.drain();
                out.verdict = v;
            }
        }
        out
    }

    /// runs one op on the real pool; returns the canonical output line and the observations
    pub fn apply(&mut self, rt: &tokio::runtime::Runtime, f: &mut CertFactory, op: &POp) -> PoolStepOut {
        let mut out = PoolStepOut::default();
        match op {
            POp::Query(s) => {
                let q: Vec<String> = self.pool.parents_ready(Slot::new(*s)).iter().map(|b| fmt_blk(unbid(b))).collect();
                out.verdict = "q".into();
                out.line = format!("q={}", fmt_list(q));
                return out;
            }
            POp::Wait(s) => {
                let r = catch(|| self.pool.wait_for_parent_ready(Slot::new(*s)));
                match r {
                    Err(_) => {
                        self.dead = true;
                        out.verdict = "panic".into();
                        out.line = "panic".into();
                    }
                    Ok(e) if e.is_left() => {
                        let b = e.left().unwrap();
                        out.verdict = "ready".into();
                        out.line = format!("ready {}", fmt_blk(unbid(&b)));
                    }
                    Ok(e) => {
                        let rx = e.right().unwrap();
                        self.waiters.insert(*s, rx);
                        out.verdict = "waiting".into();
                        out.line = "waiting".into();
                    }
                }
                return out;
            }
            _ => {}
        }
        let res: Result<String, String> = match op {
            POp::Cert(k, s, h) => {
                let c = f.cert(*k, *s, *h);
                catch(|| {
                    rt.block_on(async {
                        match self.pool.add_cert(c).await {
                            Ok(()) => "ok".to_string(),
                            Err(alpenglow::consensus::AddCertError::SlotOutOfBounds) => "oob".to_string(),
                            Err(alpenglow::consensus::AddCertError::Duplicate) => "dup".to_string(),
                        }
                    })
                })
            }
            POp::Block(b, p) => catch(|| {
                rt.block_on(async {
                    self.pool.add_block(bid(*b), bid(*p)).await;
                    "ok".to_string()
                })
            }),
            _ => unreachable!(),
        };
        match res {
            Err(_) => {
                self.dead = true;
                out.verdict = "panic".into();
                out.line = "panic".into();
            }
            Ok(v) => {
                out.announced = self.drain();
                out.wakes = poll_waiters(&mut self.waiters);
                let log = self.pool.verif_finalization_log();
                out.fin_events = log[self.log_seen..].iter().map(ev_plain).collect();
                self.log_seen = log.len();
                out.line = if v == "ok" {
                    format!("ok A={} W={} {}", fmt_ann(&out.announced), fmt_ann(&out.wakes), self.dump())
                } else {
                    format!("{v} {}", self.dump())
                };
                out.verdict = v;
            }
        }
        out
    }
}

/// certificates and blocks of a world for the pool, with skip certificates for the slots the chain skips
/// (what makes the chain's blocks notarizable) and a few notar-fallback certificates
pub fn world_pops(rng: &mut Rng, w: &World) -> Vec<POp> {
    let mut ops = Vec::new();
    for op in world_fops(rng, w) {
        ops.push(match op {
            FOp::Parent(b, p) => POp::Block(b, p),
            FOp::FastFinal(b) => POp::Cert(CK::FF, b.0, b.1),
            FOp::Notar(b) => POp::Cert(CK::N, b.0, b.1),
            FOp::Final(s) => POp::Cert(CK::F, s, 0),
        });
    }
    let on_chain: BTreeSet<u64> = w.chain.iter().map(|b| b.0).collect();
    let p_skip = rng.range(3, 10);
    for s in 1..=w.top + 5 {
        if !on_chain.contains(&s) && rng.chance(p_skip, 10) {
            ops.push(POp::Cert(CK::S, s, 0));
        }
    }
    for b in &w.chain[1..] {
        if rng.chance(1, 3) {
            ops.push(POp::Cert(CK::NF, b.0, b.1));
        }
    }
    for (b, _) in &w.side {
        if rng.chance(1, 2) {
            ops.push(POp::Cert(CK::NF, b.0, b.1));
        }
    }
    ops
}
