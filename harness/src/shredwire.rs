//! Wire view of `alpenglow::shredder::Shred` (wincode, default config), shared by the c11 / c12 bins via
//! `#[path = "../shredwire.rs"] mod shredwire;`. The fields of `Shred` / `ShredPayload` are crate-private;
//! the wire image is what a relay can read and rewrite, so it is also the right level for mutations.
//!
//! layout: tag u32 LE (0 = Data, 1 = Coding) | slot u64 | slice_index u64 | is_last u8 | shred_index u64 |
//!         data_len u64 | data | signature 64 B | path_len u64 | path_len × 32 B
#![allow(dead_code)]
use alpenglow::shredder::Shred;

#[derive(Clone, Debug, PartialEq, Eq)]
pub struct Wire {
    pub tag: u32,
    pub slot: u64,
    pub slice_index: u64,
    pub is_last: u8,
    pub shred_index: u64,
    pub data: Vec<u8>,
    pub sig: Vec<u8>,
    pub path: Vec<[u8; 32]>,
}

fn u64_at(b: &[u8], at: usize) -> u64 {
    u64::from_le_bytes(b[at..at + 8].try_into().expect("8 bytes"))
}

impl Wire {
    pub fn parse(b: &[u8]) -> Wire {
        let tag = u32::from_le_bytes(b[0..4].try_into().expect("4 bytes"));
        let slot = u64_at(b, 4);
        let slice_index = u64_at(b, 12);
        let is_last = b[20];
        let shred_index = u64_at(b, 21);
        let n = u64_at(b, 29) as usize;
        let data = b[37..37 + n].to_vec();
        let mut at = 37 + n;
        let sig = b[at..at + 64].to_vec();
        at += 64;
        let k = u64_at(b, at) as usize;
        at += 8;
        let mut path = Vec::new();
        for j in 0..k {
            path.push(b[at + 32 * j..at + 32 * j + 32].try_into().expect("32 bytes"));
        }
        assert_eq!(at + 32 * k, b.len(), "trailing bytes in shred wire image");
        Wire { tag, slot, slice_index, is_last, shred_index, data, sig, path }
    }

    pub fn of(s: &Shred) -> Wire {
        let b = wincode::serialize(s).expect("serialize shred");
        let w = Wire::parse(&b);
        debug_assert_eq!(w.bytes(), b);
        w
    }

    pub fn bytes(&self) -> Vec<u8> {
        let mut v = Vec::new();
        v.extend_from_slice(&self.tag.to_le_bytes());
        v.extend_from_slice(&self.slot.to_le_bytes());
        v.extend_from_slice(&self.slice_index.to_le_bytes());
        v.push(self.is_last);
        v.extend_from_slice(&self.shred_index.to_le_bytes());
        v.extend_from_slice(&(self.data.len() as u64).to_le_bytes());
        v.extend_from_slice(&self.data);
        v.extend_from_slice(&self.sig);
        v.extend_from_slice(&(self.path.len() as u64).to_le_bytes());
        for h in &self.path {
            v.extend_from_slice(h);
        }
        v
    }

    /// what the receiving node does with a datagram
    pub fn decode(&self) -> Option<Shred> {
        wincode::deserialize(&self.bytes()).ok()
    }
}
