//! Cluster harness (C01 safety, C02 progress exploration, C10 no-panic): `n` real `PoolImpl` + `Votor` pairs in one
//! thread under an adversarial scheduler (delay, loss, duplication, reordering per message, arbitrary timeouts,
//! Byzantine validators with < 20 % stake that equivocate and target votes selectively, equivocating leaders).
//! Every step is also an operation of the composed Lean model (`Model/Node.lean`, `Driver/C01.lean`).
//!
//! ops:  cluster s0 s1 ..            | nv J K SLOT HASH SIGNER | nc J K SLOT HASH a b stake | pb J S H PS PH
//!       pump J | vb J S H PS PH | fs J S | to J S | tc J S
//! Oracles: agreement of the finalization logs of all correct nodes (one chain, one block per slot), no slot both
//! finalized and skip-certified, no panic, the voting rules R1-R5 of `Spec.Rules` on the global history of the
//! correct nodes' votes (this is what ties the hypotheses of the C01 theorems to the implementation).
use std::collections::{BTreeMap, BTreeSet, HashMap, VecDeque};
use std::sync::{Arc, Mutex};
use std::time::Duration;

use ag_harness::poolkit::*;
use ag_harness::*;
use alpenglow::consensus::{
    BlockInfo, BlockstoreEvent, Cert, ConsensusMessage, Pool, PoolEvent, PoolImpl, ValidatedCert, ValidatedVote, ValidatorEpochInfo,
    Vote, Votor,
};
use alpenglow::types::Slot;
use alpenglow::{All2All, BlockId, ValidatorIndex};
use tokio::sync::mpsc;

const W: u64 = 4;

#[derive(Default)]
struct RecA2A {
    msgs: Mutex<Vec<ConsensusMessage>>,
}
impl All2All for RecA2A {
    async fn broadcast(&self, msg: &ConsensusMessage) -> std::io::Result<()> {
        self.msgs.lock().unwrap().push(msg.clone());
        Ok(())
    }
    async fn receive(&self) -> std::io::Result<ConsensusMessage> {
        std::future::pending().await
    }
}

struct RNode {
    pool: PoolImpl,
    ev_rx: mpsc::Receiver<PoolEvent>,
    rep_rx: mpsc::Receiver<BlockId>,
    votor: Votor<RecA2A>,
    a2a: Arc<RecA2A>,
    queue: VecDeque<PoolEvent>,
    dead: bool,
    _keep: (mpsc::Sender<PoolEvent>, mpsc::Sender<BlockstoreEvent>),
}

#[derive(Clone, Debug)]
enum Msg {
    Vote(K, u64, usize, usize),  // kind slot hash signer
    Cert(Cert),
}

#[derive(Clone, Copy, PartialEq, Eq, PartialOrd, Ord, Debug)]
enum HV { Notar(u64, usize), Nf(u64, usize), Skip(u64), Sf(u64), Fin(u64) }

struct World<'a> {
    keys: &'a Keys,
    n: usize,
    stakes: Vec<u64>,
    total: u64,
    byz: Vec<bool>,
    crashed: Vec<bool>,
    epochs: Vec<Arc<ValidatorEpochInfo>>,
    nodes: Vec<Option<RNode>>,
    /// blocks: hash id -> (slot, parent slot, parent hash)
    blocks: BTreeMap<usize, (u64, u64, usize)>,
    next_hash: usize,
    inflight: Vec<(usize, Msg)>,
    /// global history of votes cast, per validator, in order
    history: Vec<Vec<HV>>,
    vote_cache: HashMap<(K, u64, usize, usize), ValidatedVote>,
    rec: Recorder,
    rt: tokio::runtime::Runtime,
    class: u64,
    produced_windows: BTreeSet<u64>,
    safety_panic: bool,
    /// appended to the failure text of the safety-assert oracle (names the directed case)
    ctx: String,
}

fn vote_parts(keys: &Keys, v: &Vote) -> (K, u64, usize, usize) {
    let k = match v { Vote::Notar(_) => K::Notar, Vote::NotarFallback(_) => K::Nf, Vote::Skip(_) => K::Skip, Vote::SkipFallback(_) => K::Sf, Vote::Final(_) => K::Final };
    (k, v.slot().inner(), v.block_hash().map(|h| keys.hash_id[h]).unwrap_or(0), v.signer().as_usize())
}

impl World<'_> {
    fn stake_where(&self, f: impl Fn(usize) -> bool) -> u64 { (0..self.n).filter(|v| f(*v)).map(|v| self.stakes[v]).sum() }
    fn cast(&self, v: usize, hv: HV) -> bool { self.history[v].contains(&hv) }

    fn validated(&mut self, k: K, slot: u64, h: usize, signer: usize) -> ValidatedVote {
        let key = (k, slot, h, signer);
        if let Some(v) = self.vote_cache.get(&key) { return v.clone(); }
        let v = ValidatedVote::try_new(raw_vote(self.keys, k, slot, h, signer), self.epochs[0].epoch_info()).expect("valid vote");
        self.vote_cache.insert(key, v.clone());
        v
    }

    fn drain_pool(&mut self, j: usize) -> String {
        let keys = self.keys;
        let node = self.nodes[j].as_mut().expect("node");
        let mut out = Vec::new();
        while let Ok(ev) = node.ev_rx.try_recv() {
            match &ev {
                PoolEvent::ParentReady { slot, parent } => out.push(format!("pr {} {} {}", slot.inner(), parent.0.inner(), keys.hash_id[&parent.1])),
                PoolEvent::SafeToNotar((s, h)) => out.push(format!("s2n {} {}", s.inner(), keys.hash_id[h])),
                PoolEvent::SafeToSkip(s) => out.push(format!("s2s {}", s.inner())),
                PoolEvent::CertCreated(c) => out.push(fmt_cert(keys, c)),
                PoolEvent::Standstill(..) => {}
            }
            node.queue.push_back(ev);
        }
        let mut reps = Vec::new();
        while let Ok((s, h)) = node.rep_rx.try_recv() { reps.push(format!("repair {} {}", s.inner(), keys.hash_id[&h])); }
        reps.sort();
        out.extend(reps);
        out.join(" ; ")
    }

    /// The safety statements of C01 evaluated on the global history of the votes cast so far (correct validators' broadcasts and
    /// the votes the Byzantine validators were made to sign): at most one notarized block per slot, at most one finalized
    /// block per slot, finalized blocks pairwise on one chain, no finalized slot with a skip certificate.
    fn history_safe(&self) -> bool {
        let t = self.total;
        let mut notarized: BTreeMap<u64, Vec<usize>> = BTreeMap::new();
        let mut finalized: Vec<(u64, usize)> = Vec::new();
        for (&h, &(s, _, _)) in &self.blocks {
            if h == 0 { continue; }
            let nw = self.stake_where(|u| self.cast(u, HV::Notar(s, h)));
            if met(3, nw, t) { notarized.entry(s).or_default().push(h); }
            let fin = met(3, self.stake_where(|u| self.cast(u, HV::Fin(s))), t);
            if met(4, nw, t) || (fin && met(3, nw, t)) { finalized.push((s, h)); }
        }
        if notarized.values().any(|v| v.len() > 1) { return false; }
        let anc = |mut x: usize, target: usize| -> bool { loop { if x == target { return true; } if x == 0 { return false; } x = self.blocks[&x].2; } };
        for i in 0..finalized.len() {
            let (s, h) = finalized[i];
            if met(3, self.stake_where(|u| self.cast(u, HV::Skip(s)) || self.cast(u, HV::Sf(s))), t) { return false; }
            for k in i + 1..finalized.len() {
                let (s2, h2) = finalized[k];
                if s == s2 { return false; }
                let (lo, hi) = if s < s2 { (h, h2) } else { (h2, h) };
                if !anc(hi, lo) { return false; }
            }
        }
        true
    }

    fn panic_seen(&mut self, j: usize, op: &str, msg: &str) {
        if msg.contains("consensus safety violation") {
            self.safety_panic = true;
            // is consensus safety really violated on the global history? If not, the assertion itself is wrong (as in defect D27,
            // repaired: the finality tracker asserted that the notarized block of a slot is the one on the finalized chain)
            if self.history_safe() {
                let first = msg.lines().next().unwrap_or("").to_string();
                self.rec.oracle(false, "safety-assert-fired-history-safe", || format!("{op}: node {j} hit a 'consensus safety violation' assertion ({first}) although the global vote history satisfies agreement (one notarized block per slot, finalized blocks on one chain, no finalized slot skip-certified){}", self.ctx));
            } else {
                self.rec.oracle(false, "safety-assert-fired", || format!("{op}: node {j} hit a 'consensus safety violation' assertion although < 20% of the stake is Byzantine{}", self.ctx));
            }
        } else {
            self.rec.oracle(false, "node-panic", || format!("{op}: node {j} panicked: {msg}"));
        }
        if let Some(n) = self.nodes[j].as_mut() { n.dead = true; }
    }

    /// deliver a (validated) message to node j's pool
    fn deliver(&mut self, j: usize, m: &Msg) {
        if self.nodes[j].as_ref().is_none_or(|n| n.dead) { return; }
        let keys = self.keys;
        match m {
            Msg::Vote(k, slot, h, signer) => {
                let vv = self.validated(*k, *slot, *h, *signer);
                let op = format!("nv {j} {} {slot} {h} {signer}", k.name());
                // C05 `node_fallback_only_after_vote`: the unforgeability premise of the composed-node theorems
                // (`OwnVotesFromVotor`) — a vote signed by the recipient itself is one its own Votor broadcast before
                if *signer == j {
                    let hv = match k { K::Notar => HV::Notar(*slot, *h), K::Nf => HV::Nf(*slot, *h), K::Skip => HV::Skip(*slot), K::Sf => HV::Sf(*slot), K::Final => HV::Fin(*slot) };
                    let mine = self.history[j].contains(&hv);
                    self.rec.count("own-vote-loopback");
                    self.rec.oracle(mine, "own-vote-not-from-own-votor", || format!("{op}: node {j} receives a vote signed by itself that its Votor never broadcast"));
                }
                let node = self.nodes[j].as_mut().expect("node");
                let rt = &self.rt;
                let res = catch(|| rt.block_on(node.pool.add_vote(vv)));
                let verdict = match &res {
                    Ok(Ok(())) => "ok".to_string(),
                    Ok(Err(e)) => {
                        use alpenglow::consensus::AddVoteError as E;
                        match e {
                            E::SlotOutOfBounds => "oob".into(),
                            E::Duplicate => "dup".into(),
                            E::Slashable(o) => {
                                let s = format!("{o:?}");
                                let name = if s.starts_with("NotarDifferentHash") { "notarDifferentHash" } else if s.starts_with("SkipAndNotarize") { "skipAndNotarize" } else if s.starts_with("SkipAndFinalize") { "skipAndFinalize" } else { "nfAndFinalize" };
                                format!("slash {name}")
                            }
                        }
                    }
                    Err(_) => "panic".into(),
                };
                if let Err(msg) = &res {
                    self.rec.step(&op, "panic | ");
                    let m2 = msg.clone();
                    self.panic_seen(j, &op, &m2);
                    return;
                }
                // a correct validator's vote must never be reported slashable
                if !self.byz[*signer] {
                    self.rec.oracle(!verdict.starts_with("slash"), "correct-vote-slashable", || format!("{op}: the vote of correct validator {signer} is reported `{verdict}` by node {j}"));
                }
                let evs = self.drain_pool(j);
                self.rec.step(&op, &format!("{verdict} | {evs}"));
                self.class = fnv(self.class, &verdict);
            }
            Msg::Cert(c) => {
                let (a, b) = c.verif_signer_halves();
                let a: Vec<usize> = a.iter().map(|v| v.as_usize()).collect();
                let b: Vec<usize> = b.iter().map(|v| v.as_usize()).collect();
                let ck = cert_kind(c);
                let h = c.block_hash().map(|h| keys.hash_id[h]).unwrap_or(0);
                let op = format!("nc {j} {} {} {} {} {} {}", ck.name(), c.slot().inner(), h, fmt_list(&a), fmt_list(&b), c.stake().inner());
                let Ok(vc) = ValidatedCert::try_new(c.clone(), self.epochs[0].epoch_info()) else {
                    self.rec.oracle(false, "broadcast-cert-invalid", || format!("{op}: a certificate broadcast by a correct node fails validation"));
                    return;
                };
                let node = self.nodes[j].as_mut().expect("node");
                let rt = &self.rt;
                let res = catch(|| rt.block_on(node.pool.add_cert(vc)));
                let verdict = match &res {
                    Ok(Ok(())) => "ok".to_string(),
                    Ok(Err(e)) => if format!("{e:?}").contains("OutOfBounds") { "oob".into() } else { "dup".into() },
                    Err(_) => "panic".into(),
                };
                if let Err(msg) = &res {
                    self.rec.step(&op, "panic | ");
                    let m2 = msg.clone();
                    self.panic_seen(j, &op, &m2);
                    return;
                }
                let evs = self.drain_pool(j);
                self.rec.step(&op, &format!("{verdict} | {evs}"));
            }
        }
    }

    /// A Byzantine participant offers node `j` a certificate that is genuinely signed by `a` / `b` (Byzantine validators only,
    /// < 20 % of the stake: below every threshold) whose wire field `stake` is rewritten to `claim`. It goes through the
    /// admission path certificates take on their way into a pool (wire decoder, `ValidatedCert::try_new`) and must be refused:
    /// that is the premise `Valid` of the cluster theorems ("a delivered certificate meets its threshold on the distinct stake
    /// of its listed signers"). Oracle only: nothing is written to the compared stream unless the certificate is admitted
    /// (then it reaches the pool like any admitted certificate, so that the agreement oracles see the consequences).
    fn inject_forged(&mut self, j: usize, ck: CK, slot: u64, h: usize, a: &[usize], b: &[usize], claim: u64) {
        if self.nodes[j].as_ref().is_none_or(|n| n.dead) { return; }
        debug_assert!(a.iter().chain(b.iter()).all(|v| self.byz[*v]));
        let keys = self.keys;
        let honest = build_cert(keys, ck, slot, h, a, b, self.epochs[0].epoch_info().validators());
        let mut bytes = wincode::serialize(&ConsensusMessage::Cert(honest)).expect("serialize");
        let at = bytes.len() - 8; // `stake` is the last field of every certificate type
        bytes[at..].copy_from_slice(&claim.to_le_bytes());
        let what = format!("forged {} certificate for slot {slot} block {h} offered to node {j}: signed by the Byzantine validators {a:?} / {b:?} (stake {} of {}), wire field `stake` = {claim}", ck.name(), self.stake_where(|v| a.contains(&v) || b.contains(&v)), self.total);
        self.rec.count("forged-cert-injected");
        let Ok(ConsensusMessage::Cert(c)) = alpenglow::network::deserialize::<ConsensusMessage>(&bytes) else {
            self.rec.count("forged-cert:undecodable");
            return;
        };
        let same_claim = c.stake().inner() == claim;
        self.rec.oracle(same_claim, "harness-forged-cert-encoding", || format!("{what}: the decoded certificate declares {}", c.stake().inner()));
        let res = catch(|| ValidatedCert::try_new(c, self.epochs[0].epoch_info()));
        self.rec.oracle(!matches!(res, Ok(Ok(_))), "forged-cert-admitted", || format!("{what}: ValidatedCert::try_new admits it{}", self.ctx));
        match res {
            Err(msg) => { self.rec.oracle(false, "node-panic", || format!("{what}: ValidatedCert::try_new panicked: {msg}")); }
            Ok(Err(_)) => self.rec.count("forged-cert:refused"),
            Ok(Ok(vc)) => {
                let node = self.nodes[j].as_mut().expect("node");
                let rt = &self.rt;
                if let Err(msg) = catch(|| rt.block_on(node.pool.add_cert(vc))) {
                    self.panic_seen(j, &what, &msg);
                    return;
                }
                let _ = self.drain_pool(j);
            }
        }
    }

    /// collect what node j's votor broadcast; record history; queue for delivery
    fn collect_broadcasts(&mut self, j: usize, rng: &mut Rng, loss: u64) -> String {
        let keys = self.keys;
        let sent: Vec<ConsensusMessage> = self.nodes[j].as_ref().expect("node").a2a.msgs.lock().unwrap().drain(..).collect();
        let mut outs = Vec::new();
        for m in sent {
            match m {
                ConsensusMessage::Vote(v) => {
                    let (k, slot, h, signer) = vote_parts(keys, &v);
                    outs.push(match k { K::Notar => format!("notar {slot} {h}"), K::Nf => format!("nf {slot} {h}"), K::Skip => format!("skip {slot}"), K::Sf => format!("sf {slot}"), K::Final => format!("final {slot}") });
                    self.rec.oracle(signer == j, "vote-wrong-signer", || format!("node {j} broadcast a vote signed as {signer}"));
                    self.rec.count(&format!("cast:{}", k.name()));
                    let hv = match k { K::Notar => HV::Notar(slot, h), K::Nf => HV::Nf(slot, h), K::Skip => HV::Skip(slot), K::Sf => HV::Sf(slot), K::Final => HV::Fin(slot) };
                    self.check_rules(j, hv);
                    self.history[j].push(hv);
                    self.vote_cache.entry((k, slot, h, signer)).or_insert_with(|| ValidatedVote::try_new(v.clone(), self.epochs[0].epoch_info()).expect("own vote validates"));
                    for dest in 0..self.n {
                        if self.nodes[dest].is_none() { continue; }
                        if dest != j && rng.chance(loss, 100) { continue; }
                        self.inflight.push((dest, Msg::Vote(k, slot, h, signer)));
                        if rng.chance(1, 25) { self.inflight.push((dest, Msg::Vote(k, slot, h, signer))); }
                    }
                }
                ConsensusMessage::Cert(c) => {
                    let ck = cert_kind(&c);
                    let h = c.block_hash().map(|h| keys.hash_id[h]).unwrap_or(0);
                    outs.push(format!("cert {} {} {}", ck.name(), c.slot().inner(), h));
                    for dest in 0..self.n {
                        if dest == j || self.nodes[dest].is_none() { continue; }
                        if rng.chance(loss, 100) { continue; }
                        self.inflight.push((dest, Msg::Cert(c.clone())));
                    }
                }
            }
        }
        outs.join(" ; ")
    }

    /// the voting rules of `Spec.Rules`, evaluated on the global history at the moment correct node `v` casts `hv`
    fn check_rules(&mut self, v: usize, hv: HV) {
        let t = self.total;
        let notar_w = |w: &World, s: u64, h: usize| w.stake_where(|u| w.cast(u, HV::Notar(s, h)));
        let nf_cert = |w: &World, s: u64, h: usize| (s == 0 && h == 0) || met(3, w.stake_where(|u| w.cast(u, HV::Notar(s, h)) || w.cast(u, HV::Nf(s, h))), t);
        let skip_cert = |w: &World, s: u64| met(3, w.stake_where(|u| w.cast(u, HV::Skip(s)) || w.cast(u, HV::Sf(s))), t);
        let hist = self.history[v].clone();
        let slot_votes = |s: u64| hist.iter().filter(move |x| match x { HV::Notar(a, _) | HV::Nf(a, _) => *a == s, HV::Skip(a) | HV::Sf(a) | HV::Fin(a) => *a == s }).copied().collect::<Vec<_>>();
        match hv {
            HV::Notar(s, h) => {
                let prev = slot_votes(s);
                let ok1 = !prev.iter().any(|x| matches!(x, HV::Notar(..) | HV::Skip(_)));
                self.rec.oracle(ok1, "R1-one-initial-vote", || format!("node {v} notarizes ({s},{h}) after {prev:?}"));
                if let Some(&(_, ps, ph)) = self.blocks.get(&h) {
                    // R5 is checked on the history of the refinement theorem (`Cluster.histOf`): a Byzantine validator counts as
                    // having signed every vote (it can). On the history of the votes the Byzantine validators were actually
                    // made to sign, the rule is false for the implementation: `ParentReady` is also derived from finalizations
                    // (directed case `parent-ready-from-finalization`; `cluster_rules` proves the rule on `histOf`).
                    let nf_cert_max = |w: &World, s: u64, h: usize| (s == 0 && h == 0) || met(3, w.stake_where(|u| w.byz[u] || w.cast(u, HV::Notar(s, h)) || w.cast(u, HV::Nf(s, h))), t);
                    let skip_cert_max = |w: &World, s: u64| met(3, w.stake_where(|u| w.byz[u] || w.cast(u, HV::Skip(s)) || w.cast(u, HV::Sf(s))), t);
                    if s % W == 0 && !(nf_cert(self, ps, ph) && ((ps + 1)..s).all(|x| skip_cert(self, x))) { self.rec.count("R5-window-start-needs-byzantine-stake"); }
                    let ok5 = if s % W == 0 {
                        nf_cert_max(self, ps, ph) && ((ps + 1)..s).all(|x| skip_cert_max(self, x))
                    } else {
                        ps + 1 == s && self.cast(v, HV::Notar(ps, ph)) || (ps == 0 && ph == 0 && s == 1)
                    };
                    self.rec.oracle(ok5, "R5-parent-not-acceptable", || format!("node {v} notarizes ({s},{h}) with parent ({ps},{ph}) which is not acceptable on the global history"));
                }
            }
            HV::Skip(s) => {
                let prev = slot_votes(s);
                let ok1 = !prev.iter().any(|x| matches!(x, HV::Notar(..) | HV::Skip(_) | HV::Fin(_)));
                self.rec.oracle(ok1, "R1-one-initial-vote", || format!("node {v} skips {s} after {prev:?}"));
            }
            HV::Fin(s) => {
                let prev = slot_votes(s);
                let mine = prev.iter().find_map(|x| if let HV::Notar(_, h) = x { Some(*h) } else { None });
                let clean = !prev.iter().any(|x| matches!(x, HV::Skip(_) | HV::Sf(_) | HV::Nf(..)));
                let cert = mine.is_some_and(|h| met(3, notar_w(self, s, h), t));
                self.rec.oracle(mine.is_some() && clean && cert, "R2-final-rule", || format!("node {v} finalizes slot {s} after {prev:?} (notar cert on global history: {cert})"));
            }
            HV::Nf(s, h) => {
                let prev = slot_votes(s);
                let voted = prev.iter().any(|x| matches!(x, HV::Notar(..) | HV::Skip(_)));
                let not_same = !prev.contains(&HV::Notar(s, h));
                let no_fin = !prev.contains(&HV::Fin(s));
                let nw = notar_w(self, s, h);
                let sk = self.stake_where(|u| self.cast(u, HV::Notar(s, h)) || self.cast(u, HV::Skip(s)));
                let stake_ok = met(2, nw, t) || (met(1, nw, t) && met(3, sk, t));
                let parent_ok = self.blocks.get(&h).is_some_and(|&(_, ps, ph)| ps != 0 && nf_cert(self, ps, ph) || false) || self.blocks.get(&h).is_some_and(|&(_, ps, ph)| met(3, self.stake_where(|u| self.cast(u, HV::Notar(ps, ph)) || self.cast(u, HV::Nf(ps, ph))), t));
                self.rec.oracle(voted && not_same && no_fin && stake_ok && parent_ok, "R3-nf-rule", || format!("node {v} casts notar-fallback ({s},{h}) after {prev:?}: voted={voted} not_same={not_same} no_final={no_fin} stake={stake_ok} parent={parent_ok}"));
            }
            HV::Sf(s) => {
                let prev = slot_votes(s);
                let notarized = prev.iter().any(|x| matches!(x, HV::Notar(..)));
                let no_fin = !prev.contains(&HV::Fin(s));
                // for every block c of the slot: skip + notar(other than c) >= 40 %
                let slot_blocks: Vec<usize> = self.blocks.iter().filter(|(_, b)| b.0 == s).map(|(h, _)| *h).collect();
                let cond = slot_blocks.iter().all(|&c| {
                    met(2, self.stake_where(|u| self.cast(u, HV::Skip(s)) || slot_blocks.iter().any(|&x| x != c && self.cast(u, HV::Notar(s, x)))), t)
                });
                self.rec.oracle(notarized && no_fin && cond, "R4-sf-rule", || format!("node {v} casts skip-fallback {s} after {prev:?}: notarized={notarized} no_final={no_fin} stake={cond}"));
            }
        }
    }

    fn votor_event(&mut self, j: usize, op: String, rng: &mut Rng, loss: u64, f: impl FnOnce(&mut Votor<RecA2A>, &tokio::runtime::Runtime)) {
        if self.nodes[j].as_ref().is_none_or(|n| n.dead) { return; }
        let node = self.nodes[j].as_mut().expect("node");
        let rt = &self.rt;
        let res = catch(|| f(&mut node.votor, rt));
        if let Err(msg) = res {
            self.rec.step(&op, "v | dead");
            self.panic_seen(j, &op, &msg);
            return;
        }
        let _ = self.nodes[j].as_mut().expect("node").votor.verif_drain_timeouts();
        let outs = self.collect_broadcasts(j, rng, loss);
        self.class = fnv(self.class, &outs);
        self.rec.step(&op, &format!("v | {outs}"));
    }

    fn pump(&mut self, j: usize, rng: &mut Rng, loss: u64) {
        if self.nodes[j].as_ref().is_none_or(|n| n.dead) { return; }
        let Some(ev) = self.nodes[j].as_mut().expect("node").queue.pop_front() else { return };
        if matches!(ev, PoolEvent::Standstill(..)) { return; }
        self.votor_event(j, format!("pump {j}"), rng, loss, |v, rt| rt.block_on(v.verif_pool_event(ev)));
    }

    fn block_to_votor(&mut self, j: usize, h: usize, rng: &mut Rng, loss: u64) {
        let (s, ps, ph) = self.blocks[&h];
        let info = BlockInfo::verif_new(self.keys.hashes[h].clone(), (Slot::new(ps), self.keys.hashes[ph].clone()));
        self.votor_event(j, format!("vb {j} {s} {h} {ps} {ph}"), rng, loss, |v, rt| rt.block_on(v.verif_blockstore_event(BlockstoreEvent::Block { slot: Slot::new(s), block_info: info })));
    }

    fn block_to_pool(&mut self, j: usize, h: usize) {
        if self.nodes[j].as_ref().is_none_or(|n| n.dead) { return; }
        let (s, ps, ph) = self.blocks[&h];
        let op = format!("pb {j} {s} {h} {ps} {ph}");
        let bid = (Slot::new(s), self.keys.hashes[h].clone());
        let pid = (Slot::new(ps), self.keys.hashes[ph].clone());
        let node = self.nodes[j].as_mut().expect("node");
        let rt = &self.rt;
        let res = catch(|| rt.block_on(node.pool.add_block(bid, pid)));
        if let Err(msg) = res {
            self.rec.step(&op, "panic | ");
            self.panic_seen(j, &op, &msg);
            return;
        }
        let evs = self.drain_pool(j);
        self.rec.step(&op, &format!("ok | {evs}"));
    }

    fn new_block(&mut self, s: u64, ps: u64, ph: usize) -> usize {
        let h = self.next_hash;
        self.next_hash += 1;
        self.blocks.insert(h, (s, ps, ph));
        h
    }
}

fn make_nodes(keys: &Keys, epochs: &[Arc<ValidatorEpochInfo>], byz: &[bool], rt: &tokio::runtime::Runtime) -> Vec<Option<RNode>> {
    let mut nodes: Vec<Option<RNode>> = Vec::new();
    for i in 0..byz.len() {
        if byz[i] { nodes.push(None); continue; }
        let (ev_tx, ev_rx) = mpsc::channel(1 << 14);
        let (rep_tx, rep_rx) = mpsc::channel(1 << 14);
        let pool = PoolImpl::new(epochs[i].clone(), ev_tx, rep_tx);
        let (ptx, prx) = mpsc::channel::<PoolEvent>(4);
        let (btx, brx) = mpsc::channel::<BlockstoreEvent>(4);
        let a2a = Arc::new(RecA2A::default());
        let votor = { let _g = rt.enter(); Votor::new(ValidatorIndex::new(i as u64), keys.vsks[i].clone(), prx, brx, a2a.clone()) };
        nodes.push(Some(RNode { pool, ev_rx, rep_rx, votor, a2a, queue: VecDeque::new(), dead: false, _keep: (ptx, btx) }));
    }
    nodes
}

/// one operation of a directed (scripted) case
enum D {
    /// block `h` to node `j`'s Votor / pool
    Vb(usize, usize),
    Pb(usize, usize),
    /// vote (kind, slot, hash, signer) to node `j`'s pool
    Nv(usize, K, u64, usize, usize),
    /// certificate (kind, slot, hash, first aggregate, second aggregate) to node `j`'s pool
    Nc(usize, CK, u64, usize, Vec<usize>, Vec<usize>),
    Pump(usize),
    To(usize, u64),
    /// forged certificate (kind, slot, hash, Byzantine signers of both aggregates, declared stake) offered to node `j`
    Forged(usize, CK, u64, usize, Vec<usize>, Vec<usize>, u64),
}

/// Directed cases: runs that the random scheduler is very unlikely to produce, found while proving the refinement theorem
/// (`lean/AgModel/Props/C01Cluster.lean`). Validators X = 0 (41 %), Y = 1 (39 %), A = 2 (1 %) are correct, Z = 3 (19 %) is
/// Byzantine. Every step goes through the same code as the random cases (same oracles, same replay on the Lean model).
fn directed(keys: &Keys, mut rec: Recorder, tag: &str, blocks: &[(usize, u64, u64, usize)], script: Vec<D>) -> Recorder {
    let stakes: Vec<u64> = vec![41, 39, 1, 19];
    let byz = vec![false, false, false, true];
    let n = 4;
    let total: u64 = stakes.iter().sum();
    let epochs: Vec<Arc<ValidatorEpochInfo>> = (0..n).map(|i| make_epoch(keys, &stakes, i)).collect();
    let rt = tokio::runtime::Builder::new_current_thread().enable_time().start_paused(true).build().expect("rt");
    let nodes = make_nodes(keys, &epochs, &byz, &rt);
    rec.begin_case(&format!("directed/{tag}"));
    let mut w = World { keys, n, stakes: stakes.clone(), total, byz: byz.clone(), crashed: vec![false; n], epochs, nodes, blocks: BTreeMap::new(), next_hash: 1,
        inflight: Vec::new(), history: vec![Vec::new(); n], vote_cache: HashMap::new(), rec, rt, class: 0, produced_windows: BTreeSet::new(), safety_panic: false, ctx: format!(" [directed: {tag}]") };
    w.blocks.insert(0, (0, 0, 0));
    for &(h, s, ps, ph) in blocks { w.blocks.insert(h, (s, ps, ph)); }
    w.rec.step(&format!("cluster {}", stakes.iter().map(|s| s.to_string()).collect::<Vec<_>>().join(" ")), &format!("cluster n={n} total={total}"));
    let mut rng = Rng::new(7);
    for d in script {
        match d {
            D::Vb(j, h) => w.block_to_votor(j, h, &mut rng, 0),
            D::Pb(j, h) => w.block_to_pool(j, h),
            D::Nv(j, k, slot, h, signer) => {
                if w.byz[signer] {
                    let hv = match k { K::Notar => HV::Notar(slot, h), K::Nf => HV::Nf(slot, h), K::Skip => HV::Skip(slot), K::Sf => HV::Sf(slot), K::Final => HV::Fin(slot) };
                    if !w.history[signer].contains(&hv) { w.history[signer].push(hv); }
                }
                w.deliver(j, &Msg::Vote(k, slot, h, signer));
            }
            D::Nc(j, ck, slot, h, a, b) => {
                // the Byzantine signers of a delivered certificate have signed
                for (half, list) in [(0, &a), (1, &b)] {
                    for &v in list.iter() {
                        if !w.byz[v] { continue; }
                        let hv = match (ck, half) { (CK::Notar, _) | (CK::Ff, _) | (CK::Nf, 0) => HV::Notar(slot, h), (CK::Nf, _) => HV::Nf(slot, h), (CK::Skip, 0) => HV::Skip(slot), (CK::Skip, _) => HV::Sf(slot), (CK::Final, _) => HV::Fin(slot) };
                        if !w.history[v].contains(&hv) { w.history[v].push(hv); }
                    }
                }
                let c = build_cert(keys, ck, slot, h, &a, &b, w.epochs[0].epoch_info().validators());
                w.deliver(j, &Msg::Cert(c));
            }
            D::Pump(j) => w.pump(j, &mut rng, 0),
            D::To(j, s) => w.votor_event(j, format!("to {j} {s}"), &mut rng, 0, |v, rt| rt.block_on(v.verif_timeout(Slot::new(s), false))),
            D::Forged(j, ck, slot, h, a, b, claim) => w.inject_forged(j, ck, slot, h, &a, &b, claim),
        }
    }
    // no node of a directed case may panic (case 2 reproduced defect D27 before its repair)
    for j in 0..n {
        let dead = w.nodes[j].as_ref().is_some_and(|nd| nd.dead);
        w.rec.oracle(!dead, "node-panic", || format!("directed case {tag}: node {j} is dead at the end of the script"));
    }
    if tag == "notarized-sibling-of-finalized-chain" {
        let fin = w.nodes[0].as_ref().expect("node").pool.finalized_slot().inner();
        w.rec.oracle(fin == 4, "directed-not-finalized", || format!("directed case {tag}: node 0 reports finalized slot {fin}, expected 4 (fast-finalization of (4,40) through the chain (3,32) -> (2,22) next to the notarized (2,21))"));
    }
    if tag == "forged-certificates-with-inflated-stake" {
        // besides X's and Y's notarization votes for (1,10) only certificates signed by Z alone (19 %) were offered: no pool
        // may hold a certificate whose signers are all Byzantine, and Y, A (who saw nothing else) have finalized nothing
        for j in 0..n {
            let Some(nd) = w.nodes[j].as_ref() else { continue };
            let fin = nd.pool.finalized_slot().inner();
            if j != 0 {
                w.rec.oracle(fin == 0, "forged-cert-admitted", || format!("directed case {tag}: node {j} reports finalized slot {fin} although it was only offered forged certificates signed by Z (19 %)"));
            }
            let held: Vec<String> = nd.pool.verif_certs(Slot::new(1)).iter()
                .filter(|c| { let (a, b) = c.verif_signer_halves(); a.iter().chain(b.iter()).all(|v| byz[v.as_usize()]) })
                .map(|c| fmt_cert(keys, c)).collect();
            w.rec.oracle(held.is_empty(), "forged-cert-admitted", || format!("directed case {tag}: node {j} holds {held:?} for slot 1, signed by Byzantine validators only (19 % of the stake)"));
        }
    }
    // agreement at the end of every directed case: at most one block per slot in the finalization reports (direct and
    // implicit) of the correct nodes, and all reported blocks on one chain of the registered block tree
    {
        let mut fin_by_slot: BTreeMap<u64, BTreeSet<usize>> = BTreeMap::new();
        for j in 0..n {
            let Some(nd) = w.nodes[j].as_ref() else { continue };
            if nd.dead { continue; }
            for (finalized, implicit, _skipped) in nd.pool.verif_finalization_log() {
                for (s, h) in finalized.into_iter().chain(implicit.into_iter()) { fin_by_slot.entry(s.inner()).or_default().insert(keys.hash_id[&h]); }
            }
        }
        for (s, hs) in &fin_by_slot {
            w.rec.oracle(hs.len() <= 1, "conflicting-finalization", || format!("directed case {tag}: slot {s} reported finalized with different blocks {hs:?}"));
        }
        let fins: Vec<(u64, usize)> = fin_by_slot.iter().filter_map(|(s, hs)| hs.iter().next().map(|h| (*s, *h))).collect();
        let anc = |mut x: usize, target: usize| -> bool { loop { if x == target { return true; } if x == 0 { return false; } x = w.blocks[&x].2; } };
        for i in 0..fins.len() { for j2 in i + 1..fins.len() { let (a, b) = (fins[i].1, fins[j2].1); w.rec.oracle(anc(b, a), "finalized-not-one-chain", || format!("directed case {tag}: finalized blocks {:?} and {:?} are not on one chain", fins[i], fins[j2])); } }
    }
    if tag == "sibling-of-finalized-block-registered-late" {
        let log: BTreeSet<(u64, usize)> = w.nodes[2].as_ref().map(|nd| nd.pool.verif_finalization_log().into_iter()
            .flat_map(|(f, i, _)| f.into_iter().chain(i.into_iter())).map(|(s, h)| (s.inner(), keys.hash_id[&h])).collect()).unwrap_or_default();
        let want: BTreeSet<(u64, usize)> = [(2u64, 20usize), (1, 10)].into_iter().collect();
        w.rec.oracle(log == want, "directed-not-finalized", || format!("directed case {tag}: node 2 reports {log:?} finalized, the finalized chain is {want:?} (the sibling (2,21) and its parent (1,11) are not on it)"));
    }
    let class = w.class;
    w.rec.end_case(class, true);
    w.rec
}

fn main() {
    let args = Args::parse();
    quiet_panics();
    let mut rng = Rng::new(args.seed);
    let mut frng = Rng::new(args.seed ^ 0xF0_46ED_0000);
    let mut srng = Rng::new(args.seed ^ 0x51B1_1465_0000);
    let mut krng = Rng::new(0xA1A1);
    let keys = Keys::new(&mut krng);
    let timed = args.extra.iter().any(|a| a == "--timed");
    let cases = if args.thorough { 400 } else { 24 };
    let mut rec = Recorder::new();
    // ---- directed cases (see `directed`); only for C01 (`--directed`): the second one used to end in the panic of defect D27
    //      (repaired, `fix:` 7ac7ffa) and now demands that no node panics and that X's pool reports f finalized
    let run_directed = args.extra.iter().any(|a| a == "--directed");
    if run_directed {
    // (1) ParentReady derived from a finalization: A learns the fast-finalization of c2 = (4,40) whose registered ancestors are
    //     cc = (3,30) -> p = (2,20); slot 3 is skip-certified; the pool announces ParentReady(4, p) although p has no
    //     certificate, and A's Votor notarizes the pending block x = (4,41) built on p.
    rec = directed(&keys, rec, "parent-ready-from-finalization",
        &[(10, 1, 0, 0), (20, 2, 1, 10), (30, 3, 2, 20), (40, 4, 3, 30), (41, 4, 2, 20)],
        vec![D::Vb(0, 10), D::Vb(0, 20), D::Vb(0, 30), D::To(1, 1), D::To(2, 1),
             D::Nv(0, K::Notar, 3, 30, 0), D::Nv(0, K::Skip, 3, 0, 1), D::Nv(0, K::Skip, 3, 0, 2), D::Pump(0), D::Pump(0),
             D::Nc(0, CK::Notar, 3, 30, vec![0, 3], vec![]), D::Vb(0, 40), D::Pump(0), D::Pump(0), D::Pump(0), D::Pump(0),
             D::Nc(1, CK::Notar, 3, 30, vec![0, 3], vec![]), D::Vb(1, 40), D::Pump(1), D::Pump(1), D::Pump(1),
             D::Nc(2, CK::Skip, 3, 0, vec![1, 2], vec![0]), D::Pb(2, 30), D::Pb(2, 40), D::Vb(2, 41),
             D::Nc(2, CK::Ff, 4, 40, vec![0, 1, 3], vec![]), D::Pump(2), D::Pump(2), D::Pump(2), D::Pump(2)]);
    // (2) a notarized block that is not on the finalized chain: X holds a notarization certificate for x = (2,21) (X + Z)
    //     while y = (2,22) is notar-fallback-certified (Y, A, Z notarize it, X casts the fallback vote), the chain continues
    //     on y: z = (3,32), f = (4,40); f is fast-finalized (X + Y). All correct nodes follow the protocol, 19 % Byzantine.
    rec = directed(&keys, rec, "notarized-sibling-of-finalized-chain",
        &[(10, 1, 0, 0), (21, 2, 1, 10), (22, 2, 1, 10), (32, 3, 2, 22), (40, 4, 3, 32)],
        vec![D::Vb(0, 10), D::Vb(1, 10), D::Vb(2, 10), D::Vb(0, 21), D::Vb(1, 22), D::Vb(2, 22), D::Vb(1, 32), D::Vb(2, 32),
             D::Nv(0, K::Notar, 1, 10, 0), D::Nv(0, K::Notar, 1, 10, 3),
             D::Pb(0, 22), D::Nv(0, K::Notar, 2, 21, 0), D::Nv(0, K::Notar, 2, 22, 1), D::Nv(0, K::Notar, 2, 22, 2), D::Nv(0, K::Notar, 2, 22, 3),
             D::Pump(0), D::Pump(0), D::Pump(0), D::Pump(0), D::Pump(0),
             D::Nc(0, CK::Notar, 2, 21, vec![0, 3], vec![]), D::Nv(0, K::Nf, 2, 22, 0),
             D::Pb(0, 32), D::Nv(0, K::Skip, 3, 0, 0), D::Nv(0, K::Notar, 3, 32, 1), D::Nv(0, K::Notar, 3, 32, 2), D::Nv(0, K::Notar, 3, 32, 3),
             D::Pump(0), D::Pump(0), D::Pump(0), D::Pump(0), D::Pump(0), D::Pump(0), D::Pump(0),
             D::Nv(0, K::Nf, 3, 32, 0), D::Vb(0, 40), D::Pump(0), D::Pump(0), D::Pump(0),
             D::Nc(1, CK::Nf, 3, 32, vec![1, 2, 3], vec![0]), D::Vb(1, 40), D::Pump(1), D::Pump(1),
             D::Pb(0, 40), D::Nv(0, K::Notar, 4, 40, 0), D::Nv(0, K::Notar, 4, 40, 1)]);
    // (3) what a single Byzantine validator (Z, 19 %) can put on the wire: certificates of every type for the sibling x' = (1,11)
    //     of the block (1,10) that X fast-finalizes (and a skip certificate for that slot), genuinely signed by Z alone, with
    //     the wire field `stake` claiming the total / exactly the threshold / u64::MAX. Admission must not look at that field.
    let (t, q, sq) = (100u64, 60u64, 80u64);
    rec = directed(&keys, rec, "forged-certificates-with-inflated-stake",
        &[(10, 1, 0, 0), (11, 1, 0, 0)],
        vec![D::Vb(0, 10), D::Vb(1, 10), D::Pb(0, 10), D::Nv(0, K::Notar, 1, 10, 0), D::Nv(0, K::Notar, 1, 10, 1), D::Pump(0), D::Pump(0),
             D::Forged(0, CK::Ff, 1, 11, vec![3], vec![], t), D::Forged(1, CK::Ff, 1, 11, vec![3], vec![], sq), D::Forged(2, CK::Ff, 1, 11, vec![3], vec![], u64::MAX),
             D::Forged(0, CK::Notar, 1, 11, vec![3], vec![], q), D::Forged(1, CK::Notar, 1, 11, vec![3], vec![], t),
             D::Forged(0, CK::Final, 1, 0, vec![3], vec![], t), D::Forged(2, CK::Final, 1, 0, vec![3], vec![], q),
             D::Forged(0, CK::Nf, 1, 11, vec![3], vec![3], t), D::Forged(1, CK::Nf, 1, 11, vec![], vec![3], q), D::Forged(2, CK::Nf, 1, 11, vec![3], vec![], u64::MAX),
             D::Forged(0, CK::Skip, 1, 0, vec![3], vec![3], t), D::Forged(1, CK::Skip, 1, 0, vec![3], vec![], q), D::Forged(2, CK::Skip, 1, 0, vec![], vec![3], t),
             D::Pump(0), D::Pump(1), D::Pump(2)]);
    // (4) the sibling of a finalized block is registered late: X and Y notarize b = (2,20) on (1,10); A learns the fast-
    //     finalization of b from the certificate alone (no block, so nothing below slot 2 is decided at A), then the equivocating
    //     leader's sibling c = (2,21), built on (1,11), reaches A's pool before b does (dissemination / repair order). Only b
    //     and b's ancestors may be reported finalized; c's parent must stay undecided (seeded changes C01-6 / C01-13).
    rec = directed(&keys, rec, "sibling-of-finalized-block-registered-late",
        &[(10, 1, 0, 0), (11, 1, 0, 0), (20, 2, 1, 10), (21, 2, 1, 11)],
        vec![D::Vb(0, 10), D::Vb(1, 10), D::Vb(0, 20), D::Vb(1, 20),
             D::Nc(2, CK::Ff, 2, 20, vec![0, 1, 3], vec![]), D::Pump(2),
             D::Pb(2, 21), D::Pump(2), D::Pb(2, 11), D::Pb(2, 20), D::Pump(2), D::Pb(2, 10), D::Pump(2), D::Pump(2)]);
    // (5) the child of an uncertified sibling: the Byzantine leader Z shows (1,10) to X and Y (80 %: notarized, fast-finalized,
    //     finalized) and (1,11) to A, who notarizes it with Z (20 %); slot 2 carries only B = (2,21), a child of (1,11):
    //     A and Z notarize B, X and Y time out and skip. At X every stake condition of safe-to-notar holds for B (20 % notar,
    //     100 % notar + skip) - but B's parent (1,11) has no certificate, only its sibling has: X must not cast the
    //     notar-fallback vote (rule R3; seeded changes C01-5 / C01-9 / C01-11 certify the parent per slot instead of per block).
    rec = directed(&keys, rec, "child-of-uncertified-sibling",
        &[(10, 1, 0, 0), (11, 1, 0, 0), (21, 2, 1, 11)],
        vec![D::Vb(0, 10), D::Vb(1, 10), D::Vb(2, 11), D::Pb(0, 10), D::Pb(0, 11), D::Pb(1, 10),
             D::Nv(0, K::Notar, 1, 10, 0), D::Nv(0, K::Notar, 1, 10, 1), D::Nv(1, K::Notar, 1, 10, 0), D::Nv(1, K::Notar, 1, 10, 1),
             D::Pump(0), D::Pump(0), D::Pump(0), D::Pump(0), D::Pump(1), D::Pump(1), D::Pump(1), D::Pump(1),
             D::Nv(0, K::Notar, 1, 11, 2), D::Nv(0, K::Notar, 1, 11, 3),
             D::Nc(0, CK::Final, 1, 0, vec![0, 1], vec![]), D::Pump(0), D::Pump(0),
             D::Vb(2, 21), D::Vb(0, 21), D::To(0, 2), D::To(1, 2),
             D::Pb(0, 21), D::Nv(0, K::Notar, 2, 21, 2), D::Nv(0, K::Notar, 2, 21, 3), D::Nv(0, K::Skip, 2, 0, 1), D::Nv(0, K::Skip, 2, 0, 0),
             D::Pump(0), D::Pump(0), D::Pump(0), D::Pump(0), D::Pump(0), D::Pump(0)]);
    }
    let mut progress_stats: BTreeMap<String, u64> = BTreeMap::new();
    for _case in 0..cases {
        let n = rng.range(4, 9) as usize;
        // stakes; Byzantine set with < 20 % of the stake, crash set (correct but silent)
        let stakes: Vec<u64> = match rng.below(3) { 0 => vec![1; n], 1 => (0..n).map(|_| rng.range(1, 5)).collect(), _ => (0..n).map(|i| 1 + (i as u64 % 3)).collect() };
        let total: u64 = stakes.iter().sum();
        let mut byz = vec![false; n];
        let mut order: Vec<usize> = (0..n).collect();
        rng.shuffle(&mut order);
        let mut bst = 0;
        for &v in &order { if rng.chance(1, 2) && (bst + stakes[v]) * 5 < total { byz[v] = true; bst += stakes[v]; } }
        let mut crashed = vec![false; n];
        if !timed && rng.chance(1, 3) { for &v in &order { if !byz[v] && rng.chance(1, 6) { crashed[v] = true; } } }
        let epochs: Vec<Arc<ValidatorEpochInfo>> = (0..n).map(|i| make_epoch(&keys, &stakes, i)).collect();
        let rt = tokio::runtime::Builder::new_current_thread().enable_time().start_paused(true).build().expect("rt");
        let nodes = make_nodes(&keys, &epochs, &byz, &rt);
        let mut w = World { keys: &keys, n, stakes: stakes.clone(), total, byz: byz.clone(), crashed: crashed.clone(), epochs, nodes, blocks: BTreeMap::new(), next_hash: 1,
            inflight: Vec::new(), history: vec![Vec::new(); n], vote_cache: HashMap::new(), rec, rt, class: 0, produced_windows: BTreeSet::new(), safety_panic: false, ctx: String::new() };
        w.blocks.insert(0, (0, 0, 0));
        let shape = if timed { "timed" } else { *rng.pick(&["calm", "lossy", "byz-heavy", "timeouts"]) };
        w.rec.begin_case(&format!("{shape}/n{n}/byz{}", byz.iter().filter(|b| **b).count()));
        w.rec.step(&format!("cluster {}", stakes.iter().map(|s| s.to_string()).collect::<Vec<_>>().join(" ")), &format!("cluster n={n} total={total}"));
        let loss: u64 = match shape { "lossy" => 25, "calm" | "timed" => 0, _ => 8 };
        let max_steps = if timed { 6000 } else if args.thorough { 2500 } else { 1500 };
        let mut pending_blocks: Vec<(usize, usize)> = Vec::new(); // (dest node, hash): block delivery to votor+pool
        let mut timer_rr: usize = 0;
        let max_window = if args.thorough { 6 } else { 4 };
        for step in 0..max_steps {
            // ---- block production: a window whose leader is correct is produced once the leader's pool has a ready parent
            for win in 0..max_window {
                if w.produced_windows.contains(&win) { continue; }
                let first = (win * W).max(1);
                let leader = (win as usize) % n;
                let parent: Option<(u64, usize)> = if win == 0 { Some((0, 0)) } else if w.byz[leader] {
                    // Byzantine leader: any existing block in an earlier slot
                    if step > 40 * win as usize && rng.chance(1, 6) { let c: Vec<(u64, usize)> = w.blocks.iter().filter(|(_, b)| b.0 < first).map(|(h, b)| (b.0, *h)).collect(); Some(*rng.pick(&c)) } else { None }
                } else if w.crashed[leader] { None } else {
                    w.nodes[leader].as_ref().and_then(|nd| { let mut p: Vec<(u64, usize)> = nd.pool.parents_ready(Slot::new(win * W)).iter().map(|(s, h)| (s.inner(), keys.hash_id[h])).collect(); p.sort(); p.first().copied() })
                };
                let Some((mut ps, mut ph)) = parent else { continue };
                w.produced_windows.insert(win);
                for s in first..(win + 1) * W {
                    let copies = if w.byz[leader] && rng.chance(1, 2) { 2 } else { 1 };
                    // a Byzantine leader may also build a later slot of its window on any older block (chain that jumps slots)
                    if w.byz[leader] && s > first && rng.chance(1, 3) {
                        let c: Vec<(u64, usize)> = w.blocks.iter().filter(|(_, b)| b.0 < s).map(|(h, b)| (b.0, *h)).collect();
                        if !c.is_empty() { let (a, b) = *rng.pick(&c); ps = a; ph = b; }
                    }
                    let mut firsth = 0;
                    // the two blocks of an equivocating leader are members of one hash group: they differ in a single byte (`advhash`)
                    if copies == 2 && (w.next_hash - 1) % advhash::GROUP as usize == advhash::GROUP as usize - 1 { w.next_hash += 1; }
                    for c in 0..copies {
                        // the second block of an equivocating leader may extend another older block than the first one does
                        // (siblings with different parents: what a node registers late must not decide anything, C01-6 / C01-13)
                        // (own random stream `srng`: the schedules of the main stream stay what they were)
                        let (cps, cph) = if c == 1 && srng.chance(1, 3) {
                            let alt: Vec<(u64, usize)> = w.blocks.iter().filter(|(_, b)| b.0 < s).map(|(h, b)| (b.0, *h)).collect();
                            *srng.pick(&alt)
                        } else { (ps, ph) };
                        let h = w.new_block(s, cps, cph);
                        if c == 0 { firsth = h; }
                        for dest in 0..n {
                            if w.nodes[dest].is_none() { continue; }
                            // equivocating leader shows different blocks to different nodes
                            if copies == 2 && (dest % 2 == c) && rng.chance(3, 4) { continue; }
                            if rng.chance(loss / 2, 100) { continue; }
                            pending_blocks.push((dest, h));
                        }
                    }
                    ps = s; ph = firsth;
                }
            }
            // ---- forged certificates (own random stream `frng`; a refused certificate changes nothing, so the schedule the main
            //      stream explores is what it was without this step): signed by Byzantine validators only, declaring a stake
            //      that would meet the threshold
            if frng.chance(1, 20) {
                let bz: Vec<usize> = (0..n).filter(|v| w.byz[*v]).collect();
                let hs: Vec<usize> = w.blocks.keys().copied().filter(|h| *h != 0).collect();
                let dests: Vec<usize> = (0..n).filter(|d| w.nodes[*d].is_some() && !w.crashed[*d]).collect();
                if !bz.is_empty() && !hs.is_empty() && !dests.is_empty() {
                    let rng = &mut frng;
                    let h = *rng.pick(&hs);
                    let s = w.blocks[&h].0;
                    let ck = *rng.pick(&[CK::Notar, CK::Nf, CK::Skip, CK::Ff, CK::Final]);
                    let mut a: Vec<usize> = bz.iter().copied().filter(|_| rng.chance(2, 3)).collect();
                    let mut b: Vec<usize> = if matches!(ck, CK::Nf | CK::Skip) { bz.iter().copied().filter(|_| rng.chance(1, 2)).collect() } else { vec![] };
                    if a.is_empty() && (b.is_empty() || rng.chance(1, 2)) { a.push(*rng.pick(&bz)); }
                    if matches!(ck, CK::Nf | CK::Skip) && rng.chance(1, 6) { b.append(&mut a); b.sort(); b.dedup(); }
                    let need = |num: u64| (w.total * num).div_ceil(5);
                    let claim = *rng.pick(&[w.total, need(3), need(4), u64::MAX, w.total - 1]);
                    let j = *rng.pick(&dests);
                    w.inject_forged(j, ck, s, if ck.has_hash() { h } else { 0 }, &a, &b, claim);
                }
            }
            // ---- choose an action
            let busy: Vec<usize> = (0..n).filter(|j| w.nodes[*j].as_ref().is_some_and(|nd| !nd.dead && !nd.queue.is_empty() && !w.crashed[*j])).collect();
            let r = rng.below(100);
            if r < 35 && !busy.is_empty() {
                let j = *rng.pick(&busy);
                w.pump(j, &mut rng, loss);
            } else if r < 75 && !w.inflight.is_empty() {
                // reordering: any in-flight message; mostly the oldest ones
                let idx = if rng.chance(2, 3) { rng.below((w.inflight.len() as u64).min(6)) as usize } else { rng.below(w.inflight.len() as u64) as usize };
                let (dest, m) = w.inflight.remove(idx);
                if !w.crashed[dest] { w.deliver(dest, &m); }
            } else if r < 85 && !pending_blocks.is_empty() {
                let idx = rng.below((pending_blocks.len() as u64).min(8)) as usize;
                let (dest, h) = pending_blocks.remove(idx);
                if !w.crashed[dest] {
                    if rng.chance(1, 2) { w.block_to_votor(dest, h, &mut rng, loss); w.block_to_pool(dest, h); } else { w.block_to_pool(dest, h); w.block_to_votor(dest, h, &mut rng, loss); }
                }
            } else if r < 92 && (!timed || rng.chance(1, 3)) {
                // Byzantine injection: arbitrary (equivocating) votes to selected recipients
                let bz: Vec<usize> = (0..n).filter(|v| w.byz[*v]).collect();
                if !bz.is_empty() && !w.blocks.is_empty() {
                    let v = *rng.pick(&bz);
                    let hs: Vec<usize> = w.blocks.keys().copied().filter(|h| *h != 0).collect();
                    if !hs.is_empty() {
                        let h = *rng.pick(&hs);
                        let s = w.blocks[&h].0;
                        let k = *rng.pick(&K::all());
                        let hv = match k { K::Notar => HV::Notar(s, h), K::Nf => HV::Nf(s, h), K::Skip => HV::Skip(s), K::Sf => HV::Sf(s), K::Final => HV::Fin(s) };
                        if !w.history[v].contains(&hv) { w.history[v].push(hv); }
                        for dest in 0..n { if w.nodes[dest].is_some() && rng.chance(2, 3) { w.inflight.push((dest, Msg::Vote(k, s, if k.has_hash() { h } else { 0 }, v))); } }
                    }
                }
            } else {
                // timeouts (adversarial timing before stabilisation; in timed mode only when nothing else is pending)
                // "quiet": nothing a correct participant sent is still under way (Byzantine noise does not stop clocks)
                let honest_inflight = w.inflight.iter().any(|(_, m)| match m { Msg::Vote(_, _, _, signer) => !w.byz[*signer], Msg::Cert(_) => true });
                let quiet = !honest_inflight && busy.is_empty() && pending_blocks.is_empty();
                let fire = match shape { "timeouts" => true, "timed" => quiet, _ => quiet || rng.chance(1, 10) };
                if fire {
                    let live: Vec<usize> = (0..n).filter(|j| w.nodes[*j].as_ref().is_some_and(|nd| !nd.dead) && !w.crashed[*j]).collect();
                    if !live.is_empty() {
                        // timed mode: every (node, slot) timer comes due in turn (fair: an idle network lets *all* timers
                        // expire, not a random few — a random choice can starve one node's timer until the step budget ends)
                        timer_rr += 1;
                        let j = if timed { live[timer_rr % live.len()] } else { *rng.pick(&live) };
                        let fin = w.nodes[j].as_ref().expect("node").pool.finalized_slot().inner();
                        let s = if timed { fin + 1 + ((timer_rr / live.len()) as u64) % (2 * W) } else { fin + 1 + rng.below(2 * W) };
                        let crashed_leader = rng.chance(1, 3);
                        let op = if crashed_leader { format!("tc {j} {s}") } else { format!("to {j} {s}") };
                        w.votor_event(j, op, &mut rng, loss, |v, rt| rt.block_on(v.verif_timeout(Slot::new(s), crashed_leader)));
                    }
                }
            }
            // let timer tasks settle under the paused clock from time to time
            if step % 64 == 0 { w.rt.block_on(async { tokio::time::sleep(Duration::from_secs(1)).await }); for j in 0..n { if let Some(nd) = w.nodes[j].as_mut() { let _ = nd.votor.verif_drain_timeouts(); } } }
        }
        // ---- end of case: agreement oracles
        let mut fin_by_slot: BTreeMap<u64, BTreeSet<usize>> = BTreeMap::new();
        let mut highest: Vec<u64> = Vec::new();
        for j in 0..n {
            let Some(nd) = w.nodes[j].as_ref() else { continue };
            if nd.dead { continue; }
            highest.push(nd.pool.finalized_slot().inner());
            for (finalized, implicit, _skipped) in nd.pool.verif_finalization_log() {
                for (s, h) in finalized.into_iter().chain(implicit.into_iter()) { fin_by_slot.entry(s.inner()).or_default().insert(keys.hash_id[&h]); }
            }
            // no slot both finalized and skip-certified (at this node)
            for s in nd.pool.verif_retained_slots() {
                let certs = nd.pool.verif_certs(s);
                let finalized_here = certs.iter().any(|c| matches!(c, Cert::FastFinal(_))) || (certs.iter().any(|c| matches!(c, Cert::Final(_))) && certs.iter().any(|c| matches!(c, Cert::Notar(_))));
                let skipped = certs.iter().any(|c| matches!(c, Cert::Skip(_)));
                w.rec.oracle(!(finalized_here && skipped), "finalized-and-skip-certified", || format!("node {j} holds both a finalization and a skip certificate for slot {}", s.inner()));
            }
        }
        for (s, hs) in &fin_by_slot {
            w.rec.oracle(hs.len() <= 1, "conflicting-finalization", || format!("slot {s} finalized with different blocks {hs:?} at different correct nodes"));
        }
        // all finalized blocks on one chain
        let fins: Vec<(u64, usize)> = fin_by_slot.iter().filter_map(|(s, hs)| hs.iter().next().map(|h| (*s, *h))).collect();
        let anc = |mut x: usize, target: usize| -> bool { loop { if x == target { return true; } if x == 0 { return false; } x = w.blocks[&x].2; } };
        for i in 0..fins.len() { for j2 in i + 1..fins.len() { let (a, b) = (fins[i].1, fins[j2].1); w.rec.oracle(anc(b, a), "finalized-not-one-chain", || format!("finalized blocks {:?} and {:?} are not on one chain", fins[i], fins[j2])); } }
        let hi = highest.iter().copied().max().unwrap_or(0);
        let lo = highest.iter().copied().min().unwrap_or(0);
        *progress_stats.entry(format!("{shape}:max_finalized_sum")).or_default() += hi;
        *progress_stats.entry(format!("{shape}:min_finalized_sum")).or_default() += lo;
        *progress_stats.entry(format!("{shape}:cases")).or_default() += 1;
        if timed {
            // after stabilisation (no loss, no crash beyond the Byzantine set, timeouts only when idle) every correct node finalizes
            // progress = the node finalized past the first window, or (faulty leaders) its windows keep being decided:
            // a parent is ready for the third or a later window
            let mut stuck = Vec::new();
            for j in 0..n {
                let Some(nd) = w.nodes[j].as_ref() else { continue };
                if nd.dead { continue; }
                let f = nd.pool.finalized_slot().inner();
                let windows_on = (2..8).any(|k| !nd.pool.parents_ready(Slot::new(k * W)).is_empty());
                if !(f >= 2 * W || windows_on) { stuck.push((j, f)); }
            }
            w.rec.oracle(stuck.is_empty(), "no-progress-when-timely", || format!("timed run: nodes {stuck:?} (node, finalized slot) neither finalized past the second window nor have a ready parent for a later window; finalized per node {highest:?}"));
        }
        w.rec.count(&format!("finalized-max:{}", hi.min(20)));
        let class = w.class ^ hi;
        w.rec.end_case(class, hi > 0);
        rec = w.rec;
    }
    let extra = serde_json::json!({ "progress": progress_stats });
    rec.finish(&args, extra);
}
