//! Probe (not a registered check): a correct leader's slice with many tiny transactions.
//! `wincode` preallocation is capped at MAX_DATA_PER_SLICE *bytes of memory* while a `Vec<Transaction>` needs
//! 24 bytes per element: more than 1365 transactions in a slice do not decode at a follower.
use ag_harness::*;
use alpenglow::consensus::{Blockstore, BlockstoreEvent, BlockstoreImpl};
use alpenglow::crypto::signature::SecretKey;
use alpenglow::shredder::{RegularShredder, Shredder};
use alpenglow::types::{Slice, SliceIndex, Slot};
use alpenglow::Transaction;

fn main() {
    let args = Args::parse();
    let mut rng = Rng::new(args.seed);
    let sk = SecretKey::new(&mut rng);
    let rt = tokio::runtime::Builder::new_current_thread().enable_all().build().unwrap();
    for n in [100usize, 1365, 1366, 2000, 4000] {
        let txs: Vec<Transaction> = (0..n).map(|_| Transaction(vec![])).collect();
        let data = wincode::serialize(&txs).unwrap();
        let si: SliceIndex = wincode::deserialize(&0u64.to_le_bytes()).unwrap();
        let parent = Some((Slot::new(3), wincode::deserialize(&[7u8; 32]).unwrap()));
        let slice = Slice { slot: Slot::new(4), slice_index: si, is_last: true, parent, data };
        let shreds = RegularShredder::default().shred(&slice, &sk).expect("fits");
        let (tx, mut rx) = tokio::sync::mpsc::channel(1024);
        let mut bs = BlockstoreImpl::new(tx);
        let mut outs = Vec::new();
        for s in shreds.iter().take(40) {
            let r = catch(|| rt.block_on(bs.add_shred_from_dissemination(s.clone())));
            outs.push(match r { Err(m) => format!("panic {m}"), Ok(Ok(Some(_))) => "block".into(), Ok(Ok(None)) => "ok".into(), Ok(Err(e)) => format!("{e:?}") });
        }
        let mut evs = Vec::new();
        while let Ok(e) = rx.try_recv() { evs.push(match e { BlockstoreEvent::InvalidBlock(_) => "InvalidBlock", BlockstoreEvent::Block { .. } => "Block", _ => "other" }); }
        println!("n={n} data={} bytes: last verdicts {:?} events {:?}", slice.data.len(), &outs[30..33.min(outs.len())], evs);
        // the leader's own fast path
        let (tx2, _rx2) = tokio::sync::mpsc::channel(1024);
        let mut own = BlockstoreImpl::new(tx2);
        let mut pb = wincode::serialize(&slice.parent).unwrap();
        pb.extend(wincode::serialize(&slice.data).unwrap());
        let payload = alpenglow::types::SlicePayload::try_from(pb.as_slice()).expect("payload");
        let arr = shreds.clone();
        let r = catch(|| rt.block_on(own.add_own_slice(payload, Box::new(arr))));
        println!("   leader fast path: {}", match r { Err(m) => format!("PANIC {m}"), Ok(x) => format!("{:?}", x.is_some()) });
    }
}
