//! C15 — Merkle proofs: correspondence with `AgModel.Merkle` + property oracle on the real code.
//!
//! ops (one per line):
//!   tree T d0 d1 ...           build tree T over leaf data ids           -> `h <height>`
//!   proof P T i                P := T.create_proof(i)                     -> `len <n>`
//!   set P j <ref> | trunc P n | push P <ref>     edit proof P             -> `len <n>`
//!   check d i <ref> P          check_proof(data d, i, root=<ref>, P)      -> `true|false`
//!   last  d i <ref> P          check_proof_last(...)                      -> `true|false`
//!   drop P k                   remove the first k elements of proof P    -> `len <n>`
//! leaf data ids >= 1_000_000 are 32-byte blobs interned by the harness (random digests / the bytes of an inner node
//! of a tree: to the model they are just further leaf ids, distinct from every node - collision freedom).
//! refs:  `R T` root of tree T, `Q T i l` element l of T.create_proof(i), `Z k` junk bytes (k < 1000: random bytes;
//! k >= 1000: bytes derived by the harness from a hash of the case, e.g. a root with the same mask XORed into two or
//! four of its 8-byte words - to the model just further junk, interned injectively on the 32 bytes).
use ag_harness::*;
use alpenglow::crypto::Hash;
use alpenglow::crypto::merkle::{DoubleMerkleProof, DoubleMerkleRoot, DoubleMerkleTree, PlainMerkleTree, SliceRoot};

const BLOB_BASE: u64 = 1_000_000;

fn plain_data(id: u64) -> Vec<u8> {
    if id == 0 { Vec::new() } else { format!("leaf-{id}-{}", "x".repeat((id % 7) as usize)).into_bytes() }
}

struct Ctx {
    rec: Recorder,
    trees: Vec<(PlainMerkleTree, Vec<u64>)>,
    proofs: Vec<Vec<Hash>>,
    junk: Vec<Hash>,
    /// EMPTY_ROOTS of the source
    empty: Vec<Hash>,
    class: u64,
    /// oracle-only section: operations are not written to the compared stream (the model's term representation of
    /// `EMPTY_ROOTS[31]` has 2^32 nodes; comparing such terms in the driver takes minutes)
    mute: bool,
    /// interned 32-byte leaf data (ids `BLOB_BASE + k`, k in order of first use within the case)
    blobs: Vec<Vec<u8>>,
    /// interned derived hashes (refs `Z (DERIVED_BASE + k)`), in order of first use within the case
    derived: Vec<Hash>,
}

const DERIVED_BASE: usize = 1000;

fn hbytes(h: &Hash) -> Vec<u8> {
    let b: &[u8] = h.as_ref();
    b.to_vec()
}

/// `bytes` with the same non-zero mask XORed into `nwords` distinct 8-byte words (same in-word positions): a change that a
/// comparison which folds word differences together (xor / sum of the words, a checksum of the bytes) does not see
fn word_xor(bytes: &[u8], nwords: usize, rng: &mut Rng) -> Vec<u8> {
    assert!(bytes.len() == 32 && (1..=4).contains(&nwords));
    let mut mask = [0u8; 8];
    match rng.below(4) {
        0 => mask[rng.below(8) as usize] = 1 << rng.below(8),
        1 => mask[rng.below(8) as usize] = 1 + rng.below(255) as u8,
        2 => { mask[rng.below(8) as usize] = 1 + rng.below(255) as u8; mask[rng.below(8) as usize] |= 1 << rng.below(8); }
        _ => { mask.copy_from_slice(&rng.bytes(8)); mask[0] |= 1; }
    }
    let mut ws = [0usize, 1, 2, 3];
    rng.shuffle(&mut ws);
    let mut out = bytes.to_vec();
    for &w in &ws[..nwords] {
        for (o, m) in mask.iter().enumerate() { out[8 * w + o] ^= m; }
    }
    out
}

/// the `EMPTY_ROOTS` table of `src/crypto/merkle.rs` (private constants), parsed from the working tree
fn empty_roots() -> Vec<Hash> {
    let repo = std::env::var("VERIF_REPO").unwrap_or_else(|_| format!("{}/../../repo", env!("CARGO_MANIFEST_DIR")));
    let src = std::fs::read_to_string(format!("{repo}/src/crypto/merkle.rs")).expect("merkle.rs");
    let start = src.find("const EMPTY_ROOTS").expect("EMPTY_ROOTS");
    let body = &src[start..start + src[start..].find("];").expect("end of table")];
    let mut out = Vec::new();
    let mut rest = body;
    while let Some(q) = rest.find('"') {
        let tail = &rest[q + 1..];
        let e = tail.find('"').expect("closing quote");
        let hexs = &tail[..e];
        if hexs.len() == 64 && hexs.chars().all(|c| c.is_ascii_hexdigit()) {
            let bytes: Vec<u8> = (0..32).map(|i| u8::from_str_radix(&hexs[2 * i..2 * i + 2], 16).unwrap()).collect();
            out.push(wincode::deserialize::<Hash>(&bytes).expect("hash"));
        }
        rest = &tail[e + 1..];
    }
    out
}

#[derive(Clone)]
enum Ref {
    R(usize),
    Q(usize, usize, usize),
    Z(usize),
    /// `EMPTY_ROOTS[k]` (read from the source file: the constants are not public)
    E(usize),
    /// `derive_root(data d, index i, proof P)`
    D(u64, u64, usize),
}

impl Ctx {
    fn data(&self, id: u64) -> Vec<u8> {
        if id >= BLOB_BASE { self.blobs[(id - BLOB_BASE) as usize].clone() } else { plain_data(id) }
    }
    /// leaf data id of the given 32 bytes (injective: equal bytes get the same id)
    fn blob(&mut self, bytes: &[u8]) -> u64 {
        assert_eq!(bytes.len(), 32);
        match self.blobs.iter().position(|b| b == bytes) {
            Some(k) => BLOB_BASE + k as u64,
            None => { self.blobs.push(bytes.to_vec()); BLOB_BASE + self.blobs.len() as u64 - 1 }
        }
    }
    fn reset(&mut self) {
        self.trees.clear();
        self.proofs.clear();
        self.blobs.clear();
        self.derived.clear();
        self.class = 0;
    }
    /// `==` of `Hash` is equality of the 32 bytes (the verifiers compare the derived root with the claimed one through it)
    fn hash_eq_is_bytewise(&mut self, a: &Hash, b: &Hash, how: &str) {
        let (ba, bb) = (hbytes(a), hbytes(b));
        let (eq, ne) = (a == b, a != b);
        self.rec.count("hash-eq-pairs");
        self.rec.oracle(eq == (ba == bb) && ne != eq, "hash-equality-not-bytewise", || format!("Hash a == b is {eq}, a != b is {ne}, but the bytes are {} ({how}): a = {}, b = {}", if ba == bb { "equal" } else { "different" }, hex(&ba), hex(&bb)));
    }
    /// ref of the hash with the given bytes as "junk" (`Z k`, k >= DERIVED_BASE; equal bytes get the same k)
    fn derived_ref(&mut self, bytes: &[u8]) -> Ref {
        let k = match self.derived.iter().position(|h| hbytes(h) == bytes) {
            Some(k) => k,
            None => { self.derived.push(wincode::deserialize::<Hash>(bytes).expect("32 bytes are a Hash")); self.derived.len() - 1 }
        };
        Ref::Z(DERIVED_BASE + k)
    }
    /// the hash `r` refers to with one mask XORed into `nwords` of its 8-byte words
    fn word_xor_ref(&mut self, r: &Ref, nwords: usize, rng: &mut Rng) -> Ref {
        let (_, h) = self.resolve(r, rng);
        let b = word_xor(&hbytes(&h), nwords, rng);
        let m: Hash = wincode::deserialize(&b).expect("32 bytes are a Hash");
        self.hash_eq_is_bytewise(&h, &m, &format!("same mask XORed into {nwords} words"));
        self.hash_eq_is_bytewise(&m, &m.clone(), "a hash and its clone");
        self.derived_ref(&b)
    }
    /// a 32-byte leaf with one mask XORed into `nwords` of its 8-byte words, as a further leaf
    fn word_xor_blob(&mut self, d: u64, nwords: usize, rng: &mut Rng) -> u64 {
        let b = word_xor(&self.data(d), nwords, rng);
        self.blob(&b)
    }
    /// value of the inner node `k` levels above leaf `i` of tree `t` (k = height: the root), as leaf data
    fn inner_node_blob(&mut self, t: usize, i: usize, k: usize) -> u64 {
        let d = self.data(self.trees[t].1[i]);
        let prefix: Vec<Hash> = self.trees[t].0.create_proof(i)[..k].to_vec();
        let node = PlainMerkleTree::derive_root(&d, i, &prefix);
        let bytes: &[u8] = node.as_ref();
        let bytes = bytes.to_vec();
        self.blob(&bytes)
    }
    /// the claim "the inner node k levels above leaf i is the (i >> k)-th leaf", with the top part of the proof of leaf i:
    /// must not verify, neither as a member nor as the last leaf (the tree would be reported 2^k times smaller)
    fn inner_node_claims(&mut self, t: usize, i: usize, k: usize, rng: &mut Rng) {
        let b = self.inner_node_blob(t, i, k);
        let p = self.proof(t, i);
        self.drop_first(p, k);
        self.check(false, b, (i >> k) as u64, &Ref::R(t), p, Some(false), "inner-node-as-leaf-rejected", rng);
        self.check(true, b, (i >> k) as u64, &Ref::R(t), p, Some(false), "inner-node-as-leaf-rejected", rng);
    }
    fn step(&mut self, op: &str, out: &str) {
        if !self.mute { self.rec.step(op, out); }
    }
    fn junk(&mut self, k: usize, rng: &mut Rng) -> Hash {
        while self.junk.len() <= k {
            let b = rng.bytes(32);
            let h: Hash = wincode::deserialize(&b).expect("32 bytes are a Hash");
            self.junk.push(h);
        }
        self.junk[k].clone()
    }
    fn resolve(&mut self, r: &Ref, rng: &mut Rng) -> (String, Hash) {
        match r {
            Ref::R(t) => (format!("R {t}"), self.trees[*t].0.get_root()),
            Ref::Q(t, i, l) => (format!("Q {t} {i} {l}"), self.trees[*t].0.create_proof(*i)[*l].clone()),
            Ref::Z(k) if *k >= DERIVED_BASE => (format!("Z {k}"), self.derived[*k - DERIVED_BASE].clone()),
            Ref::Z(k) => (format!("Z {k}"), self.junk(*k, rng)),
            Ref::E(k) => (format!("E {k}"), self.empty[*k].clone()),
            Ref::D(d, i, p) => (format!("D {d} {i} {p}"), PlainMerkleTree::derive_root(&self.data(*d), *i as usize, &self.proofs[*p].clone().into())),
        }
    }
    fn tree(&mut self, leaves: Vec<u64>) -> usize {
        let datas: Vec<Vec<u8>> = leaves.iter().map(|d| self.data(*d)).collect();
        let t = PlainMerkleTree::new(&datas);
        let id = self.trees.len();
        let ids = leaves.iter().map(|d| d.to_string()).collect::<Vec<_>>().join(" ");
        self.step(&format!("tree {id} {ids}"), &format!("h {}", t.height()));
        self.trees.push((t, leaves));
        id
    }
    fn proof(&mut self, t: usize, i: usize) -> usize {
        let p = self.trees[t].0.create_proof(i);
        let id = self.proofs.len();
        self.step(&format!("proof {id} {t} {i}"), &format!("len {}", p.len()));
        self.proofs.push(p);
        id
    }
    fn set(&mut self, p: usize, j: usize, r: &Ref, rng: &mut Rng) {
        let (s, h) = self.resolve(r, rng);
        self.proofs[p][j] = h;
        let n = self.proofs[p].len();
        self.step(&format!("set {p} {j} {s}"), &format!("len {n}"));
    }
    fn push(&mut self, p: usize, r: &Ref, rng: &mut Rng) {
        let (s, h) = self.resolve(r, rng);
        self.proofs[p].push(h);
        let n = self.proofs[p].len();
        self.step(&format!("push {p} {s}"), &format!("len {n}"));
    }
    fn trunc(&mut self, p: usize, n: usize) {
        self.proofs[p].truncate(n);
        let n = self.proofs[p].len();
        self.step(&format!("trunc {p} {n}"), &format!("len {n}"));
    }
    fn drop_first(&mut self, p: usize, k: usize) {
        let k = k.min(self.proofs[p].len());
        self.proofs[p].drain(..k);
        let n = self.proofs[p].len();
        self.step(&format!("drop {p} {k}"), &format!("len {n}"));
    }
    fn copy(&mut self, p: usize) -> usize {
        let id = self.proofs.len();
        let q = self.proofs[p].clone();
        self.step(&format!("copy {id} {p}"), &format!("len {}", q.len()));
        self.proofs.push(q);
        id
    }
    /// runs check (last = false) or check_last; `expect`: what the *property* demands, if known.
    fn check(&mut self, last: bool, d: u64, i: u64, root: &Ref, p: usize, expect: Option<bool>, why: &str, rng: &mut Rng) -> bool {
        let (s, r) = self.resolve(root, rng);
        let dat = self.data(d);
        let proof = self.proofs[p].clone();
        let res = catch(|| {
            if last {
                PlainMerkleTree::check_proof_last(&dat, i as usize, &r, &proof)
            } else {
                PlainMerkleTree::check_proof(&dat, i as usize, &r, &proof)
            }
        });
        let op = format!("{} {d} {i} {s} {p}", if last { "last" } else { "check" });
        let out = match &res {
            Ok(b) => b.to_string(),
            Err(_) => "panic".to_string(),
        };
        self.step(&op, &out);
        self.class = fnv(self.class, &format!("{}{}{}", last, why, out));
        let got = res.clone().unwrap_or(false);
        if dat.len() == 32 {
            // a 32-byte leaf is what the double-Merkle tree has (slice roots): the same claim through its types
            let leaf: SliceRoot = wincode::deserialize::<Hash>(&dat).expect("32 bytes are a Hash").into();
            let (dr, dp): (DoubleMerkleRoot, DoubleMerkleProof) = (r.clone().into(), proof.clone().into());
            let res2 = catch(|| if last { DoubleMerkleTree::check_proof_last(&leaf, i as usize, &dr, &dp) } else { DoubleMerkleTree::check_proof(&leaf, i as usize, &dr, &dp) });
            self.rec.count("double-merkle-tree-checks");
            self.rec.oracle(res2.is_ok(), "merkle-check-panics", || format!("{op} (DoubleMerkleTree): panicked"));
            if let Some(e) = expect {
                let got2 = res2.unwrap_or(false);
                self.rec.oracle(got2 == e, &format!("merkle-{}-{}", if last { "last" } else { "check" }, why), || format!("{op} through DoubleMerkleTree (leaf = the 32 bytes as a SliceRoot): got {got2}, property demands {e} ({why})"));
            }
        }
        self.rec.count(&format!("verdict:{}:{}", if last { "last" } else { "check" }, out));
        self.rec.oracle(res.is_ok(), "merkle-check-panics", || format!("{op}: panicked"));
        if let Some(e) = expect {
            self.rec.oracle(got == e, &format!("merkle-{}-{}", if last { "last" } else { "check" }, why), || {
                {
                    let lv: Vec<u64> = match root { Ref::R(t) => self.trees[*t].1.clone(), _ => vec![] };
                    let shown = if lv.len() > 24 { format!("{:?} ... ({} leaves)", &lv[..24], lv.len()) } else { format!("{lv:?}") };
                    format!("{op}: got {got}, property demands {e} ({why}); leaves of tree = {shown}")
                }
            });
        }
        got
    }
}

/// distinct non-zero leaf ids, optionally with empty (0) leaves at the given positions
fn leaves(n: usize, base: u64, empties: &[usize]) -> Vec<u64> {
    (0..n).map(|j| if empties.contains(&j) { 0 } else { base + j as u64 }).collect()
}

fn hex(b: &[u8]) -> String {
    b.iter().map(|x| format!("{x:02x}")).collect()
}

fn main() {
    let args = Args::parse();
    quiet_panics();
    let mut rng = Rng::new(args.seed);
    let mut cx = Ctx { rec: Recorder::new(), trees: vec![], proofs: vec![], junk: vec![], empty: empty_roots(), class: 0, mute: false, blobs: vec![], derived: vec![] };

    let sizes: Vec<usize> = if args.thorough {
        let mut v: Vec<usize> = (1..=1024).collect();
        for k in 11..=12 {
            v.extend([(1 << k) - 1, 1 << k, (1 << k) + 1]);
        }
        // a few large trees (node counts / offsets past 2^15, 2^16, 2^17); each costs ~1 MB of operation text
        v.extend([32769, 65535, 65537, 131073]);
        v
    } else {
        let mut v: Vec<usize> = (1..=40).collect();
        v.extend([63, 64, 65, 127, 128, 129, 255, 257, 1000, 1023, 1024, 1025]);
        // one large tree: past every 8- and 16-bit boundary of node counts / offsets (2n nodes in total)
        v.push(*rng.pick(&[32769usize, 40000, 65535, 65536, 65537]));
        v
    };

    for &n in &sizes {
        // ---- case A: all honest proofs of one tree verify; last-variant exactly for the last leaf
        cx.reset();
        cx.rec.begin_case("honest");
        let t = cx.tree(leaves(n, 100, &[]));
        let h = cx.trees[t].0.height();
        let idxs: Vec<usize> = if n <= 70 || args.thorough { (0..n).collect() } else { let mut v: Vec<usize> = (0..12).map(|_| rng.below(n as u64) as usize).collect(); v.extend([0, n - 1, n / 2]); v };
        for &i in &idxs {
            let p = cx.proof(t, i);
            let d = cx.trees[t].1[i];
            cx.check(false, d, i as u64, &Ref::R(t), p, Some(true), "created-proof-verifies", &mut rng);
            cx.check(true, d, i as u64, &Ref::R(t), p, Some(i == n - 1), "last-iff-no-leaf-to-the-right", &mut rng);
        }
        cx.rec.end_case(cx.class ^ (h as u64) << 32 ^ n as u64, true);

        // ---- case B: claimed indices: other positions, beyond the width, aliases i + k*2^h
        cx.reset();
        cx.rec.begin_case("claimed-index");
        let t = cx.tree(leaves(n, 1000, &[]));
        let reps = if args.thorough { 6 } else { 3 };
        for _ in 0..reps {
            let i = rng.below(n as u64) as usize;
            let p = cx.proof(t, i);
            let d = cx.trees[t].1[i];
            let w = 1u64 << h;
            let mut claimed = vec![i as u64 + w, i as u64 + w * rng.range(2, 9), i as u64 + (w << rng.range(1, 12)), rng.below(1 << 20), rng.below(1 << 40), (i as u64) ^ 1, w, w - 1];
            if args.thorough {
                for _ in 0..6 {
                    claimed.push(rng.below(1 << 20));
                    claimed.push(i as u64 + w * rng.below(1 << 12));
                }
            }
            for c in claimed {
                let exp = c == i as u64;
                cx.check(false, d, c, &Ref::R(t), p, Some(exp), "wrong-index-rejected", &mut rng);
                // leaf i is the last leaf only if i == n-1
                cx.check(true, d, c, &Ref::R(t), p, Some(exp && i == n - 1), "wrong-index-rejected", &mut rng);
            }
        }
        cx.rec.end_case(cx.class ^ n as u64, true);

        // ---- case C: corruptions of a valid proof: element, length, leaf, root
        cx.reset();
        cx.rec.begin_case("corruption");
        let t = cx.tree(leaves(n, 5000, &[]));
        let t2 = cx.tree(leaves(n.max(2) + rng.below(5) as usize, 9000, &[]));
        let reps = if args.thorough { 4 } else { 2 };
        for _ in 0..reps {
            let i = rng.below(n as u64) as usize;
            let d = cx.trees[t].1[i];
            let p0 = cx.proof(t, i);
            // wrong leaf, wrong root
            cx.check(false, d + 1, i as u64, &Ref::R(t), p0, Some(false), "wrong-leaf-rejected", &mut rng);
            cx.check(false, 0, i as u64, &Ref::R(t), p0, Some(false), "wrong-leaf-rejected", &mut rng);
            cx.check(false, d, i as u64, &Ref::R(t2), p0, Some(false), "wrong-root-rejected", &mut rng);
            cx.check(false, d, i as u64, &Ref::Z(rng.below(4) as usize), p0, Some(false), "wrong-root-rejected", &mut rng);
            // the root (and below: proof elements) changed in 2 / 4 (and 1 / 3) of its 8-byte words by the same mask
            let plast = if i == n - 1 { p0 } else { cx.proof(t, n - 1) };
            let dlast = cx.trees[t].1[n - 1];
            for nw in [2usize, 4, 2, 1 + rng.below(4) as usize] {
                let r = cx.word_xor_ref(&Ref::R(t), nw, &mut rng);
                cx.check(false, d, i as u64, &r, p0, Some(false), "word-xor-root-rejected", &mut rng);
                cx.check(true, dlast, n as u64 - 1, &r, plast, Some(false), "word-xor-root-rejected", &mut rng);
            }
            let len = cx.proofs[p0].len();
            for nw in [2usize, 4] {
                if len == 0 { break; }
                let j = rng.below(len as u64) as usize;
                let r = cx.word_xor_ref(&Ref::Q(t, i, j), nw, &mut rng);
                let p = cx.copy(p0);
                cx.set(p, j, &r, &mut rng);
                cx.check(false, d, i as u64, &Ref::R(t), p, Some(false), "word-xor-element-rejected", &mut rng);
                cx.check(true, d, i as u64, &Ref::R(t), p, Some(false), "word-xor-element-rejected", &mut rng);
            }
            // every single element replaced
            let els: Vec<usize> = if len <= 6 || args.thorough { (0..len).collect() } else { vec![0, len / 2, len - 1] };
            for j in els {
                let p = cx.copy(p0);
                let n2 = cx.trees[t2].1.len();
                let i2 = rng.below(n2 as u64) as usize;
                let l2 = rng.below(cx.trees[t2].0.height() as u64) as usize;
                let r = match rng.below(3) { 0 => Ref::Z(rng.below(4) as usize), 1 => Ref::Q(t2, i2, l2), _ => Ref::R(t2) };
                cx.set(p, j, &r, &mut rng);
                // the replacement may be the very same hash (two trees share their empty-subtree roots): then the
                // proof is unchanged and must of course still verify — only the model comparison applies
                let changed = hbytes(&cx.proofs[p][j]) != hbytes(&cx.proofs[p0][j]);
                { let (a, b) = (cx.proofs[p][j].clone(), cx.proofs[p0][j].clone()); cx.hash_eq_is_bytewise(&a, &b, "replaced proof element"); }
                if !changed { cx.rec.count("corruption:replacement-identical"); }
                let exp = if changed { Some(false) } else { None };
                cx.check(false, d, i as u64, &Ref::R(t), p, exp, "corrupt-element-rejected", &mut rng);
                cx.check(true, d, i as u64, &Ref::R(t), p, exp, "corrupt-element-rejected", &mut rng);
            }
            // shortened / lengthened
            for newlen in [0usize, len.saturating_sub(1), len / 2] {
                if newlen == len { continue; }
                let p = cx.copy(p0);
                cx.trunc(p, newlen);
                cx.check(false, d, i as u64, &Ref::R(t), p, Some(false), "wrong-length-rejected", &mut rng);
                cx.check(true, d, i as u64, &Ref::R(t), p, Some(false), "wrong-length-rejected", &mut rng);
            }
            let p = cx.copy(p0);
            let extra = [1usize, 2, 33usize.saturating_sub(len), 34usize.saturating_sub(len)];
            let mut pushed = 0;
            for target in extra {
                while pushed < target {
                    let r = if rng.chance(1, 2) { Ref::Z(rng.below(4) as usize) } else { Ref::R(t) };
                    cx.push(p, &r, &mut rng);
                    pushed += 1;
                }
                cx.check(false, d, i as u64, &Ref::R(t), p, Some(false), "wrong-length-rejected", &mut rng);
                cx.check(true, d, i as u64, &Ref::R(t), p, Some(false), "wrong-length-rejected", &mut rng);
            }
            // shortened from below: the inner node k levels above the leaf offered as the leaf at index i >> k
            // (leaf / inner-node domain separation; the 32 bytes of the node are the leaf data)
            let ht = cx.trees[t].0.height();
            let mut ks = vec![1usize, ht, 1 + rng.below(ht.max(1) as u64) as usize];
            ks.sort();
            ks.dedup();
            for k in ks {
                if k <= ht {
                    cx.inner_node_claims(t, i, k, &mut rng);
                    // for the last leaf too (the last-leaf variant then walks left siblings only when n = 2^h)
                    if i != n - 1 { cx.inner_node_claims(t, n - 1, k, &mut rng); }
                }
            }
        }
        cx.rec.end_case(cx.class ^ n as u64, true);

        // ---- case D: trailing empty leaves (the last variant must look through them)
        if n >= 2 {
            cx.reset();
            cx.rec.begin_case("empty-leaves");
            let k = 1 + rng.below((n as u64 - 1).min(4)) as usize;
            let mut emp: Vec<usize> = (n - k..n).collect();
            if rng.chance(1, 2) && n > k + 1 { emp.push(rng.below((n - k) as u64) as usize); }
            let lv = leaves(n, 20000, &emp);
            let t = cx.tree(lv.clone());
            for i in 0..n.min(70) {
                let i = if n > 70 { n - 1 - i } else { i };
                let p = cx.proof(t, i);
                let right_empty = lv[i + 1..].iter().all(|&x| x == 0);
                cx.check(false, lv[i], i as u64, &Ref::R(t), p, Some(true), "created-proof-verifies", &mut rng);
                cx.check(true, lv[i], i as u64, &Ref::R(t), p, Some(right_empty), "last-iff-no-leaf-to-the-right", &mut rng);
            }
            cx.rec.end_case(cx.class ^ n as u64, true);
        }
    }
    // ---- case F: trees whose leaves are 32-byte digests, as the double-Merkle tree's are (slice roots): honest proofs,
    // and every "inner node as a leaf" claim: leaf := value of the inner node k levels above leaf i, index := i >> k,
    // proof := proof[k..] (k = height: the root itself with the empty proof). None may verify; through the last-leaf
    // variant the tree would be reported as having (n-1 >> k) + 1 leaves. Every 32-byte-leaf verification is run through
    // PlainMerkleTree (compared with the model) and through DoubleMerkleTree's own types (oracle only).
    let digest_sizes: Vec<usize> = if args.thorough {
        let mut v: Vec<usize> = (1..=130).collect();
        v.extend([255, 256, 257, 511, 512, 1000, 1023, 1024]);
        v
    } else {
        let mut v: Vec<usize> = (1..=18).collect();
        v.extend([31, 32, 33, 63, 64, 65, 100, 128, 256, 1024]);
        v.push(rng.range(19, 1023) as usize);
        v
    };
    for &n in &digest_sizes {
        cx.reset();
        cx.rec.begin_case("digest-leaves");
        let mut lv = vec![];
        for _ in 0..n {
            let b = rng.bytes(32);
            lv.push(cx.blob(&b));
        }
        let t = cx.tree(lv.clone());
        let h = cx.trees[t].0.height();
        let mut idxs: Vec<usize> = if n <= 9 || (args.thorough && n <= 40) { (0..n).collect() } else { let mut v: Vec<usize> = (0..3).map(|_| rng.below(n as u64) as usize).collect(); v.extend([0, n - 1, n / 2, n.next_power_of_two() / 2 - 1]); v };
        idxs.sort();
        idxs.dedup();
        for &i in &idxs {
            let p = cx.proof(t, i);
            cx.check(false, lv[i], i as u64, &Ref::R(t), p, Some(true), "created-proof-verifies", &mut rng);
            cx.check(true, lv[i], i as u64, &Ref::R(t), p, Some(i == n - 1), "last-iff-no-leaf-to-the-right", &mut rng);
            for k in 1..=h {
                cx.inner_node_claims(t, i, k, &mut rng);
            }
        }
        // a digest leaf of this tree under the wrong index / another digest under the right one
        if n >= 2 {
            let i = rng.below(n as u64) as usize;
            let p = cx.proof(t, i);
            let j = (i + 1 + rng.below(n as u64 - 1) as usize) % n;
            cx.check(false, lv[j], i as u64, &Ref::R(t), p, Some(false), "wrong-leaf-rejected", &mut rng);
            cx.check(false, lv[i], j as u64, &Ref::R(t), p, Some(false), "wrong-index-rejected", &mut rng);
        }
        // 32-byte leaf / root / proof element with the same mask XORed into 2 or 4 of the 8-byte words (through
        // DoubleMerkleTree as well: its leaves are hashes themselves)
        {
            let ri = rng.below(n as u64) as usize;
            let i = *rng.pick(&[0, n - 1, ri]);
            let p = cx.proof(t, i);
            for nw in [2usize, 4, 1 + rng.below(4) as usize] {
                let lx = cx.word_xor_blob(lv[i], nw, &mut rng);
                cx.check(false, lx, i as u64, &Ref::R(t), p, Some(false), "word-xor-leaf-rejected", &mut rng);
                cx.check(true, lx, i as u64, &Ref::R(t), p, Some(false), "word-xor-leaf-rejected", &mut rng);
                let r = cx.word_xor_ref(&Ref::R(t), nw, &mut rng);
                cx.check(false, lv[i], i as u64, &r, p, Some(false), "word-xor-root-rejected", &mut rng);
                cx.check(true, lv[i], i as u64, &r, p, Some(false), "word-xor-root-rejected", &mut rng);
                if h > 0 {
                    let j = rng.below(h as u64) as usize;
                    let r = cx.word_xor_ref(&Ref::Q(t, i, j), nw, &mut rng);
                    let q = cx.copy(p);
                    cx.set(q, j, &r, &mut rng);
                    cx.check(false, lv[i], i as u64, &Ref::R(t), q, Some(false), "word-xor-element-rejected", &mut rng);
                    cx.check(true, lv[i], i as u64, &Ref::R(t), q, Some(false), "word-xor-element-rejected", &mut rng);
                }
            }
        }
        cx.rec.end_case(cx.class ^ n as u64 ^ 0xd16e << 40, true);
    }
    // ---- case E: a proof of the maximal height. The last leaf of a small tree, its proof continued with empty right
    // siblings up to 32 entries, is a valid (last-leaf) proof under the root it derives; one entry more must be refused
    // even though the first 32 entries are a valid proof
    for n in [1usize, 2, 3, 5, 8, 13] {
        cx.reset();
        cx.rec.begin_case("maximal-height");
        cx.step(&format!("tree 0 {}", n), &format!("h 0")); // placeholder line so that the case is not empty in the stream
        cx.mute = true;
        let lv = leaves(n, 30000, &[]);
        let t = cx.tree(lv.clone());
        let i = n - 1;
        let p = cx.proof(t, i);
        let h = cx.proofs[p].len();
        for k in h..32 {
            cx.push(p, &Ref::E(k), &mut rng);
        }
        let root = Ref::D(lv[i], i as u64, p);
        cx.check(false, lv[i], i as u64, &root, p, Some(true), "maximal-height-proof-verifies", &mut rng);
        cx.check(true, lv[i], i as u64, &root, p, Some(true), "maximal-height-proof-verifies", &mut rng);
        let q = cx.copy(p);
        let extra = if rng.chance(1, 2) { Ref::Z(rng.below(4) as usize) } else { Ref::E(rng.below(32) as usize) };
        cx.push(q, &extra, &mut rng);
        let root33 = Ref::D(lv[i], i as u64, p);
        cx.check(false, lv[i], i as u64, &root33, q, Some(false), "lengthened-proof-rejected", &mut rng);
        cx.check(true, lv[i], i as u64, &root33, q, Some(false), "lengthened-proof-rejected", &mut rng);
        cx.push(q, &Ref::Z(0), &mut rng);
        cx.check(true, lv[i], i as u64, &root33, q, Some(false), "lengthened-proof-rejected", &mut rng);
        cx.mute = false;
        cx.rec.end_case(cx.class ^ n as u64, true);
    }
    let extra = serde_json::json!({ "sizes": sizes.len(), "max_size": sizes.iter().max() });
    cx.rec.finish(&args, extra);
}
