//! C10 — no network input or Byzantine-signed content can crash or wedge a node.
//!
//! Real-time run of full `Alpenglow` nodes over UDP on localhost (as `create_test_nodes` builds them) while a
//! hostile sender puts traffic on all five interfaces of every node: random bytes, truncations and bit flips of
//! well-formed messages, semantically hostile but well-formed votes / certificates / repair messages /
//! transactions, and — with the key of one validator (< 20 % stake) the harness owns — validly *signed* hostile
//! block content in the windows it leads (parent in the future, no parent, undecodable data, oversize
//! transactions, equivocating slices, contradictory last-slice flags, malformed padding).
//! Oracle: no task panics (process-wide panic hook), every node keeps finalizing during and after the attack.
//! This part is exploration (level `other`): the derive-generated decoders, tokio glue and third-party crates are
//! outside the Lean models.
use std::net::UdpSocket;
use std::sync::{Arc, Mutex};
use std::time::{Duration, Instant};

use ag_harness::*;
use alpenglow::all2all::TrivialAll2All;
use alpenglow::consensus::{Alpenglow, ConsensusMessage, EpochInfo, ValidatorEpochInfo, Vote};
use alpenglow::crypto::merkle::BlockHash;
use alpenglow::crypto::{Hash, aggsig, signature};
use alpenglow::disseminator::Rotor;
use alpenglow::network::{Network, NetworkMessageConfig, UdpNetwork, localhost_ip_sockaddr};
use alpenglow::repair::{RepairRequest, RepairRequestType, RepairResponse};
use alpenglow::shredder::{RegularShredder, Shred, Shredder};
use alpenglow::types::{Slice, SliceIndex, Slot};
use alpenglow::{BlockId, Stake, Transaction, ValidatorIndex, ValidatorInfo};

static PANICS: Mutex<Vec<String>> = Mutex::new(Vec::new());

fn rand_hash(rng: &mut Rng) -> BlockHash {
    let h: Hash = wincode::deserialize(&rng.bytes(32)).expect("hash");
    h.into()
}

/// `SliceIndex` has no public constructor: go through its wire format (u64, little endian, range-checked)
fn si(i: usize) -> SliceIndex {
    wincode::deserialize(&(i as u64).to_le_bytes()).expect("slice index < 1024")
}

fn mutate(rng: &mut Rng, mut b: Vec<u8>) -> Vec<u8> {
    if b.is_empty() { return b; }
    match rng.below(5) {
        0 => { let i = rng.below(b.len() as u64) as usize; b[i] ^= 1 << rng.below(8); }
        1 => { let n = rng.below(b.len() as u64) as usize; b.truncate(n); }
        2 => { let n = rng.range(1, 16) as usize; b.extend(rng.bytes(n)); }
        3 => { let i = rng.below(b.len() as u64) as usize; let n = (b.len() - i).min(8); let r = rng.bytes(n); b[i..i + n].copy_from_slice(&r); }
        _ => { let i = rng.below(b.len() as u64) as usize; b[i] = 0xff; }
    }
    b.truncate(1500);
    b
}

/// drop counter of the UDP socket bound to `port` (last column of /proc/net/udp); `None` where that is unavailable
fn udp_drops(port: u16) -> Option<u64> {
    let text = std::fs::read_to_string("/proc/net/udp").ok()?;
    for line in text.lines().skip(1) {
        let w: Vec<&str> = line.split_whitespace().collect();
        let local_port = w.get(1).and_then(|a| a.rsplit(':').next()).and_then(|p| u16::from_str_radix(p, 16).ok());
        if local_port == Some(port) {
            return w.last().and_then(|d| d.parse().ok());
        }
    }
    None
}

/// Receive path under hostile traffic: a burst of valid datagrams with malformed ones in between (truncated, with
/// trailing bytes, random bytes, empty) sits in the socket buffer *before* the receiver polls; then the receiver
/// reads.  "Hostile input is dropped ... and the node keeps [serving]": exactly the valid messages are delivered,
/// in the order sent.  Nothing is assumed about how the kernel batches; loopback, small datagrams, a burst far
/// below the socket buffer, generous timeouts; a round in which the kernel counted a drop for the socket is not judged.
/// `make(seq)` = wire bytes of valid message number `seq`, `ident` = the number of a delivered message.
fn udp_burst<R>(rt: &tokio::runtime::Runtime, rec: &mut Recorder, rng: &mut Rng, what: &str, rounds: usize, make: &mut dyn FnMut(u32, &mut Rng) -> Vec<u8>, ident: &dyn Fn(&R) -> Option<u32>)
where
    R: for<'de> wincode::SchemaRead<'de, NetworkMessageConfig, Dst = R> + Send + Sync,
    UdpNetwork<R, R>: Network<Recv = R>,
{
    let net: UdpNetwork<R, R> = { let _g = rt.enter(); UdpNetwork::new_with_any_port() };
    let sock = UdpSocket::bind("127.0.0.1:0").expect("bind");
    let to = localhost_ip_sockaddr(net.port());
    let mut seq = 0u32;
    for round in 0..rounds {
        // true = valid
        let shape = round % 6;
        let mut plan: Vec<bool> = Vec::new();
        match shape {
            0 => { plan.push(false); plan.extend(std::iter::repeat_n(true, rng.range(2, 40) as usize)); }            // garbage first
            1 => { for _ in 0..rng.range(2, 45) { plan.push(false); plan.push(true); } }                          // alternating
            2 => { for _ in 0..rng.range(10, 90) { plan.push(!rng.chance(1, 4)); } }                              // scattered
            3 => { while plan.len() < 70 { plan.extend(std::iter::repeat_n(true, rng.range(1, 10) as usize)); plan.extend(std::iter::repeat_n(false, rng.range(1, 5) as usize)); } plan.push(true); } // runs
            4 => { plan.extend(std::iter::repeat_n(true, rng.range(1, 33) as usize)); plan.push(false); plan.extend(std::iter::repeat_n(true, rng.range(1, 33) as usize)); } // one in the middle
            _ => { plan.extend(std::iter::repeat_n(true, rng.range(1, 60) as usize)); plan.push(false); }          // garbage last (control)
        }
        let mut want: Vec<u32> = Vec::new();
        let mut wire: Vec<Vec<u8>> = Vec::new();
        let mut kinds = [0usize; 4];
        for &valid in &plan {
            seq += 1;
            let good = make(seq, rng);
            debug_assert!(alpenglow::network::deserialize::<R>(&good).is_ok());
            if valid {
                want.push(seq);
                wire.push(good);
            } else {
                let k = rng.below(4) as usize;
                let mut bad = match k {
                    0 => { let mut b = good.clone(); let cut = rng.range(1, 4) as usize; b.truncate(b.len().saturating_sub(cut)); b }
                    1 => { let mut b = good.clone(); let n_ = rng.range(1, 9) as usize; b.extend(rng.bytes(n_)); b }
                    2 => { let n_ = rng.range(1, 40) as usize; rng.bytes(n_) }
                    _ => Vec::new(),
                };
                // only datagrams the decoder certainly refuses count as malformed
                if alpenglow::network::deserialize::<R>(&bad).is_ok() { bad = good[..good.len() - 1].to_vec(); }
                kinds[k] += 1;
                wire.push(bad);
            }
        }
        let d0 = udp_drops(net.port());
        for b in &wire { let _ = sock.send_to(b, to); }
        // everything is queued at the receiving socket before it is polled for the first time
        std::thread::sleep(Duration::from_millis(30));
        let got: Vec<Option<u32>> = rt.block_on(async {
            let mut got = Vec::new();
            while got.len() < want.len() + 4 {
                // once everything expected has arrived only look briefly for surplus deliveries
                let wait = if got.len() < want.len() { Duration::from_secs(4) } else { Duration::from_millis(100) };
                match tokio::time::timeout(wait, net.receive()).await {
                    Ok(Ok(m)) => got.push(ident(&m)),
                    _ => break,
                }
            }
            got
        });
        let d1 = udp_drops(net.port());
        let kernel_dropped = matches!((d0, d1), (Some(a), Some(b)) if b > a);
        let ok = got.len() == want.len() && got.iter().zip(want.iter()).all(|(g, w)| *g == Some(*w));
        rec.step(&format!("udp-burst {what} round {round} shape {shape}: {} datagrams, {} valid, malformed kinds {:?}", plan.len(), want.len(), kinds), if ok { "all valid delivered in order" } else { "differs" });
        if kernel_dropped {
            rec.count("udp-burst:kernel-drop-not-judged");
            continue;
        }
        rec.count(&format!("udp-burst:{}", if ok { "delivered" } else { "LOST" }));
        rec.oracle(ok, "udp-valid-datagram-dropped", || {
            let first = (0..want.len().max(got.len())).find(|i| got.get(*i).copied().flatten() != want.get(*i).copied()).unwrap_or(0);
            let layout: String = plan.iter().map(|v| if *v { 'v' } else { 'X' }).collect();
            format!("{what}: burst of {} datagrams queued before the first receive (v = valid, X = malformed: {layout}): {} valid messages sent, {} delivered; first difference at position {first} (sent message #{}, delivered {})", plan.len(), want.len(), got.len(), want.get(first).map(|x| x.to_string()).unwrap_or("-".into()), match got.get(first) { None => "nothing".to_string(), Some(None) => "an unknown message".to_string(), Some(Some(x)) => format!("message #{x}") })
        });
    }
}

fn main() {
    let args = Args::parse();
    // diagnostics: AG_LOG=1 RUST_LOG=<filter> prints the nodes' own log to stderr
    if std::env::var_os("AG_LOG").is_some() {
        alpenglow::logging::enable_logforth();
    }
    let mut rng = Rng::new(args.seed);
    // attack duration; before it a calibration phase (nodes must finalize without any attack), after it a
    // recovery phase (every node must finalize again) whose time limit scales with the calibration time, so that a
    // loaded machine makes the run longer, never wrong
    let secs: u64 = if args.thorough { 27 } else { 9 };
    std::panic::set_hook(Box::new(|info| {
        let th = std::thread::current().name().unwrap_or("?").to_string();
        let msg = if let Some(s) = info.payload().downcast_ref::<&str>() { s.to_string() } else if let Some(s) = info.payload().downcast_ref::<String>() { s.clone() } else { "panic".into() };
        let loc = info.location().map(|l| format!("{}:{}", l.file(), l.line())).unwrap_or_default();
        PANICS.lock().unwrap().push(format!("[{th}] {msg} at {loc}"));
    }));
    let rt = tokio::runtime::Builder::new_multi_thread().worker_threads(8).enable_all().build().expect("rt");
    let mut rec = Recorder::new();

    // ---- receive path alone: malformed datagrams in a burst must cost only themselves
    {
        rec.begin_case("udp-burst-with-malformed");
        let rounds = if args.thorough { 36 } else { 6 };
        let mut brng = rng.fork();
        udp_burst::<Transaction>(&rt, &mut rec, &mut brng, "transactions", rounds,
            &mut |seq, rng| { let mut p = vec![0xB5u8]; p.extend(seq.to_le_bytes()); let n_ = rng.below(40) as usize; p.extend(rng.bytes(n_)); wincode::serialize(&Transaction(p)).expect("ser") },
            &|t: &Transaction| if t.0.len() >= 5 && t.0[0] == 0xB5 { Some(u32::from_le_bytes(t.0[1..5].try_into().expect("4"))) } else { None });
        let vsk = aggsig::SecretKey::new(&mut brng);
        udp_burst::<ConsensusMessage>(&rt, &mut rec, &mut brng, "consensus messages", rounds,
            &mut |seq, _| wincode::serialize(&ConsensusMessage::Vote(Vote::new_skip(Slot::new(seq as u64), &vsk, ValidatorIndex::new(0)))).expect("ser"),
            &|m: &ConsensusMessage| match m { ConsensusMessage::Vote(v) => Some(v.slot().inner() as u32), _ => None });
        rec.end_case(fnv(0, "udp-burst"), true);
    }
    rec.begin_case("hostile-node-run");

    // ---- validators: `n` identities, identity BYZ is owned by the harness (no node runs for it)
    let n: usize = 6;
    const BYZ: usize = 1; // leads window 1 (slots 4..7), window 7, ...
    struct Nets {
        a2a: UdpNetwork<ConsensusMessage, ConsensusMessage>,
        dis: UdpNetwork<Shred, Shred>,
        rq: UdpNetwork<RepairRequest, RepairResponse>,
        rp: UdpNetwork<RepairResponse, RepairRequest>,
        tx: UdpNetwork<Transaction, Transaction>,
    }
    let (pools, cancels, infos, tx_ports, byz_sk, byz_vsk, epoch) = rt.block_on(async {
        let nets: Vec<Nets> = (0..n).map(|_| Nets { a2a: UdpNetwork::new_with_any_port(), dis: UdpNetwork::new_with_any_port(), rq: UdpNetwork::new_with_any_port(), rp: UdpNetwork::new_with_any_port(), tx: UdpNetwork::new_with_any_port() }).collect();
        let mut krng = Rng::new(args.seed ^ 0x5eed);
        let sks: Vec<signature::SecretKey> = (0..n).map(|_| signature::SecretKey::new(&mut krng)).collect();
        let vsks: Vec<aggsig::SecretKey> = (0..n).map(|_| aggsig::SecretKey::new(&mut krng)).collect();
        let validators: Vec<ValidatorInfo> = (0..n).map(|i| ValidatorInfo {
            id: ValidatorIndex::new(i as u64),
            stake: Stake::new(1),
            pubkey: sks[i].to_pk(),
            voting_pubkey: vsks[i].to_pk(),
            all2all_address: localhost_ip_sockaddr(nets[i].a2a.port()),
            disseminator_address: localhost_ip_sockaddr(nets[i].dis.port()),
            repair_requester_address: localhost_ip_sockaddr(nets[i].rq.port()),
            repair_responder_address: localhost_ip_sockaddr(nets[i].rp.port()),
        }).collect();
        let tx_ports: Vec<u16> = nets.iter().map(|x| x.tx.port()).collect();
        let epoch = EpochInfo::new(validators.clone());
        let mut pools = Vec::new();
        let mut cancels = Vec::new();
        for (i, net) in nets.into_iter().enumerate() {
            if i == BYZ { std::mem::forget(net); continue; } // keep the sockets bound, nobody reads them
            let ei = Arc::new(ValidatorEpochInfo::new(ValidatorIndex::new(i as u64), epoch.clone()));
            let a2a = TrivialAll2All::new(validators.clone(), net.a2a);
            let dis = Rotor::new(net.dis, ei.clone());
            let node = Alpenglow::new(sks[i].clone(), vsks[i].clone(), a2a, dis, net.rq, net.rp, ei, net.tx);
            pools.push((i, node.get_pool()));
            cancels.push(node.get_cancel_token());
            tokio::spawn(node.run());
        }
        (pools, cancels, validators, tx_ports, sks[BYZ].clone(), vsks[BYZ].clone(), epoch)
    });

    // ---- hostile sender (plain std socket, own thread)
    let sock = UdpSocket::bind("127.0.0.1:0").expect("bind");
    let run_start = Instant::now();
    let fins_now = |rt: &tokio::runtime::Runtime| -> Vec<u64> { rt.block_on(async { let mut v = Vec::new(); for (_, p) in &pools { v.push(p.read().await.finalized_slot().inner()); } v }) };
    // ---- phase 0: calibration without attack
    let mut calib_ok = false;
    while run_start.elapsed() < Duration::from_secs(40) {
        std::thread::sleep(Duration::from_millis(100));
        if fins_now(&rt).iter().all(|f| *f >= 2) { calib_ok = true; break; }
    }
    let calib = run_start.elapsed();
    let start = Instant::now();
    let targets: Vec<usize> = (0..n).filter(|i| *i != BYZ).collect();
    let mut sent = [0u64; 6];
    let mut fresh_block: u64 = 0;
    let mut next_sample = 1u64;
    let mut samples: Vec<Vec<u64>> = Vec::new();
    let mut shredder = RegularShredder::default();
    let attack_until = secs;
    let ser = |m: &ConsensusMessage| wincode::serialize(m).expect("ser");
    while start.elapsed() < Duration::from_secs(secs) {
        let t = start.elapsed().as_millis() as u64;
        let cur_slot = run_start.elapsed().as_millis() as u64 / 400 + 1; // rough slot estimate (DELTA_BLOCK = 400 ms)
        if t / 1000 < attack_until {
            let j = *rng.pick(&targets);
            let info = &infos[j];
            match rng.below(6) {
                0 => { // all2all: hostile votes / certs / bytes
                    let bytes = match rng.below(6) {
                        0 => { let n_ = rng.range(0, 300) as usize; rng.bytes(n_) },
                        1 => { // vote with out-of-range signer / far future slot, signed by the byz key
                            let signer = ValidatorIndex::new(*rng.pick(&[BYZ as u64, n as u64, 2047, u64::MAX]));
                            let slot = Slot::new(*rng.pick(&[cur_slot, cur_slot + 1, 1 << 40, u64::MAX - 1, 0]));
                            let v = match rng.below(5) { 0 => Vote::new_notar(slot, rand_hash(&mut rng), &byz_vsk, signer), 1 => Vote::new_notar_fallback(slot, rand_hash(&mut rng), &byz_vsk, signer), 2 => Vote::new_skip(slot, &byz_vsk, signer), 3 => Vote::new_skip_fallback(slot, &byz_vsk, signer), _ => Vote::new_final(slot, &byz_vsk, signer) };
                            ser(&ConsensusMessage::Vote(v))
                        }
                        2 => { // validly signed equivocating votes of the byz validator for current slots
                            let slot = Slot::new(cur_slot + rng.below(3));
                            let signer = ValidatorIndex::new(BYZ as u64);
                            let v = match rng.below(5) { 0 => Vote::new_notar(slot, rand_hash(&mut rng), &byz_vsk, signer), 1 => Vote::new_notar_fallback(slot, rand_hash(&mut rng), &byz_vsk, signer), 2 => Vote::new_skip(slot, &byz_vsk, signer), 3 => Vote::new_skip_fallback(slot, &byz_vsk, signer), _ => Vote::new_final(slot, &byz_vsk, signer) };
                            ser(&ConsensusMessage::Vote(v))
                        }
                        3 => { // certificate built from a single (insufficient) vote, then mutated bitmask bytes
                            use alpenglow::consensus::{Cert, NotarCert, NotarVote};
                            let slot = Slot::new(cur_slot);
                            let v = NotarVote::new(slot, rand_hash(&mut rng), &byz_vsk, ValidatorIndex::new(BYZ as u64));
                            let c = Cert::Notar(NotarCert::new(&[v], epoch.validators()));
                            let b = ser(&ConsensusMessage::Cert(c));
                            if rng.chance(1, 2) { mutate(&mut rng, b) } else { b }
                        }
                        _ => { let v = Vote::new_skip(Slot::new(cur_slot), &byz_vsk, ValidatorIndex::new(BYZ as u64)); mutate(&mut rng, ser(&ConsensusMessage::Vote(v))) }
                    };
                    let _ = sock.send_to(&bytes, info.all2all_address);
                    sent[0] += 1;
                }
                1 => { // disseminator: validly signed hostile slices for the windows the byz validator leads, plus garbage
                    let lead_slot = { let w = cur_slot / 4; let bw = if w % n as u64 <= BYZ as u64 { w - w % n as u64 + BYZ as u64 } else { w - w % n as u64 + n as u64 + BYZ as u64 }; bw * 4 + rng.below(4) };
                    let slot = Slot::new(if rng.chance(3, 4) { lead_slot.max(4) } else { cur_slot });
                    let kind = rng.below(9);
                    let parent: Option<BlockId> = match kind {
                        0 => Some((Slot::new(slot.inner() + 5), rand_hash(&mut rng))),     // parent in the future
                        1 => Some((slot, rand_hash(&mut rng))),                            // parent in the same slot
                        2 => None,                                                         // first slice without parent
                        _ => Some((Slot::new(slot.inner().saturating_sub(1 + rng.below(3))), rand_hash(&mut rng))),
                    };
                    let data: Vec<u8> = match kind {
                        3 => { let n_ = rng.range(0, 2000) as usize; rng.bytes(n_) },                       // undecodable transactions
                        4 => { let mut d = (u64::MAX).to_le_bytes().to_vec(); { let r_ = rng.bytes(64); d.extend(r_); } d } // inflated tx count
                        5 => { let mut d = 1u64.to_le_bytes().to_vec(); d.extend((1400u64).to_le_bytes()); d.extend(rng.bytes(1400)); d } // oversize tx
                        6 => vec![],
                        _ => { let mut d = 0u64.to_le_bytes().to_vec(); if rng.chance(1, 2) { d.extend(rng.bytes(8)); } d }
                    };
                    let slice_index = match rng.below(4) { 0 => 0, 1 => 1, 2 => rng.below(5) as usize, _ => 1023 };
                    let si0 = si(slice_index);
                    let slice = Slice { slot, slice_index: si0, is_last: rng.chance(1, 2), parent: if slice_index == 0 || rng.chance(1, 4) { parent } else { None }, data };
                    if let Ok(shreds) = shredder.shred(&slice, &byz_sk) {
                        // send >= 32 shreds so that the slice reconstructs at the victim
                        let k = rng.range(20, 64) as usize;
                        for s in shreds.iter().take(k) {
                            let b = wincode::serialize(s.as_shred()).expect("ser shred");
                            let b = if rng.chance(1, 30) { mutate(&mut rng, b) } else { b };
                            let _ = sock.send_to(&b, info.disseminator_address);
                            sent[1] += 1;
                        }
                    }
                    // a complete, validly signed multi-slice block whose *later* slice switches the parent (optimistic
                    // handover) to a slot that is not earlier / to the same parent / twice: it reconstructs at the victim
                    if rng.chance(1, 6) {
                        // a slot of a later window led by the Byzantine validator that nothing was sent for yet
                        fresh_block += 1;
                        let w = cur_slot / 4 + 1;
                        let bw = w - w % n as u64 + n as u64 * (1 + fresh_block % 200) + BYZ as u64;
                        let slot = Slot::new(bw * 4 + fresh_block / 200 % 4);
                        let first_parent: BlockId = (Slot::new(slot.inner().saturating_sub(1)), rand_hash(&mut rng));
                        let nsl = 2 + rng.below(2) as usize;
                        let variant = rng.below(4);
                        for k in 0..nsl {
                            let par: Option<BlockId> = if k == 0 { Some(first_parent.clone()) } else {
                                match (variant, k) {
                                    (0, 1) => Some((Slot::new(slot.inner() + rng.below(3)), rand_hash(&mut rng))), // not in an earlier slot
                                    (1, 1) => Some(first_parent.clone()),                                          // switch to the current parent
                                    (2, _) => Some((Slot::new(slot.inner().saturating_sub(1 + k as u64)), rand_hash(&mut rng))), // a switch in every slice
                                    (3, 1) => Some((Slot::new(slot.inner().saturating_sub(2)), rand_hash(&mut rng))), // one legal switch
                                    _ => None,
                                }
                            };
                            let sl = Slice { slot, slice_index: si(k), is_last: k + 1 == nsl, parent: par, data: 0u64.to_le_bytes().to_vec() };
                            if let Ok(shreds) = shredder.shred(&sl, &byz_sk) {
                                for sh in shreds.iter() {
                                    let b = wincode::serialize(sh.as_shred()).expect("ser shred");
                                    let _ = sock.send_to(&b, info.disseminator_address);
                                    sent[1] += 1;
                                }
                            }
                        }
                    }
                    if rng.chance(1, 4) { let g = { let n_ = rng.range(0, 1400) as usize; rng.bytes(n_) }; let _ = sock.send_to(&g, info.disseminator_address); }
                }
                2 => { // repair responses nobody asked for
                    let bid: BlockId = (Slot::new(cur_slot.saturating_sub(rng.below(4))), rand_hash(&mut rng));
                    let req = match rng.below(3) { 0 => RepairRequestType::LastSliceRoot(bid.clone()), 1 => RepairRequestType::SliceRoot(bid.clone(), si(rng.below(1024) as usize)), _ => RepairRequestType::Shred(bid.clone(), si(rng.below(1024) as usize), alpenglow::shredder::ShredIndex::new(rng.below(64) as usize).expect("idx")) };
                    let resp = match rng.below(3) { 0 => RepairResponse::Nack(req), 1 => RepairResponse::SliceRoot(req, { let h: Hash = wincode::deserialize(&rng.bytes(32)).expect("h"); h.into() }, vec![].into()), _ => RepairResponse::LastSliceRoot(req, si(rng.below(1024) as usize), { let h: Hash = wincode::deserialize(&rng.bytes(32)).expect("h"); h.into() }, vec![].into()) };
                    let b = wincode::serialize(&resp).expect("ser");
                    let b = if rng.chance(1, 3) { mutate(&mut rng, b) } else { b };
                    let _ = sock.send_to(&b, info.repair_requester_address);
                    sent[2] += 1;
                }
                3 => { // repair requests for unknown blocks / out-of-range senders
                    let bid: BlockId = (Slot::new(*rng.pick(&[cur_slot, 0, 1 << 50])), rand_hash(&mut rng));
                    let rt_ = match rng.below(3) { 0 => RepairRequestType::LastSliceRoot(bid), 1 => RepairRequestType::SliceRoot(bid, si(1023)), _ => RepairRequestType::Shred(bid, si(rng.below(1024) as usize), alpenglow::shredder::ShredIndex::new(63).expect("idx")) };
                    let req = RepairRequest::verif_new(ValidatorIndex::new(*rng.pick(&[BYZ as u64, n as u64, u64::MAX])), rt_);
                    let b = wincode::serialize(&req).expect("ser");
                    let b = if rng.chance(1, 3) { mutate(&mut rng, b) } else { b };
                    let _ = sock.send_to(&b, info.repair_responder_address);
                    sent[3] += 1;
                }
                4 => { // transactions: sizes around and above MAX_TRANSACTION_SIZE, sequences that fill a slice to the brim
                    let send_tx = |sz: usize, rng: &mut Rng, sent: &mut [u64; 6]| {
                        let b = wincode::serialize(&Transaction(rng.bytes(sz))).expect("ser");
                        if b.len() <= 1500 { let _ = sock.send_to(&b, localhost_ip_sockaddr(tx_ports[j])); sent[4] += 1; }
                    };
                    match rng.below(12) {
                        0 => { for _ in 0..3000 { let sz = rng.below(9) as usize; send_tx(sz, &mut rng, &mut sent); } } // thousands of tiny ones
                        1..=4 => {
                            // a slice filled with maximal transactions, then one that leaves a remaining budget anywhere around
                            // MAX_TRANSACTION_SIZE (+ the 8-byte length prefix), then more maximal ones
                            let full = rng.range(58, 63) as usize;
                            for _ in 0..full { send_tx(512, &mut rng, &mut sent); }
                            let odd = rng.range(440, 512) as usize;
                            send_tx(odd, &mut rng, &mut sent);
                            for _ in 0..3 { send_tx(512, &mut rng, &mut sent); }
                        }
                        5 | 6 => { for _ in 0..80 { let sz = *rng.pick(&[0usize, 1, 511, 512, 513, 520, 1000, 1400, 1484]); send_tx(sz, &mut rng, &mut sent); } }
                        _ => { let sz = *rng.pick(&[0usize, 1, 511, 512, 513, 520, 1000, 1400, 1484]); send_tx(sz, &mut rng, &mut sent); }
                    }
                }
                _ => { // raw garbage to a random interface, sometimes larger than one MTU (up to a jumbo datagram)
                    let g = { let n_ = if rng.chance(1, 5) { rng.range(1501, 9000) } else { rng.range(0, 1500) } as usize; rng.bytes(n_) };
                    let addr = *rng.pick(&[info.all2all_address, info.disseminator_address, info.repair_requester_address, info.repair_responder_address, localhost_ip_sockaddr(tx_ports[j])]);
                    let _ = sock.send_to(&g, addr);
                    sent[5] += 1;
                }
            }
            if rng.chance(1, 3) { std::thread::sleep(Duration::from_micros(300)); }
        } else {
            std::thread::sleep(Duration::from_millis(20));
        }
        if start.elapsed().as_secs() >= next_sample {
            next_sample += 1;
            samples.push(fins_now(&rt));
        }
    }
    // the parent-ready frontier of a pool: the highest window start above its finalized slot for which it announces a
    // ready parent. It advances only when certificates (notarization or skip) keep being formed from the correct
    // nodes' votes, i.e. when the node's message loop, pool and the Votors are alive - also while every window is
    // being skipped and nothing is finalized
    let frontier_now = |rt: &tokio::runtime::Runtime, from: &[u64]| -> Vec<u64> { rt.block_on(async {
        let mut v = Vec::new();
        for (k, (_, p)) in pools.iter().enumerate() {
            let g = p.read().await;
            let f = g.finalized_slot().inner();
            let mut w = from.get(k).copied().unwrap_or(0).max(f / 4 * 4);
            let mut best = w;
            for _ in 0..256 {
                w += 4;
                if !g.parents_ready(Slot::new(w)).is_empty() { best = w; }
            }
            v.push(best);
        }
        v
    }) };
    // ---- phase 2: recovery (no attack): every node finalizes at least two further slots
    // (patience: under the flood the cluster can lose votes and certificates and stop finalizing at a window of the
    //  Byzantine leader; it picks up again through standstill recovery, which re-broadcasts every 10 s - usually within one
    //  round after the flood ends, on a loaded machine after several; 20 s was too short: false alarms in the thorough tier)
    let at_attack_end = fins_now(&rt);
    let frontier_start = frontier_now(&rt, &[]);
    let limit = Duration::from_secs(std::env::var("AG_RECOVERY_SECS").ok().and_then(|v| v.parse().ok()).unwrap_or(90)).max(calib * 8);
    let rec_start = Instant::now();
    let mut last = at_attack_end.clone();
    while rec_start.elapsed() < limit {
        std::thread::sleep(Duration::from_millis(100));
        last = fins_now(&rt);
        if last.iter().zip(at_attack_end.iter()).all(|(a, b)| *a >= *b + 2) { break; }
    }
    let recovery = rec_start.elapsed();
    let frontier_end = frontier_now(&rt, &frontier_start);
    samples.push(last.clone());
    // panics are collected *before* shutdown: cancelling the tasks one by one makes the survivors' channel sends
    // fail ("votor should not drop the event receiver"), which is a shutdown artefact, not the effect of an input
    let panics = PANICS.lock().unwrap().clone();
    for c in &cancels { c.cancel(); }
    std::thread::sleep(Duration::from_millis(300));

    // ---- oracle
    rec.step(&format!("run secs={secs} nodes={} byz={BYZ} sent={:?}", n - 1, sent), "ok");
    rec.oracle(panics.is_empty(), "node-task-panicked", || format!("panics during the hostile run: {:?}", &panics[..panics.len().min(5)]));
    rec.count(&format!("calibration:{}", if calib_ok { "nodes-finalize-without-attack" } else { "INCONCLUSIVE-no-progress-without-attack" }));
    for (k, (i, _)) in pools.iter().enumerate() {
        let f_end = last.get(k).copied().unwrap_or(0);
        let f_att = at_attack_end.get(k).copied().unwrap_or(0);
        // progress is only demanded if the nodes made progress on this machine before the attack started
        // "keeps voting, producing and finalizing": finalization resumes - or, when the machine / the network is too slow
        // for blocks to beat the timeouts (every window is skipped; C02's timeliness premise, not C10's subject), at
        // least the certificates keep coming: the parent-ready frontier advances by two or more windows
        let fr0 = frontier_start.get(k).copied().unwrap_or(0);
        let fr1 = frontier_end.get(k).copied().unwrap_or(0);
        let alive = f_end >= f_att + 2 || fr1 >= fr0 + 8;
        if f_end < f_att + 2 && alive { rec.count("recovery:skipping-windows-without-finalizing"); }
        rec.oracle(!calib_ok || alive, "node-wedged-after-attack", || format!("node {i}: finalized slot {f_att} when the attack ended and {f_end} after {:.1} s without attack, parent-ready frontier {fr0} -> {fr1} (before the attack the nodes needed {:.1} s to finalize slot 2; samples per second during the attack: {:?})", recovery.as_secs_f64(), calib.as_secs_f64(), samples.iter().map(|s| s[k]).collect::<Vec<_>>()));
        let during = samples.first().map(|s| s[k]).unwrap_or(0);
        rec.count(&format!("progress-during-attack:{}", f_att > during));
    }
    rec.count(&format!("finalized-end-min:{}", last.iter().min().copied().unwrap_or(0)));
    let class = fnv(0, &format!("{sent:?}"));
    rec.end_case(class, true);
    // a second, trivial case so that coverage counters are meaningful (distinct >= 2): the sample trace
    rec.begin_case("progress-trace");
    rec.step(&format!("samples {:?}", samples), "ok");
    rec.end_case(fnv(0, &format!("{samples:?}")), true);
    let extra = serde_json::json!({ "sent_per_interface": sent, "finalized_samples": samples, "panics": panics, "calibration_s": calib.as_secs_f64(), "recovery_s": recovery.as_secs_f64() });
    rec.finish(&args, extra);
    std::process::exit(0);
}
