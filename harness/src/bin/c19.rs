//! C19 — wire format: messages round-trip exactly and fit one datagram.
//!
//! Correspondence with `AgModel.Wire` (`Driver/C19.lean`) + property oracle on the real code.
//!
//! op:  `dec <T> <hex>`  -> `err` | `ok <len> <fnv1a64>` : decode the byte string *exactly* as message
//!      type T (`alpenglow::network::deserialize`) and re-encode the result (`wincode::serialize`).
//! T := cm (ConsensusMessage) | tx (Transaction) | rq (RepairRequest) | rs (RepairResponse) | sh (Shred)
//!
//! Byte strings: (a) encodings of messages built with the crate's own types and constructors
//! (all vote kinds, all certificate types for validator counts up to 2048 and signer subsets, shreds
//! of the four shredders for slice sizes up to the limit, repair requests / responses, transactions),
//! (b) each of them with a trailing byte / truncated, (c) typed mutations (index fields out of range,
//! length fields, tags, bitmask words), (d) random byte flips and random byte strings.
//! A byte string whose verdict depends on the blst point decoders (the real decoder fails with an
//! "invalid BLS ..." error) is checked by the oracle only (the model treats point encodings as opaque).
use ag_harness::*;
use alpenglow::consensus::{
    Cert, ConsensusMessage, EpochInfo, FastFinalCert, FinalCert, FinalVote, NotarCert, NotarFallbackCert, NotarFallbackVote, NotarVote,
    SkipCert, SkipFallbackVote, SkipVote, Vote,
};
use alpenglow::crypto::aggsig::SecretKey;
use alpenglow::crypto::merkle::{BlockHash, DoubleMerkleProof, SliceRoot};
use alpenglow::crypto::{Hash, signature};
use alpenglow::network::{MTU_BYTES, dontcare_sockaddr};
use alpenglow::repair::{RepairRequest, RepairRequestType, RepairResponse};
use alpenglow::shredder::{AontShredder, CodingOnlyShredder, PetsShredder, RegularShredder, Shred, ShredIndex, Shredder, TOTAL_SHREDS};
use alpenglow::types::slice::create_slice_with_invalid_txs;
use alpenglow::types::{SliceIndex, Slot};
use alpenglow::{Stake, Transaction, ValidatorIndex, ValidatorInfo};

fn hex(b: &[u8]) -> String {
    let mut s = String::with_capacity(b.len() * 2);
    for x in b {
        s.push_str(&format!("{x:02x}"));
    }
    s
}

fn fnv_bytes(b: &[u8]) -> u64 {
    let mut h: u64 = 0xcbf29ce484222325;
    for x in b {
        h ^= *x as u64;
        h = h.wrapping_mul(0x100000001b3);
    }
    h
}

/// `Debug` of a message without the parts that are not the message (bitvec prints the address and
/// capacity of its buffer)
fn sanitize(s: &str) -> String {
    let mut out = String::with_capacity(s.len());
    let mut rest = s;
    loop {
        let a = rest.find("addr: 0x");
        let c = rest.find("capacity: ");
        let (pos, skip_prefix) = match (a, c) {
            (None, None) => break,
            (Some(a), None) => (a, 8),
            (None, Some(c)) => (c, 10),
            (Some(a), Some(c)) => if a < c { (a, 8) } else { (c, 10) },
        };
        out.push_str(&rest[..pos]);
        let tail = &rest[pos + skip_prefix..];
        let n = tail.find(|ch: char| !ch.is_ascii_hexdigit()).unwrap_or(tail.len());
        rest = &tail[n..];
    }
    out.push_str(rest);
    out
}

/// result of offering a byte string to the real exact decoder of type T
enum Dec {
    Ok { re: Vec<u8>, dbg: String, dig: String },
    Err(String),
    Panic,
}

trait Msg: Sized {
    const T: &'static str;
    fn de(b: &[u8]) -> wincode::ReadResult<Self>;
    fn ser(&self) -> Vec<u8>;
    fn dbg(&self) -> String;
    /// a few decoded field values (compared with the model's decoding)
    fn digest(&self) -> String {
        String::new()
    }
}

macro_rules! msg {
    ($ty:ty, $t:expr) => {
        msg!($ty, $t, |_m: &$ty| String::new());
    };
    ($ty:ty, $t:expr, $dig:expr) => {
        impl Msg for $ty {
            fn digest(&self) -> String {
                ($dig)(self)
            }
            const T: &'static str = $t;
            fn de(b: &[u8]) -> wincode::ReadResult<Self> {
                alpenglow::network::deserialize::<$ty>(b)
            }
            fn ser(&self) -> Vec<u8> {
                wincode::serialize(self).expect("serialize")
            }
            fn dbg(&self) -> String {
                sanitize(&format!("{self:?}"))
            }
        }
    };
}
msg!(ConsensusMessage, "cm", |m: &ConsensusMessage| match m {
    ConsensusMessage::Vote(v) => format!(" v {} {}", v.slot().inner(), v.signer().inner()),
    ConsensusMessage::Cert(c) => format!(" c {} {}", c.slot().inner(), c.stake().inner()),
});
msg!(Transaction, "tx");
msg!(RepairRequest, "rq");
msg!(RepairResponse, "rs");
msg!(Shred, "sh", |m: &Shred| format!(" i {}", m.payload().index_in_slot()));

fn offer<M: Msg>(b: &[u8]) -> Dec {
    match catch(|| M::de(b).map(|m| (m.ser(), m.dbg(), m.digest()))) {
        Err(_) => Dec::Panic,
        Ok(Err(e)) => Dec::Err(e.to_string()),
        Ok(Ok((re, dbg, dig))) => Dec::Ok { re, dbg, dig },
    }
}

struct Cx {
    rec: Recorder,
    class: u64,
    oks: u64,
    errs: u64,
    max_len: std::collections::BTreeMap<String, usize>,
}

impl Cx {
    /// offers `b` to the real decoder of M; records the correspondence op unless the verdict hinges
    /// on the blst point decoders; checks the never-panic and re-encoding-stability oracles.
    fn feed<M: Msg>(&mut self, b: &[u8], why: &str) -> Dec {
        let d = offer::<M>(b);
        let t = M::T;
        let crypto = matches!(&d, Dec::Err(e) if e.contains("invalid BLS"));
        let out = match &d {
            Dec::Ok { re, dig, .. } => format!("ok {} {}{dig}", re.len(), fnv_bytes(re)),
            Dec::Err(_) => "err".to_string(),
            Dec::Panic => "panic".to_string(),
        };
        if crypto {
            self.rec.count(&format!("{t}:crypto-err(not compared)"));
        } else {
            self.rec.step(&format!("dec {t} {}", hex(b)), &out);
        }
        self.rec.count(&format!("{t}:{}", out.split(' ').next().unwrap_or("")));
        self.class = fnv(self.class, &format!("{t}{why}{}", out.split(' ').next().unwrap_or("")));
        self.rec.oracle(!matches!(d, Dec::Panic), "c19-decoder-panic", || format!("decoding {t} {} panicked ({why})", hex(b)));
        if let Dec::Ok { re, dbg, .. } = &d {
            self.oks += 1;
            // re-encoding a successfully decoded byte string is stable
            let h = hex(b);
            match offer::<M>(re) {
                Dec::Ok { re: re2, dbg: dbg2, .. } => {
                    self.rec.oracle(&re2 == re, "c19-reencoding-unstable", || format!("{t} {h}: re-encoding of the decoded message is not a fixed point ({why})"));
                    self.rec.oracle(&dbg2 == dbg, "c19-reencoding-changes-message", || format!("{t} {h}: decode(encode(m)) != m for the decoded m ({why})"));
                }
                _ => self.rec.oracle(false, "c19-reencoding-undecodable", || format!("{t} {h}: re-encoding of the decoded message does not decode ({why})")),
            }
        } else {
            self.errs += 1;
        }
        d
    }

    /// a message a correct node emits: exact round trip, one datagram, trailing byte / truncation rejected
    fn emitted<M: Msg>(&mut self, m: &M, what: &str, rng: &mut Rng) -> Vec<u8> {
        let b = m.ser();
        let t = M::T;
        let e = self.max_len.entry(format!("{t}:{what}")).or_default();
        *e = (*e).max(b.len());
        self.rec.oracle(b.len() <= MTU_BYTES, "c19-exceeds-datagram", || format!("{t} ({what}) encodes to {} bytes > {MTU_BYTES}: {}", b.len(), &m.dbg()[..m.dbg().len().min(300)]));
        match self.feed::<M>(&b, what) {
            Dec::Ok { re, dbg, .. } => {
                self.rec.oracle(re == b, "c19-roundtrip-bytes", || format!("{t} ({what}) {}: decode then encode gives other bytes", hex(&b)));
                self.rec.oracle(dbg == m.dbg(), "c19-roundtrip-message", || format!("{t} ({what}) {}: decoded message differs from the encoded one", hex(&b)));
            }
            Dec::Err(e) => self.rec.oracle(false, "c19-own-encoding-rejected", || format!("{t} ({what}) {}: the encoding of an emitted message does not decode: {e}", hex(&b))),
            Dec::Panic => {}
        }
        // trailing bytes and truncation
        let mut tb = b.clone();
        tb.push(rng.next() as u8);
        if rng.chance(1, 4) {
            let k = rng.range(1, 9) as usize;
            tb.extend(rng.bytes(k));
        }
        let d = self.feed::<M>(&tb, "trailing bytes");
        self.rec.oracle(!matches!(d, Dec::Ok { .. }), "c19-trailing-bytes-accepted", || format!("{t} ({what}) {}: accepted with trailing bytes", hex(&tb)));
        let cut = if rng.chance(1, 2) { b.len() - 1 } else { rng.below(b.len() as u64) as usize };
        let d = self.feed::<M>(&b[..cut], "truncated");
        self.rec.oracle(!matches!(d, Dec::Ok { .. }), "c19-truncated-accepted", || format!("{t} ({what}) {}: accepted although truncated", hex(&b[..cut])));
        b
    }

    /// mutated / arbitrary byte strings: only the generic oracles of `feed`
    fn hostile<M: Msg>(&mut self, b: &[u8], rng: &mut Rng, rounds: usize) {
        for _ in 0..rounds {
            let mut m = b.to_vec();
            match rng.below(6) {
                0 => {
                    let i = rng.below(m.len() as u64) as usize;
                    m[i] ^= 1 << rng.below(8);
                }
                1 => {
                    let i = rng.below(m.len() as u64) as usize;
                    m[i] = *rng.pick(&[0u8, 1, 2, 5, 0x7f, 0x80, 0xff]);
                }
                2 => {
                    // overwrite an aligned-ish 8-byte field with an interesting integer
                    if m.len() >= 8 {
                        let i = rng.below((m.len() - 7) as u64) as usize;
                        let v: u64 = *rng.pick(&[0u64, 1, 31, 32, 33, 63, 64, 65, 187, 188, 1023, 1024, 1492, 1493, 1500, 1501, 2047, 2048, 2049, 2112, u64::MAX, 1 << 32, 1 << 61]);
                        m[i..i + 8].copy_from_slice(&v.to_le_bytes());
                    }
                }
                3 => {
                    let i = rng.below(m.len() as u64 + 1) as usize;
                    m.insert(i, rng.next() as u8);
                }
                4 => {
                    let i = rng.below(m.len() as u64) as usize;
                    m.remove(i);
                }
                _ => {
                    for _ in 0..rng.range(2, 5) {
                        let i = rng.below(m.len() as u64) as usize;
                        m[i] = rng.next() as u8;
                    }
                }
            }
            self.feed::<M>(&m, "mutated");
        }
    }
}

fn h32(rng: &mut Rng) -> Hash {
    wincode::deserialize(&rng.bytes(32)).expect("32 bytes")
}

fn slice_index(i: usize) -> SliceIndex {
    wincode::deserialize(&(i as u64).to_le_bytes()).expect("slice index in range")
}

fn validators(n: usize, pk: (signature::PublicKey, alpenglow::crypto::aggsig::PublicKey)) -> Vec<ValidatorInfo> {
    (0..n)
        .map(|i| ValidatorInfo {
            id: ValidatorIndex::new(i as u64),
            stake: Stake::new(1 + (i as u64 % 7)),
            pubkey: pk.0,
            voting_pubkey: pk.1,
            all2all_address: dontcare_sockaddr(),
            disseminator_address: dontcare_sockaddr(),
            repair_requester_address: dontcare_sockaddr(),
            repair_responder_address: dontcare_sockaddr(),
        })
        .collect()
}

/// position of the byte pattern `pat` in `b`
fn find(b: &[u8], pat: &[u8]) -> Option<usize> {
    b.windows(pat.len()).position(|w| w == pat)
}

fn main() {
    let args = Args::parse();
    std::panic::set_hook(Box::new(|info| {
        if info.location().is_some_and(|l| l.file().ends_with("c19.rs") || l.file().contains("harness/src")) {
            eprintln!("{info}");
        }
    }));
    let mut rng = Rng::new(args.seed);
    let mut krng = Rng::new(0xC19);
    let sk = SecretKey::new(&mut krng);
    let ed = signature::SecretKey::new(&mut krng);
    let pks = (ed.to_pk(), sk.to_pk());
    let mut cx = Cx { rec: Recorder::new(), class: 0, oks: 0, errs: 0, max_len: Default::default() };
    let hostile_rounds = if args.thorough { 40 } else { 6 };

    // ---------------------------------------------------------------- votes
    let vote_rounds = if args.thorough { 60 } else { 8 };
    for r in 0..vote_rounds {
        cx.class = 0;
        cx.oks = 0;
        cx.errs = 0;
        cx.rec.begin_case("votes");
        for kind in 0..5 {
            let slot = Slot::new({ let r_ = rng.next(); *rng.pick(&[0u64, 1, 255, 256, 1 << 32, u64::MAX, r_]) });
            let bh: BlockHash = h32(&mut rng).into();
            let signer = ValidatorIndex::new({ let r_ = rng.below(4096); *rng.pick(&[0u64, 1, 2047, 2048, u64::MAX, r_]) });
            let v = match kind {
                0 => Vote::new_notar(slot, bh, &sk, signer),
                1 => Vote::new_notar_fallback(slot, bh, &sk, signer),
                2 => Vote::new_skip(slot, &sk, signer),
                3 => Vote::new_skip_fallback(slot, &sk, signer),
                _ => Vote::new_final(slot, &sk, signer),
            };
            let b = cx.emitted(&ConsensusMessage::Vote(v), &format!("vote kind {kind}"), &mut rng);
            // tags: message tag and vote tag out of range
            for (off, val) in [(0usize, 2u32), (0, 255), (0, 1 << 8), (4, 5), (4, 1 << 16), (4, u32::MAX)] {
                let mut m = b.clone();
                m[off..off + 4].copy_from_slice(&val.to_le_bytes());
                let d = cx.feed::<ConsensusMessage>(&m, "tag out of range");
                cx.rec.oracle(!matches!(d, Dec::Ok { .. }), "c19-bad-tag-accepted", || format!("cm {}: unknown enum tag accepted", hex(&m)));
            }
            cx.hostile::<ConsensusMessage>(&b, &mut rng, hostile_rounds);
        }
        cx.rec.end_case(cx.class ^ r as u64, cx.oks > 0 && cx.errs > 0);
    }

    // ---------------------------------------------------------------- certificates, validator counts up to MAX_SIGNERS
    let mut ns: Vec<usize> = vec![1, 2, 3, 5, 63, 64, 65, 100, 127, 128, 129, 1000, 2047, 2048];
    if args.thorough {
        ns.extend([4, 7, 11, 31, 32, 33, 191, 192, 193, 255, 256, 257, 511, 512, 513, 1023, 1024, 1025, 1500, 1984, 1985, 2000]);
        for _ in 0..12 {
            ns.push(rng.range(1, 2048) as usize);
        }
    }
    for &n in &ns {
        cx.class = 0;
        cx.oks = 0;
        cx.errs = 0;
        cx.rec.begin_case("certs");
        let vals = validators(n, pks);
        let epoch = EpochInfo::new(vals.clone());
        let slot = Slot::new(rng.next());
        let bh: BlockHash = h32(&mut rng).into();
        // signer subsets: everyone, a random subset, a single validator (last index)
        let subsets: Vec<Vec<usize>> = vec![(0..n).collect(), (0..n).filter(|_| rng.chance(2, 3)).chain([n - 1]).collect::<std::collections::BTreeSet<_>>().into_iter().collect(), vec![n - 1]];
        for (si, set) in subsets.iter().enumerate() {
            if n > 300 && si == 1 && !args.thorough && n != 2048 {
                continue;
            }
            let vi = |i: &usize| ValidatorIndex::new(*i as u64);
            let half = set.len() / 2;
            let nv: Vec<NotarVote> = set.iter().map(|i| NotarVote::new(slot, bh.clone(), &sk, vi(i))).collect();
            let nfv: Vec<NotarFallbackVote> = set.iter().map(|i| NotarFallbackVote::new(slot, bh.clone(), &sk, vi(i))).collect();
            let sv: Vec<SkipVote> = set.iter().map(|i| SkipVote::new(slot, &sk, vi(i))).collect();
            let sfv: Vec<SkipFallbackVote> = set.iter().map(|i| SkipFallbackVote::new(slot, &sk, vi(i))).collect();
            let fv: Vec<FinalVote> = set.iter().map(|i| FinalVote::new(slot, &sk, vi(i))).collect();
            let certs: Vec<(Cert, &str)> = vec![
                (Cert::Notar(NotarCert::try_new(&nv, &vals).expect("cert")), "notar"),
                (Cert::FastFinal(FastFinalCert::try_new(&nv, &vals).expect("cert")), "fast-final"),
                (Cert::Final(FinalCert::try_new(&fv, &vals).expect("cert")), "final"),
                (Cert::NotarFallback(NotarFallbackCert::try_new(&nv, &nfv, &vals).expect("cert")), "notar-fallback, everyone in both halves"),
                (Cert::NotarFallback(NotarFallbackCert::try_new(&nv[..half], &nfv[half..], &vals).expect("cert")), "notar-fallback, split"),
                (Cert::NotarFallback(NotarFallbackCert::try_new(&[], &nfv, &vals).expect("cert")), "notar-fallback, one half"),
                (Cert::Skip(SkipCert::try_new(&sv, &sfv, &vals).expect("cert")), "skip, everyone in both halves"),
                (Cert::Skip(SkipCert::try_new(&sv[..half], &sfv[half..], &vals).expect("cert")), "skip, split"),
                (Cert::Skip(SkipCert::try_new(&sv, &[], &vals).expect("cert")), "skip, one half"),
            ];
            for (c, what) in certs {
                // (what the certificate is worth is C09's business; here only the format)
                let _ = c.check_threshold(&epoch);
                let b = cx.emitted(&ConsensusMessage::Cert(c), &format!("cert {what} n={n}"), &mut rng);
                // typed mutations of the bitmask header: num_bits and word count
                if let Some(p) = find(&b, &(n as u64).to_le_bytes()).filter(|_| n > 3) {
                    let words = n.div_ceil(64) as u64;
                    for (nb, nw) in [(n as u64 + 1, words), (64 * words + 1, words), (0, words), (n as u64, words + 1), (n as u64, words - 1), (n as u64 - 1, words), (2048, 32), (2049, 33), (64 * words, words), (u64::MAX, words), (n as u64, u64::MAX), (n as u64, 188)] {
                        let mut m = b.clone();
                        m[p..p + 8].copy_from_slice(&nb.to_le_bytes());
                        m[p + 8..p + 16].copy_from_slice(&nw.to_le_bytes());
                        // keep the byte string consistent with the claimed word count where cheap
                        if nw == words + 1 {
                            for _ in 0..8 {
                                m.insert(p + 16 + 8 * words as usize, 0xAA);
                            }
                        } else if nw.wrapping_add(1) == words {
                            m.drain(p + 16 + 8 * nw as usize..p + 16 + 8 * words as usize);
                        } else if nw == 32 || nw == 33 {
                            for _ in 0..8 * (nw - words) {
                                m.insert(p + 16 + 8 * words as usize, 0x55);
                            }
                        }
                        let d = cx.feed::<ConsensusMessage>(&m, "bitmask header mutated");
                        let must_reject = nw > 32 || nb > 64 * nw;
                        if must_reject {
                            cx.rec.oracle(!matches!(d, Dec::Ok { .. }), "c19-oversized-bitmask-accepted", || format!("cm {}: bitmask with num_bits={nb} words={nw} accepted", hex(&m)));
                        }
                    }
                }
                if n <= 200 || args.thorough {
                    cx.hostile::<ConsensusMessage>(&b, &mut rng, hostile_rounds);
                }
            }
        }
        cx.rec.end_case(cx.class ^ (n as u64) << 8, cx.oks > 0 && cx.errs > 0);
    }

    // ---------------------------------------------------------------- shreds of the four shredders, repair, transactions
    // slice sizes: small ones, and sizes counted down from each shredder's own maximum
    // (`usize::MAX - k` stands for `S::MAX_DATA_SIZE - k`)
    let mut sizes: Vec<usize> = vec![50, 51, 82, 1000, usize::MAX - 17, usize::MAX - 16, usize::MAX - 1, usize::MAX];
    let extra = if args.thorough { 40 } else { 4 };
    for _ in 0..extra {
        sizes.push(usize::MAX - rng.below(32 * 1024 - 100) as usize);
    }
    let mut some_shreds: Vec<Shred> = Vec::new();
    for &size in &sizes {
        cx.class = 0;
        cx.oks = 0;
        cx.errs = 0;
        cx.rec.begin_case("shreds");
        fn run<S: Shredder>(cx: &mut Cx, rng: &mut Rng, size: usize, ed: &signature::SecretKey, name: &str, keep: &mut Vec<Shred>, hostile_rounds: usize) {
            let size = if size > usize::MAX / 2 { S::MAX_DATA_SIZE.saturating_sub(usize::MAX - size).max(50) } else { size };
            if size > S::MAX_DATA_SIZE {
                return;
            }
            let slice = create_slice_with_invalid_txs(size);
            let shreds = match S::default().shred(&slice, ed) {
                Ok(s) => s,
                Err(_) => {
                    cx.rec.oracle(false, "c19-shredder-refuses", || format!("{name} refuses a slice of {size} bytes within its limit"));
                    return;
                }
            };
            let picks: Vec<usize> = vec![0, 31, 32, 63, rng.below(TOTAL_SHREDS as u64) as usize];
            for i in picks {
                let sh = shreds[i].as_shred().clone();
                let b = cx.emitted(&sh, &format!("shred {name}"), rng);
                // the same shred inside a repair response, with the matching request
                let req = RepairRequestType::Shred((Slot::new(rng.next()), h32(rng).into()), slice_index(rng.below(1024) as usize), ShredIndex::new(i).expect("index"));
                cx.emitted(&RepairResponse::Shred(req, sh.clone()), &format!("repair response with shred {name}"), rng);
                // index fields out of range: slice index (offset 4+8), shred index (offset 4+8+8+1)
                for (off, lim) in [(12usize, 1024u64), (21, 64)] {
                    for v in [lim, lim + 1, u64::MAX, 1 << 32] {
                        let mut m = b.clone();
                        m[off..off + 8].copy_from_slice(&v.to_le_bytes());
                        let d = cx.feed::<Shred>(&m, "index out of range");
                        cx.rec.oracle(!matches!(d, Dec::Ok { .. }), "c19-out-of-range-index-accepted", || format!("sh {}: index {v} >= {lim} accepted", hex(&m)));
                    }
                    let mut m = b.clone();
                    m[off..off + 8].copy_from_slice(&(lim - 1).to_le_bytes());
                    let d = cx.feed::<Shred>(&m, "index at the upper bound");
                    cx.rec.oracle(matches!(d, Dec::Ok { .. }), "c19-in-range-index-rejected", || format!("sh {}: index {} rejected", hex(&m), lim - 1));
                }
                // is_last byte not 0/1, payload tag not 0/1
                for (off, v) in [(20usize, 2u8), (20, 0xff), (0, 2), (0, 0x80)] {
                    let mut m = b.clone();
                    m[off] = v;
                    let d = cx.feed::<Shred>(&m, "bool / tag byte out of range");
                    cx.rec.oracle(!matches!(d, Dec::Ok { .. }), "c19-bad-tag-accepted", || format!("sh {}: invalid bool/tag byte accepted", hex(&m)));
                }
                cx.hostile::<Shred>(&b, rng, hostile_rounds);
                if keep.len() < 6 {
                    keep.push(sh);
                }
            }
        }
        run::<RegularShredder>(&mut cx, &mut rng, size, &ed, "regular", &mut some_shreds, hostile_rounds);
        run::<CodingOnlyShredder>(&mut cx, &mut rng, size, &ed, "coding-only", &mut some_shreds, hostile_rounds);
        run::<PetsShredder>(&mut cx, &mut rng, size, &ed, "pets", &mut some_shreds, hostile_rounds);
        run::<AontShredder>(&mut cx, &mut rng, size, &ed, "aont", &mut some_shreds, hostile_rounds);
        cx.rec.end_case(cx.class ^ (size as u64) << 16, cx.oks > 0 && cx.errs > 0);
    }

    // ---------------------------------------------------------------- repair requests / responses
    let rep_rounds = if args.thorough { 200 } else { 30 };
    for r in 0..rep_rounds {
        cx.class = 0;
        cx.oks = 0;
        cx.errs = 0;
        cx.rec.begin_case("repair");
        let bid = (Slot::new({ let r_ = rng.next(); *rng.pick(&[0u64, 1, u64::MAX, r_]) }), BlockHash::from(h32(&mut rng)));
        let si = { let r_ = rng.below(1024) as usize; *rng.pick(&[0usize, 1, 1022, 1023, r_]) };
        let shi = { let r_ = rng.below(64) as usize; *rng.pick(&[0usize, 31, 32, 63, r_]) };
        let reqs = [
            RepairRequestType::LastSliceRoot(bid.clone()),
            RepairRequestType::SliceRoot(bid.clone(), slice_index(si)),
            RepairRequestType::Shred(bid.clone(), slice_index(si), ShredIndex::new(shi).expect("idx")),
        ];
        for (k, req) in reqs.iter().enumerate() {
            // RepairRequest has private fields: sender (u64) followed by the request type
            let sender: u64 = { let r_ = rng.next(); *rng.pick(&[0u64, 1, 2047, u64::MAX, r_]) };
            let mut b = sender.to_le_bytes().to_vec();
            b.extend(wincode::serialize(req).expect("ser"));
            match alpenglow::network::deserialize::<RepairRequest>(&b) {
                Ok(rq) => {
                    let b2 = cx.emitted(&rq, &format!("repair request {k}"), &mut rng);
                    cx.rec.oracle(b2 == b, "c19-roundtrip-bytes", || format!("rq {}: hand-assembled request re-encodes differently", hex(&b)));
                    // out-of-range indices inside requests
                    if k >= 1 {
                        for v in [1024u64, 1025, u64::MAX] {
                            let mut m = b.clone();
                            m[8 + 4 + 8 + 32..8 + 4 + 8 + 32 + 8].copy_from_slice(&v.to_le_bytes());
                            let d = cx.feed::<RepairRequest>(&m, "index out of range");
                            cx.rec.oracle(!matches!(d, Dec::Ok { .. }), "c19-out-of-range-index-accepted", || format!("rq {}: slice index {v} accepted", hex(&m)));
                        }
                    }
                    if k == 2 {
                        for v in [64u64, 65, u64::MAX] {
                            let mut m = b.clone();
                            let o = 8 + 4 + 8 + 32 + 8;
                            m[o..o + 8].copy_from_slice(&v.to_le_bytes());
                            let d = cx.feed::<RepairRequest>(&m, "index out of range");
                            cx.rec.oracle(!matches!(d, Dec::Ok { .. }), "c19-out-of-range-index-accepted", || format!("rq {}: shred index {v} accepted", hex(&m)));
                        }
                    }
                    cx.hostile::<RepairRequest>(&b, &mut rng, hostile_rounds);
                }
                Err(e) => cx.rec.oracle(false, "c19-own-encoding-rejected", || format!("rq {}: {e}", hex(&b))),
            }
            // responses; proofs up to the height of a full block (10) and beyond what fits
            let plen = { let r_ = rng.below(12) as usize; *rng.pick(&[0usize, 1, 6, 10, 11, r_]) };
            let proof: Vec<Hash> = (0..plen).map(|_| h32(&mut rng)).collect();
            let root: SliceRoot = h32(&mut rng).into();
            let resp = match rng.below(3) {
                0 => RepairResponse::LastSliceRoot(req.clone(), slice_index(si), root, DoubleMerkleProof::from(proof)),
                1 => RepairResponse::SliceRoot(req.clone(), root, DoubleMerkleProof::from(proof)),
                _ => RepairResponse::Nack(req.clone()),
            };
            let b = cx.emitted(&resp, "repair response", &mut rng);
            cx.hostile::<RepairResponse>(&b, &mut rng, hostile_rounds);
        }
        // proof vectors at the preallocation limit: 46 hashes = 1472 bytes <= 1500 < 47 hashes
        for plen in [46usize, 47] {
            let proof: Vec<Hash> = (0..plen).map(|_| h32(&mut rng)).collect();
            let resp = RepairResponse::SliceRoot(reqs[0].clone(), h32(&mut rng).into(), DoubleMerkleProof::from(proof));
            let b = resp.ser();
            let d = cx.feed::<RepairResponse>(&b, "proof vector at the preallocation limit");
            cx.rec.count(&format!("prealloc:{plen}:{}", matches!(d, Dec::Ok { .. })));
        }
        cx.rec.end_case(cx.class ^ (r as u64) << 24, cx.oks > 0 && cx.errs > 0);
    }

    // ---------------------------------------------------------------- transactions
    cx.class = 0;
    cx.oks = 0;
    cx.errs = 0;
    cx.rec.begin_case("transactions");
    let mut lens: Vec<usize> = vec![0, 1, 2, 255, 256, 511, 512];
    for _ in 0..if args.thorough { 200 } else { 20 } {
        lens.push(rng.below(513) as usize);
    }
    for l in lens {
        let tx = Transaction(rng.bytes(l));
        let b = cx.emitted(&tx, "transaction", &mut rng);
        cx.hostile::<Transaction>(&b, &mut rng, hostile_rounds);
    }
    // what the decoder accepts beyond what a correct node emits (MAX_TRANSACTION_SIZE = 512): format only
    for l in [513usize, 1000, 1492, 1493, 1500, 1501, 4096] {
        let b = Transaction(rng.bytes(l)).ser();
        let d = cx.feed::<Transaction>(&b, "oversize transaction");
        cx.rec.count(&format!("tx-len:{l}:{}", matches!(d, Dec::Ok { .. })));
    }
    // trailing bytes after a message that fills a whole datagram (a decoder that only looks at the first MTU bytes
    // would accept them): the accepted 1500-byte transaction followed by 1 .. 600 further bytes
    for extra in [1usize, 7, 8, 64, 600] {
        let mut b = Transaction(rng.bytes(MTU_BYTES - 8)).ser();
        let full = matches!(cx.feed::<Transaction>(&b, "datagram-filling transaction"), Dec::Ok { .. });
        b.extend(rng.bytes(extra));
        let d = cx.feed::<Transaction>(&b, "datagram-filling transaction + trailing bytes");
        cx.rec.oracle(!matches!(d, Dec::Ok { .. }), "c19-trailing-bytes-accepted", || format!("tx: a {}-byte input whose first {MTU_BYTES} bytes are a complete message (accepted alone: {full}) is accepted with {extra} trailing bytes", b.len()));
    }
    cx.rec.end_case(cx.class, cx.oks > 0 && cx.errs > 0);

    // ---------------------------------------------------------------- arbitrary byte strings
    cx.class = 0;
    cx.oks = 0;
    cx.errs = 0;
    cx.rec.begin_case("random-bytes");
    let nrand = if args.thorough { 20000 } else { 1500 };
    for _ in 0..nrand {
        let (r1, r2) = (rng.below(200) as usize, rng.below(1600) as usize);
        let l = *rng.pick(&[0usize, 1, 4, 8, 12, 16, 24, 60, 100, r1, r2]);
        let mut b = rng.bytes(l);
        // bias the leading tag and length-like fields towards small values so that decoding goes deep
        for j in (0..b.len()).step_by(4) {
            if rng.chance(2, 3) {
                b[j] %= 4;
                for k in 1..4 {
                    if j + k < b.len() && rng.chance(3, 4) {
                        b[j + k] = 0;
                    }
                }
            }
        }
        match rng.below(5) {
            0 => drop(cx.feed::<ConsensusMessage>(&b, "random")),
            1 => drop(cx.feed::<Transaction>(&b, "random")),
            2 => drop(cx.feed::<RepairRequest>(&b, "random")),
            3 => drop(cx.feed::<RepairResponse>(&b, "random")),
            _ => drop(cx.feed::<Shred>(&b, "random")),
        }
    }
    cx.rec.end_case(cx.class, cx.oks > 0 && cx.errs > 0);

    // ---------------------------------------------------------------- the UDP receive path (oracle only)
    // what a node really decodes with is `UdpNetwork::receive`: it must apply the same rule as `network::deserialize`
    // (a datagram with trailing or missing bytes is dropped, the next good datagram is delivered)
    {
        use alpenglow::network::{Network, UdpNetwork, localhost_ip_sockaddr};
        cx.rec.begin_case("udp-receive-path");
        let rt = tokio::runtime::Builder::new_current_thread().enable_all().build().expect("rt");
        let net: UdpNetwork<Transaction, Transaction> = { let _g = rt.enter(); UdpNetwork::new_with_any_port() };
        let sock = std::net::UdpSocket::bind("127.0.0.1:0").expect("bind");
        let to = localhost_ip_sockaddr(net.port());
        let n_rounds = if args.thorough { 40 } else { 8 };
        for k in 0..n_rounds {
            let glen = 1 + rng.below(400) as usize;
            let good = Transaction(rng.bytes(glen)).ser();
            let mut bad = good.clone();
            // (datagrams longer than the MTU are cut by the kernel to the receive buffer before any decoder sees them:
            //  not judged here)
            let kind = match k % 2 {
                0 => { let extra = 1 + rng.below(9) as usize; bad.extend(rng.bytes(extra)); "trailing bytes" }
                _ => { let cut = 1 + rng.below(4) as usize; bad.truncate(bad.len().saturating_sub(cut)); "truncated" }
            };
            let marker = Transaction({ let mut m = vec![0xC1, 0x9A, k as u8]; m.extend(rng.bytes(8)); m });
            let _ = sock.send_to(&bad, to);
            std::thread::sleep(std::time::Duration::from_millis(5));
            let _ = sock.send_to(&marker.ser(), to);
            let got = rt.block_on(async { tokio::time::timeout(std::time::Duration::from_secs(5), net.receive()).await });
            let got_bytes = match got { Ok(Ok(t)) => Some(t.0), _ => None };
            cx.rec.count(&format!("udp:{}", if got_bytes.is_some() { "received" } else { "timeout" }));
            // loss on loopback is not expected; a timeout is not judged (the property is about what is *delivered*)
            if let Some(g) = got_bytes {
                cx.rec.oracle(g == marker.0, "c19-udp-path-accepts-malformed", || format!("UdpNetwork::receive delivered a message of {} payload bytes decoded from a datagram with {kind} ({} bytes on the wire) instead of dropping it", g.len(), bad.len()));
                if g != marker.0 {
                    // drain the marker
                    let _ = rt.block_on(async { tokio::time::timeout(std::time::Duration::from_millis(500), net.receive()).await });
                }
            }
        }
        cx.rec.end_case(0, true);
    }

    let extra = serde_json::json!({ "validator_counts": ns, "slice_sizes": sizes.len(), "max_encoded_len": cx.max_len, "mtu": MTU_BYTES });
    cx.rec.finish(&args, extra);
}
