//! C13 — blockstore reconstruction: correspondence with `AgModel.Blockstore` + property oracle.
//!
//! Drives the real `BlockstoreImpl` (one slot per case) with really shredded, really signed blocks.
//! Ops / outputs: see `lean/Driver/C13.lean`.
use std::collections::HashMap;

use ag_harness::*;
use alpenglow::consensus::{Blockstore, BlockstoreEvent, BlockstoreImpl};
use alpenglow::crypto::Hash;
use alpenglow::crypto::merkle::{BlockHash, DoubleMerkleTree, SliceRoot};
use alpenglow::crypto::signature::SecretKey;
use alpenglow::shredder::{
    DATA_SHREDS, RegularShredder, ShredIndex, Shredder, TOTAL_SHREDS, ValidatedShred, verif_rs_encode,
    verif_shreds_from_raw,
};
use alpenglow::types::{Slice, SliceIndex, SlicePayload, Slot};
use alpenglow::{BlockId, Transaction};
use tokio::sync::mpsc;

#[path = "../shredwire.rs"]
mod shredwire;

fn slice_index(i: usize) -> SliceIndex {
    wincode::deserialize::<SliceIndex>(&(i as u64).to_le_bytes()).expect("slice index in range")
}
fn si_usize(s: SliceIndex) -> usize {
    s.to_string().parse().unwrap()
}
fn hash_from(bytes: &[u8]) -> Hash {
    wincode::deserialize::<Hash>(bytes).expect("32 bytes")
}
fn tx_bytes(id: u64) -> Vec<u8> {
    let mut v = id.to_le_bytes().to_vec();
    v.extend(std::iter::repeat_n(0xabu8, (id % 5) as usize));
    v
}
fn tx_id(tx: &Transaction) -> u64 {
    let mut b = [0u8; 8];
    if tx.0.len() >= 8 {
        b.copy_from_slice(&tx.0[..8]);
        u64::from_le_bytes(b)
    } else {
        u64::MAX
    }
}
fn checksum(ids: &[u64]) -> u64 {
    ids.iter().fold(7u64, |c, t| (c * 31 + t + 1) % 1_000_000_007)
}

#[derive(Clone, Debug, PartialEq)]
enum Txs {
    Ids(Vec<u64>),
    /// big transactions (id in the first 8 bytes), to fill a slice
    Big(Vec<u64>),
    Undecodable,
}
#[derive(Clone, Debug, PartialEq)]
enum Kind {
    Normal,
    /// one coding shard corrupted before the Merkle tree is built and signed
    NonCodeword,
    /// payload bytes that are not a `SlicePayload`
    BadPayload,
    /// shard `k` shortened by two bytes
    MixedSize(usize),
}
#[derive(Clone, Debug)]
struct Spec {
    index: usize,
    is_last: bool,
    parent: Option<(u64, usize)>,
    txs: Txs,
    kind: Kind,
}
#[derive(Clone)]
struct Built {
    spec: Spec,
    shreds: Vec<ValidatedShred>,
    rid: u64,
    root: SliceRoot,
}

struct World {
    rec: Recorder,
    rt: tokio::runtime::Runtime,
    store: BlockstoreImpl,
    rx: mpsc::Receiver<BlockstoreEvent>,
    slot: u64,
    roots: HashMap<Vec<u8>, u64>,
    hashes: Vec<(u64, BlockHash)>,
    parents: Vec<BlockHash>,
    sk: SecretKey,
    class: u64,
    events: Vec<String>,
    /// oracle-only section (several slots, concurrency): nothing is written to the compared stream
    mute: bool,
}

/// one call into the blockstore of the back-pressure case
#[derive(Clone)]
enum FeedOp {
    Dis(ValidatedShred),
    Own(SlicePayload, Box<[ValidatedShred; TOTAL_SHREDS]>),
}
/// (kind, slot, hash of an announced block)
type Ev = (&'static str, u64, Option<BlockHash>);

/// Runs `ops` on a fresh blockstore whose channel to the consumer holds `cap` events, concurrently with a consumer
/// that starts `start_lag` scheduler turns late and pauses `lag` turns after every event (one current-thread
/// runtime, `join!`, no timers: deterministic).  Returns the events in arrival order and the hashes of the blocks
/// returned to the caller.
fn run_with_consumer(rt: &tokio::runtime::Runtime, ops: &[FeedOp], cap: usize, start_lag: usize, lag: usize) -> Result<(Vec<Ev>, Vec<BlockHash>), String> {
    catch(|| {
        rt.block_on(async {
            let (tx, mut rx) = mpsc::channel(cap);
            let mut store = BlockstoreImpl::new(tx);
            let feeder = async move {
                let mut returned = vec![];
                for op in ops.iter().cloned() {
                    let r = match op {
                        FeedOp::Dis(s) => store.add_shred_from_dissemination(s).await.ok().flatten(),
                        FeedOp::Own(p, a) => store.add_own_slice(p, a).await,
                    };
                    if let Some(info) = r {
                        returned.push(info.verif_hash().clone());
                    }
                }
                drop(store); // closes the channel: the consumer sees the end of the stream
                returned
            };
            let consumer = async {
                for _ in 0..start_lag {
                    tokio::task::yield_now().await;
                }
                let mut evs: Vec<Ev> = vec![];
                while let Some(e) = rx.recv().await {
                    evs.push(match e {
                        BlockstoreEvent::FirstShred(s) => ("first", s.inner(), None),
                        BlockstoreEvent::InvalidBlock(s) => ("invalid", s.inner(), None),
                        BlockstoreEvent::Block { slot, block_info } => ("block", slot.inner(), Some(block_info.verif_hash().clone())),
                    });
                    for _ in 0..lag {
                        tokio::task::yield_now().await;
                    }
                }
                evs
            };
            let (returned, evs) = tokio::join!(feeder, consumer);
            (evs, returned)
        })
    })
}

impl World {
    fn new_store() -> (BlockstoreImpl, mpsc::Receiver<BlockstoreEvent>) {
        let (tx, rx) = mpsc::channel(100_000);
        (BlockstoreImpl::new(tx), rx)
    }
    fn begin(&mut self, tag: &str, slot: u64) {
        self.rec.begin_case(tag);
        self.roots.clear();
        self.hashes.clear();
        self.class = fnv(0, tag);
        self.init(slot);
    }
    fn init(&mut self, slot: u64) {
        let (s, rx) = Self::new_store();
        self.store = s;
        self.rx = rx;
        self.slot = slot;
        self.events.clear();
        self.rec.step(&format!("init {slot}"), "ok");
    }
    fn parent_str(&self, p: &Option<(u64, usize)>) -> String {
        match p {
            None => "-".into(),
            Some((s, h)) => format!("{s}:{h}"),
        }
    }
    fn txs_str(t: &Txs) -> String {
        match t {
            Txs::Undecodable => "x".into(),
            Txs::Ids(v) | Txs::Big(v) if v.is_empty() => "e".into(),
            Txs::Ids(v) | Txs::Big(v) => v.iter().map(|x| x.to_string()).collect::<Vec<_>>().join(","),
        }
    }
    fn data_of(t: &Txs) -> Vec<u8> {
        match t {
            Txs::Undecodable => vec![0xff; 11],
            Txs::Ids(v) => wincode::serialize(&v.iter().map(|i| Transaction(tx_bytes(*i))).collect::<Vec<_>>()).unwrap(),
            Txs::Big(v) => wincode::serialize(
                &v.iter()
                    .map(|i| {
                        let mut b = tx_bytes(*i);
                        b.resize(500, 0x5a);
                        Transaction(b)
                    })
                    .collect::<Vec<_>>(),
            )
            .unwrap(),
        }
    }
    fn real_parent(&self, p: &Option<(u64, usize)>) -> Option<BlockId> {
        p.map(|(s, h)| (Slot::new(s), self.parents[h].clone()))
    }
    fn payload_bytes(&self, spec: &Spec) -> Vec<u8> {
        let mut buf = wincode::serialize(&self.real_parent(&spec.parent)).unwrap();
        buf.extend(wincode::serialize(&Self::data_of(&spec.txs)).unwrap());
        buf
    }
    /// what a leader holding `sk` signs for this slice spec
    fn build(&mut self, spec: &Spec) -> Built {
        let slot = Slot::new(self.slot);
        let shreds: Vec<ValidatedShred> = match &spec.kind {
            Kind::Normal => {
                let slice = Slice {
                    slot,
                    slice_index: slice_index(spec.index),
                    is_last: spec.is_last,
                    parent: self.real_parent(&spec.parent),
                    data: Self::data_of(&spec.txs),
                };
                RegularShredder::default().shred(&slice, &self.sk).expect("fits").to_vec()
            }
            Kind::NonCodeword => {
                let (data, mut coding) = verif_rs_encode(&self.payload_bytes(spec)).unwrap();
                coding[5][0] ^= 1;
                verif_shreds_from_raw(slot, slice_index(spec.index), spec.is_last, data, coding, &self.sk).to_vec()
            }
            Kind::BadPayload => {
                let (data, coding) = verif_rs_encode(&[0xffu8; 50]).unwrap();
                verif_shreds_from_raw(slot, slice_index(spec.index), spec.is_last, data, coding, &self.sk).to_vec()
            }
            Kind::MixedSize(k) => {
                let (mut data, mut coding) = verif_rs_encode(&self.payload_bytes(spec)).unwrap();
                let sh = if *k < DATA_SHREDS { &mut data[*k] } else { &mut coding[*k - DATA_SHREDS] };
                let n = sh.len();
                sh.truncate(n - 2);
                verif_shreds_from_raw(slot, slice_index(spec.index), spec.is_last, data, coding, &self.sk).to_vec()
            }
        };
        let root = shreds[0].slice_root().clone();
        let key = root.as_ref().to_vec();
        let rid = match self.roots.get(&key) {
            Some(r) => *r,
            None => {
                let r = self.roots.len() as u64 + 1;
                self.roots.insert(key, r);
                let op = match spec.kind {
                    Kind::Normal => format!("root {r} ok {} {}", self.parent_str(&spec.parent), Self::txs_str(&spec.txs)),
                    _ => format!("root {r} bad"),
                };
                if !self.mute {
                    self.rec.step(&op, "ok");
                }
                r
            }
        };
        Built { spec: spec.clone(), shreds, rid, root }
    }
    fn declare_hash(&mut self, built: &[&Built]) -> (u64, BlockHash) {
        let roots: Vec<SliceRoot> = built.iter().map(|b| b.root.clone()).collect();
        let h = DoubleMerkleTree::new(roots.iter()).get_root();
        let hid = self.hashes.len() as u64;
        let ids = built.iter().map(|b| b.rid.to_string()).collect::<Vec<_>>().join(" ");
        self.rec.step(&format!("hash {hid} {ids}"), "ok");
        self.hashes.push((hid, h.clone()));
        (hid, h)
    }
    fn declare_junk(&mut self, rng: &mut Rng) -> (u64, BlockHash) {
        let h: BlockHash = hash_from(&rng.bytes(32)).into();
        let hid = self.hashes.len() as u64;
        self.rec.step(&format!("hash {hid} junk"), "ok");
        self.hashes.push((hid, h.clone()));
        (hid, h)
    }
    fn hid(&self, h: &BlockHash) -> String {
        self.hashes.iter().find(|(_, x)| x == h).map(|(i, _)| i.to_string()).unwrap_or("h?".into())
    }
    fn ph(&self, h: &BlockHash) -> String {
        self.parents.iter().position(|x| x == h).map(|i| i.to_string()).unwrap_or("p?".into())
    }
    fn info_str(&self, hash: &BlockHash, parent: &BlockId) -> String {
        format!("{} {}:{}", self.hid(hash), parent.0.inner(), self.ph(&parent.1))
    }
    fn drain(&mut self) -> String {
        let mut out = vec![];
        while let Ok(e) = self.rx.try_recv() {
            let s = match &e {
                BlockstoreEvent::FirstShred(_) => "first".to_string(),
                BlockstoreEvent::InvalidBlock(_) => "invalid".to_string(),
                BlockstoreEvent::Block { block_info, .. } => {
                    format!("block {}", self.info_str(block_info.verif_hash(), block_info.verif_parent()))
                }
            };
            self.rec.count(&format!("event:{}", s.split(' ').next().unwrap()));
            self.events.push(s.clone());
            out.push(format!("[{s}]"));
        }
        out.join(" ")
    }
    fn attrs(&self, vs: &ValidatedShred) -> String {
        let (_, si, il, idx, data) = vs.payload().verif_parts();
        let rid = self.roots.get(vs.slice_root().as_ref()).copied().unwrap_or(0);
        let sz = if data.is_empty() || data.len() % 2 == 1 { 0 } else { data.len() };
        let ty = vs.is_data() == (idx < DATA_SHREDS);
        format!("{} {} {} {} {} {}", si_usize(si), il as u8, rid, idx, sz, ty as u8)
    }
    /// D34: just before the genuine shred `vs` arrives from dissemination, a copy whose signature bytes a relay replaced
    /// by garbage arrives and is validated as the node does - `ValidatedShred::try_new` with the blockstore's cached
    /// commitment of the slice. It must be refused as `InvalidSignature` (oracle only, nothing goes to the compared
    /// stream). If it is accepted it is stored, exactly as the node would: the step, event and served-shred oracles
    /// of the case then show the consequences (the genuine shred becomes a duplicate, `get_shred` serves the garbage,
    /// `deshred` copies it into the regenerated shreds).
    fn junk_sig_attempt(&mut self, vs: &ValidatedShred, rng: &mut Rng) {
        let mut w = shredwire::Wire::of(vs.as_shred());
        w.sig = rng.bytes(64);
        let Some(junk) = w.decode() else { return };
        let (slot, si, _, idx, _) = vs.payload().verif_parts();
        let cached = self.store.cached_commitment(slot, si);
        let pk = self.sk.to_pk();
        let r = catch(|| ValidatedShred::try_new(junk, cached.as_ref(), &pk));
        let verdict = match &r {
            Err(_) => "panic",
            Ok(Ok(_)) => "accepted",
            Ok(Err(alpenglow::shredder::ShredValidationError::InvalidSignature)) => "InvalidSignature",
            Ok(Err(alpenglow::shredder::ShredValidationError::Equivocation)) => "Equivocation",
        };
        self.rec.count(&format!("junk-signature:cache={}:{verdict}", cached.is_some()));
        self.rec.oracle(verdict == "InvalidSignature", "unverified-signature-accepted-on-cache-hit", || {
            format!("shred {idx} of slice {} of slot {} of a correct leader, signature bytes replaced by garbage, validated with the blockstore's cached commitment (present: {}): try_new answered {verdict}", si_usize(si), slot.inner(), cached.is_some())
        });
        if let Ok(Ok(v)) = r {
            let _ = catch(|| self.rt.block_on(self.store.add_shred_from_dissemination(v)));
        }
    }
    /// D15: a genuine shred of the correct leader whose (unauthenticated) data/coding type a relay flipped arrives from
    /// dissemination: it passes `try_new` (with the cached commitment, as the node validates) and is handed to the
    /// blockstore, through `feed` (compared with the model: attribute `ty = 0`). It must be ignored: `WrongType`, no
    /// event - the step / event / served-shred oracles of the case go on as if it had never arrived.
    fn type_flip_attempt(&mut self, vs: &ValidatedShred) {
        let mut w = shredwire::Wire::of(vs.as_shred());
        w.tag ^= 1;
        let Some(flipped) = w.decode() else { return };
        let (slot, si, _, idx, _) = vs.payload().verif_parts();
        let cached = self.store.cached_commitment(slot, si);
        let pk = self.sk.to_pk();
        let Ok(v) = ValidatedShred::try_new(flipped, cached.as_ref(), &pk) else {
            self.rec.count("type-flip:refused-by-try_new");
            return;
        };
        let nev = self.events.len();
        let r = self.feed(&v, None);
        self.rec.count(&format!("type-flip:{r}"));
        let quiet = self.events.len() == nev;
        self.rec.oracle(r == "wrongtype" && quiet, "relayed-type-flip-not-ignored", || {
            format!("shred {idx} of slice {} of slot {} of a correct leader with its data/coding type flipped by a relay (passes try_new): add_shred_from_dissemination answered `{r}`, new events {:?}; it must be ignored (WrongType, nothing stored, nobody flagged)", si_usize(si), slot.inner(), &self.events[nev..])
        });
    }
    /// feeds one shred; `rep` = Some(hash id, hash) for the repair path
    fn feed(&mut self, vs: &ValidatedShred, rep: Option<&(u64, BlockHash)>) -> String {
        let a = self.attrs(vs);
        let op = match rep {
            None => format!("dis {a}"),
            Some((hid, _)) => format!("rep {hid} {a}"),
        };
        let vs = vs.clone();
        let store = &mut self.store;
        let rt = &self.rt;
        let res = catch(|| match rep {
            None => rt.block_on(store.add_shred_from_dissemination(vs)),
            Some((_, h)) => rt.block_on(store.add_shred_from_repair(h.clone(), vs)),
        });
        let r = match &res {
            Err(_) => "panic".to_string(),
            Ok(Ok(None)) => "none".to_string(),
            Ok(Ok(Some(info))) => format!("block {}", self.info_str(info.verif_hash(), info.verif_parent())),
            Ok(Err(e)) => match e {
                alpenglow::consensus::AddShredError::Duplicate => "dup",
                alpenglow::consensus::AddShredError::Equivocation => "equiv",
                alpenglow::consensus::AddShredError::InvalidShred => "invalidshred",
                // (`WrongType` since the D15 fix; matched by name so that the harness also builds against a tree without it)
                #[allow(unreachable_patterns)]
                other if format!("{other:?}") == "WrongType" => "wrongtype",
                #[allow(unreachable_patterns)]
                _ => "other-error",
            }
            .to_string(),
        };
        self.rec.count(&format!("verdict:{}", r.split(' ').next().unwrap()));
        self.rec.oracle(res.is_ok(), "blockstore-add-shred-panics", || format!("{op}: panicked: {:?}", res.as_ref().err()));
        let evs = self.drain();
        let out = format!("{r} | {evs}");
        self.class = fnv(self.class, &format!("{}{}", r.split(' ').next().unwrap(), evs.len()));
        self.rec.step(&op, &out);
        r
    }
    fn own(&mut self, b: &Built) -> String {
        let (_, _, _, _, data) = b.shreds[0].payload().verif_parts();
        let sz = data.len();
        let op = format!(
            "own {} {} {} {} {} {}",
            b.spec.index,
            b.spec.is_last as u8,
            b.rid,
            sz,
            self.parent_str(&b.spec.parent),
            Self::txs_str(&b.spec.txs)
        );
        let payload = SlicePayload::try_from(self.payload_bytes(&b.spec).as_slice()).expect("payload");
        let arr: Box<[ValidatedShred; TOTAL_SHREDS]> = Box::new(b.shreds.clone().try_into().map_err(|_| ()).expect("64"));
        let store = &mut self.store;
        let rt = &self.rt;
        let res = catch(|| rt.block_on(store.add_own_slice(payload, arr)));
        let r = match &res {
            Err(_) => "panic".to_string(),
            Ok(None) => "none".to_string(),
            Ok(Some(info)) => format!("block {}", self.info_str(info.verif_hash(), info.verif_parent())),
        };
        let evs = self.drain();
        self.rec.step(&op, &format!("{r} | {evs}"));
        r
    }
    fn bid(&self, h: &BlockHash) -> BlockId {
        (Slot::new(self.slot), h.clone())
    }
    fn q_dh(&mut self) -> Option<BlockHash> {
        let r = self.store.disseminated_block_hash(Slot::new(self.slot)).cloned();
        let out = r.as_ref().map(|h| self.hid(h)).unwrap_or("-".into());
        self.rec.step("q dh", &out);
        r
    }
    fn q_blk(&mut self, hid: u64, h: &BlockHash) -> Option<(BlockHash, BlockId, Vec<u64>)> {
        let r = self.store.get_block(&self.bid(h)).map(|b| {
            (b.verif_hash().clone(), b.verif_parent(), b.verif_transactions().iter().map(tx_id).collect::<Vec<_>>())
        });
        let out = match &r {
            None => "-".to_string(),
            Some((hash, parent, ids)) => format!("{} {} {}", self.info_str(hash, parent), ids.len(), checksum(ids)),
        };
        self.rec.step(&format!("q blk {hid}"), &out);
        r
    }
    fn q_last(&mut self, hid: u64, h: &BlockHash) -> Option<usize> {
        let r = self.store.get_last_slice_index(&self.bid(h)).map(si_usize);
        self.rec.step(&format!("q last {hid}"), &r.map(|x| x.to_string()).unwrap_or("-".into()));
        r
    }
    fn q_root(&mut self, hid: u64, h: &BlockHash, slice: usize) -> Option<SliceRoot> {
        let r = self.store.get_slice_root(&self.bid(h), slice_index(slice));
        let out = r.as_ref().map(|x| self.roots.get(x.as_ref()).copied().unwrap_or(0).to_string()).unwrap_or("-".into());
        self.rec.step(&format!("q root {hid} {slice}"), &out);
        r
    }
    fn q_shred(&mut self, hid: u64, h: &BlockHash, slice: usize, idx: usize) -> Option<ValidatedShred> {
        let r = self.store.get_shred(&self.bid(h), slice_index(slice), ShredIndex::new(idx).unwrap()).cloned();
        let out = r.as_ref().map(|s| self.attrs(s)).unwrap_or("-".into());
        self.rec.step(&format!("q shred {hid} {slice} {idx}"), &out);
        r
    }
    fn q_cc(&mut self, slice: usize) {
        // the commitment is opaque: compare it with the commitments of the shreds we built (done by the caller
        // through the model); here we print only presence + which built commitment it equals
        let r = self.store.cached_commitment(Slot::new(self.slot), slice_index(slice));
        let out = match r {
            None => "-".to_string(),
            Some(c) => {
                let b: &[u8] = c.as_ref();
                let il = b[16];
                let rid = self.roots.get(&b[17..49]).copied().unwrap_or(0);
                let sl = u64::from_le_bytes(b[8..16].try_into().unwrap());
                format!("{sl} {il} {rid}")
            }
        };
        self.rec.step(&format!("q cc {slice}"), &out);
    }
    /// returns (proof verifies, proof verifies as last)
    fn q_proof(&mut self, hid: u64, h: &BlockHash, slice: usize) -> Option<(bool, bool)> {
        let bid = self.bid(h);
        let store = &self.store;
        let res = catch(|| store.create_double_merkle_proof(&bid, slice_index(slice)));
        let (out, r) = match res {
            Err(_) => ("panic".to_string(), None),
            Ok(None) => ("-".to_string(), None),
            Ok(Some(p)) => {
                let root = self.store.get_slice_root(&bid, slice_index(slice));
                let (a, b) = match &root {
                    Some(root) => (DoubleMerkleTree::check_proof(root, slice, h, &p), DoubleMerkleTree::check_proof_last(root, slice, h, &p)),
                    None => (false, false),
                };
                let n: &[Hash] = p.as_ref();
                (format!("len {} {} {}", n.len(), a as u8, b as u8), Some((a, b)))
            }
        };
        self.rec.step(&format!("q proof {hid} {slice}"), &out);
        r
    }
    fn count_ev(&self, prefix: &str) -> usize {
        self.events.iter().filter(|e| e.starts_with(prefix)).count()
    }
}

/// an honest block shape
fn honest_specs(rng: &mut Rng, n: usize, slot: u64, nparents: usize, full: bool) -> Vec<Spec> {
    let mut next_tx = 1u64;
    let switch_at = if n > 1 && rng.chance(1, 2) { Some(rng.range(1, n as u64 - 1) as usize) } else { None };
    (0..n)
        .map(|i| {
            let parent = if i == 0 {
                Some((rng.below(slot), 0usize))
            } else if Some(i) == switch_at {
                Some((rng.below(slot), 1 + rng.below(nparents as u64 - 1) as usize))
            } else {
                None
            };
            let k = rng.below(4);
            let mut ids = vec![];
            for _ in 0..k {
                ids.push(next_tx);
                next_tx += 1;
            }
            let txs = if full && i == n / 2 && rng.chance(1, 2) {
                // many small transactions: more elements than the slice has bytes / 24 (decoders that bound the
                // *memory* of the decoded vector by the slice size refuse such a slice)
                let v: Vec<u64> = (0..1400 + rng.below(200)).map(|j| 100_000 + j).collect();
                Txs::Ids(v)
            } else if full && i == n / 2 {
                let v: Vec<u64> = (0..60).map(|j| 1000 + j).collect();
                Txs::Big(v)
            } else {
                Txs::Ids(ids)
            };
            Spec { index: i, is_last: i == n - 1, parent, txs, kind: Kind::Normal }
        })
        .collect()
}

/// a delivery: (slice position in `built`, shred index) pairs
fn delivery(rng: &mut Rng, nslices: usize, min_per_slice: usize, short_slice: Option<usize>) -> Vec<(usize, usize)> {
    let mut per_slice: Vec<Vec<usize>> = vec![];
    for s in 0..nslices {
        let mut idx: Vec<usize> = (0..TOTAL_SHREDS).collect();
        let cnt = if Some(s) == short_slice {
            rng.below(DATA_SHREDS as u64) as usize
        } else {
            match rng.below(4) {
                0 => min_per_slice,
                1 => TOTAL_SHREDS,
                2 => min_per_slice + 1,
                _ => rng.range(min_per_slice as u64, TOTAL_SHREDS as u64) as usize,
            }
        };
        match rng.below(4) {
            0 => {}
            1 => idx.reverse(),
            2 => idx.rotate_left(16),
            _ => rng.shuffle(&mut idx),
        }
        idx.truncate(cnt);
        per_slice.push(idx);
    }
    let mut all: Vec<(usize, usize)> = vec![];
    match rng.below(5) {
        0 => {
            for (s, v) in per_slice.iter().enumerate() {
                all.extend(v.iter().map(|i| (s, *i)));
            }
        }
        1 => {
            for (s, v) in per_slice.iter().enumerate().rev() {
                all.extend(v.iter().map(|i| (s, *i)));
            }
        }
        2 => {
            // slice-interleaved round robin
            let m = per_slice.iter().map(|v| v.len()).max().unwrap_or(0);
            for k in 0..m {
                for (s, v) in per_slice.iter().enumerate() {
                    if k < v.len() {
                        all.push((s, v[k]));
                    }
                }
            }
        }
        _ => {
            for (s, v) in per_slice.iter().enumerate() {
                all.extend(v.iter().map(|i| (s, *i)));
            }
            rng.shuffle(&mut all);
        }
    }
    // duplicates
    let dups = rng.below(1 + all.len() as u64 / 8) as usize;
    for _ in 0..dups {
        let d = all[rng.below(all.len() as u64) as usize];
        let pos = rng.below(all.len() as u64 + 1) as usize;
        all.insert(pos, d);
    }
    all
}

fn shred_bytes(v: &ValidatedShred) -> Vec<u8> {
    wincode::serialize(v.as_shred()).unwrap()
}

/// after a complete honest delivery: everything is served and verifies
fn check_served(w: &mut World, hid: u64, h: &BlockHash, built: &[Built], specs_parent: (u64, usize), all_txs: &[u64], rng: &mut Rng, exhaustive: bool) {
    let n = built.len();
    let dh = w.q_dh();
    w.rec.oracle(dh.as_ref() == Some(h), "served-disseminated-hash", || format!("disseminated_block_hash != double-Merkle root of the leader's slice roots ({n} slices)"));
    let blk = w.q_blk(hid, h);
    let exp_parent = (Slot::new(specs_parent.0), w.parents[specs_parent.1].clone());
    w.rec.oracle(
        blk.as_ref().is_some_and(|(bh, bp, ids)| bh == h && *bp == exp_parent && ids == all_txs),
        "served-block-content",
        || format!("get_block does not return the leader's block (hash/parent/transactions): got {:?}", blk.as_ref().map(|(_, p, ids)| (p.0.inner(), ids.len()))),
    );
    let last = w.q_last(hid, h);
    w.rec.oracle(last == Some(n - 1), "served-last-slice", || format!("get_last_slice_index = {last:?}, block has {n} slices"));
    for (s, b) in built.iter().enumerate() {
        let r = w.q_root(hid, h, s);
        w.rec.oracle(r.as_ref() == Some(&b.root), "served-slice-root", || format!("slice root of slice {s} not served / wrong"));
        let p = w.q_proof(hid, h, s);
        w.rec.oracle(p.is_some_and(|(a, l)| a && l == (s == n - 1)), "served-proof-verifies", || format!("double-Merkle proof of slice {s}/{n}: {p:?}"));
        let idxs: Vec<usize> = if exhaustive { (0..TOTAL_SHREDS).collect() } else { vec![0, 31, 32, 63, rng.below(64) as usize, rng.below(64) as usize] };
        for i in idxs {
            let got = w.q_shred(hid, h, s, i);
            let want = &b.shreds[i];
            w.rec.oracle(
                got.as_ref().is_some_and(|g| shred_bytes(g) == shred_bytes(want) && g.as_shred().verify_path_only(&b.root)),
                "served-shred-identical",
                || format!("shred {s}/{i} not served or differs from the leader's output"),
            );
        }
    }
    w.q_cc(0);
    w.q_cc(n - 1);
    w.q_cc(n);
}

fn final_parent(specs: &[Spec]) -> (u64, usize) {
    let mut p = specs[0].parent.unwrap();
    for s in &specs[1..] {
        if let Some(q) = s.parent {
            p = q;
        }
    }
    p
}
fn all_txs(specs: &[Spec]) -> Vec<u64> {
    specs.iter().flat_map(|s| match &s.txs { Txs::Ids(v) | Txs::Big(v) => v.clone(), Txs::Undecodable => vec![] }).collect()
}

fn main() {
    let args = Args::parse();
    quiet_panics();
    let mut rng = Rng::new(args.seed);
    let rt = tokio::runtime::Builder::new_current_thread().enable_all().build().unwrap();
    let (store, rx) = World::new_store();
    let mut krng = rng.fork();
    let sk = SecretKey::new(&mut krng);
    let nparents = 4;
    let parents: Vec<BlockHash> = (0..nparents).map(|_| hash_from(&rng.bytes(32)).into()).collect();
    let mut w = World {
        rec: Recorder::new(),
        rt,
        store,
        rx,
        slot: 1,
        roots: HashMap::new(),
        hashes: vec![],
        parents,
        sk,
        class: 0,
        events: vec![],
        mute: false,
    };
    let rounds = if args.thorough { 60 } else { 20 };
    let max_n = if args.thorough { 10 } else { 6 };

    for round in 0..rounds {
        // ---------------- honest blocks, complete deliveries ----------------
        for n in 1..=max_n {
            let slot = rng.range(1, 40);
            w.begin("honest", slot);
            let specs = honest_specs(&mut rng, n, slot, nparents, round % 3 == 0);
            let built: Vec<Built> = specs.iter().map(|s| w.build(s)).collect();
            let (hid, h) = w.declare_hash(&built.iter().collect::<Vec<_>>());
            let del = delivery(&mut rng, n, DATA_SHREDS, None);
            let fp = final_parent(&specs);
            let exp_block = format!("block {hid} {}:{}", fp.0, fp.1);
            // every step exactly as `honest_step_exact` / `honest_block_timely` say, recounted here on
            // the implementation: Duplicate iff this very shred was stored or its slice already had 32
            // distinct shreds; Block returned and announced in exactly the step in which, for the first
            // time, every slice has 32 distinct shreds; FirstShred in the first step only
            let mut seen: Vec<std::collections::HashSet<usize>> = vec![Default::default(); n];
            let mut step_bad: Option<String> = None;
            let mut junk_tried = vec![false; n];
            for (k, (s, i)) in del.iter().enumerate() {
                let enough_before = seen.iter().all(|v| v.len() >= DATA_SHREDS);
                let dup_exp = seen[*s].contains(i) || seen[*s].len() >= DATA_SHREDS;
                // D34: once per slice, before the lowest-index shred seen so far (not the first of its slice) arrives
                if !junk_tried[*s] && !seen[*s].is_empty() && seen[*s].len() < DATA_SHREDS && seen[*s].iter().all(|j| j > i) {
                    junk_tried[*s] = true;
                    w.junk_sig_attempt(&built[*s].shreds[*i], &mut rng);
                }
                // D15: now and then a relay's type-flipped copy of some shred of the block arrives first (never as the
                // very first shred of the slot: `FirstShred` accounting below starts with a genuine one)
                if k > 0 && rng.chance(1, 8) {
                    let (fs, fi) = (rng.below(n as u64) as usize, rng.below(64) as usize);
                    w.type_flip_attempt(&built[fs].shreds[fi]);
                }
                let nev = w.events.len();
                let r = w.feed(&built[*s].shreds[*i], None);
                seen[*s].insert(*i);
                let enough_after = seen.iter().all(|v| v.len() >= DATA_SHREDS);
                let now = !enough_before && enough_after;
                let exp = if dup_exp { "dup".to_string() } else if now { exp_block.clone() } else { "none".to_string() };
                let mut exp_ev: Vec<String> = vec![];
                if k == 0 {
                    exp_ev.push("first".to_string());
                }
                if now {
                    exp_ev.push(exp_block.clone());
                }
                if (r != exp || w.events[nev..] != exp_ev[..]) && step_bad.is_none() {
                    step_bad = Some(format!(
                        "step {k} (slice {s}, shred {i}, {} distinct of it before): returned `{r}` with events {:?}, expected `{exp}` with {:?}; {n} slices",
                        seen[*s].len() - 1,
                        &w.events[nev..],
                        exp_ev
                    ));
                }
            }
            w.rec.oracle(step_bad.is_none(), "honest-step-exact", || step_bad.clone().unwrap_or_default());
            let nfirst = w.count_ev("first");
            w.rec.oracle(w.events.first().map(String::as_str) == Some("first") && nfirst == 1, "honest-first-shred-once", || {
                format!("FirstShred events: {} (first event {:?}); {n} slices, delivery {:?}", nfirst, w.events.first(), &del[..del.len().min(12)])
            });
            w.rec.oracle(w.count_ev("block") == 1 && w.events.contains(&exp_block), "honest-block-once", || {
                format!("events {:?}, expected exactly one `{exp_block}`; {n} slices, specs {:?}, delivery {:?}", w.events, specs, &del[..del.len().min(12)])
            });
            w.rec.oracle(w.count_ev("invalid") == 0, "honest-never-invalid", || format!("InvalidBlock for an honest block: events {:?}; specs {:?}", w.events, specs));
            let txs = all_txs(&specs);
            check_served(&mut w, hid, &h, &built, fp, &txs, &mut rng, n <= 2);
            // late duplicates change nothing
            for _ in 0..4 {
                let s = rng.below(n as u64) as usize;
                let r = w.feed(&built[s].shreds[rng.below(64) as usize], None);
                w.rec.oracle(r == "dup", "honest-late-shred-duplicate", || format!("late shred of a completed block returned {r}"));
            }
            w.rec.oracle(w.count_ev("block") == 1 && w.count_ev("first") == 1 && w.count_ev("invalid") == 0, "honest-events-stable", || format!("events after late shreds {:?}", w.events));

            // ---- leader fast path stores the same block
            w.init(slot);
            for b in &built {
                let r = w.own(b);
                w.rec.oracle((r != "none") == b.spec.is_last && r != "panic", "own-slice-result", || format!("add_own_slice({}) returned {r}", b.spec.index));
            }
            w.rec.oracle(w.events.len() == 2 && w.events[0] == "first" && w.events[1] == exp_block, "own-events", || format!("fast path events {:?}, expected [first, {exp_block}]", w.events));
            check_served(&mut w, hid, &h, &built, fp, &txs, &mut rng, n <= 2);
            let c = w.class;
            w.rec.end_case(c, true);
        }

        // ---------------- honest block, one slice short: nothing announced ----------------
        {
            let n = rng.range(1, max_n as u64) as usize;
            let slot = rng.range(1, 40);
            w.begin("honest-incomplete", slot);
            let specs = honest_specs(&mut rng, n, slot, nparents, false);
            let built: Vec<Built> = specs.iter().map(|s| w.build(s)).collect();
            let (hid, h) = w.declare_hash(&built.iter().collect::<Vec<_>>());
            let short = rng.below(n as u64) as usize;
            let del = delivery(&mut rng, n, DATA_SHREDS, Some(short));
            for (s, i) in &del {
                w.feed(&built[*s].shreds[*i], None);
            }
            w.rec.oracle(w.count_ev("block") == 0 && w.count_ev("invalid") == 0, "incomplete-no-block", || format!("events {:?} although slice {short} had < 32 shreds", w.events));
            w.q_dh();
            w.q_blk(hid, &h);
            w.q_last(hid, &h);
            w.q_root(hid, &h, short);
            w.q_proof(hid, &h, 0);
            // now complete it
            for i in 0..TOTAL_SHREDS {
                w.feed(&built[short].shreds[i], None);
            }
            w.rec.oracle(w.count_ev("block") == 1 && w.count_ev("invalid") == 0 && w.count_ev("first") == 1, "honest-block-once", || format!("events {:?} after completing slice {short}", w.events));
            w.rec.oracle(w.count_ev("invalid") == 0, "honest-never-invalid", || format!("InvalidBlock for an honest block delivered in two parts: events {:?}; specs {:?}", w.events, specs));
            let fp = final_parent(&specs);
            let txs = all_txs(&specs);
            check_served(&mut w, hid, &h, &built, fp, &txs, &mut rng, false);
            let c = w.class;
            w.rec.end_case(c, true);
        }

        // ---------------- malformed blocks (one consistent but invalid block) ----------------
        for class in 0..9 {
            let n = rng.range(if class >= 5 && class <= 6 { 3 } else { 1 }, max_n.max(3) as u64) as usize;
            let slot = rng.range(2, 40);
            let tag = ["bad-noncodeword", "bad-payload", "bad-txs", "bad-mixed-size", "bad-no-parent", "bad-switch-twice", "bad-switch-same", "bad-parent-slot", "bad-switch-parent-slot"][class];
            w.begin(tag, slot);
            let mut specs = honest_specs(&mut rng, n, slot, nparents, false);
            let j = rng.below(n as u64) as usize;
            // which slice must be reconstructed for the malformation to be revealed; None = whole block
            let mut reveal_slice = Some(j);
            match class {
                0 => specs[j].kind = Kind::NonCodeword,
                1 => specs[j].kind = Kind::BadPayload,
                2 => {
                    specs[j].txs = Txs::Undecodable;
                    reveal_slice = None;
                }
                3 => specs[j].kind = Kind::MixedSize(rng.below(64) as usize),
                4 => {
                    specs[0].parent = None;
                    reveal_slice = Some(0);
                }
                5 => {
                    for s in specs.iter_mut().skip(1) {
                        s.parent = None;
                    }
                    let a = rng.range(1, n as u64 - 2) as usize;
                    let b = rng.range(a as u64 + 1, n as u64 - 1) as usize;
                    specs[a].parent = Some((0, 1));
                    specs[b].parent = Some((0, 2));
                    reveal_slice = None;
                }
                6 => {
                    for s in specs.iter_mut().skip(1) {
                        s.parent = None;
                    }
                    let a = rng.range(1, n as u64 - 1) as usize;
                    specs[a].parent = specs[0].parent;
                    reveal_slice = None;
                }
                7 => {
                    specs[0].parent = Some((slot + rng.below(3), 0));
                    for s in specs.iter_mut().skip(1) {
                        s.parent = None;
                    }
                    reveal_slice = None;
                }
                _ => {
                    if n == 1 {
                        specs[0].parent = Some((slot, 0));
                    } else {
                        for s in specs.iter_mut().skip(1) {
                            s.parent = None;
                        }
                        let a = rng.range(1, n as u64 - 1) as usize;
                        specs[a].parent = Some((slot + rng.below(3), 2));
                    }
                    reveal_slice = None;
                }
            }
            let built: Vec<Built> = specs.iter().map(|s| w.build(s)).collect();
            let (hid, h) = w.declare_hash(&built.iter().collect::<Vec<_>>());
            let del = delivery(&mut rng, n, DATA_SHREDS, None);
            for (s, i) in &del {
                w.feed(&built[*s].shreds[*i], None);
            }
            let _ = reveal_slice;
            let ninv = w.count_ev("invalid");
            w.rec.oracle(ninv == 1, "bad-block-flagged-once", || {
                format!("{tag}: InvalidBlock events = {} (events {:?}); slot {slot}, specs {:?}", ninv, w.events, specs)
            });
            w.rec.oracle(w.count_ev("block") == 0, "bad-block-never-announced", || format!("{tag}: a Block was announced: {:?}; slot {slot}, specs {:?}", w.events, specs));
            // afterwards nothing is ingested from dissemination
            let before = w.events.len();
            for _ in 0..6 {
                let s = rng.below(n as u64) as usize;
                w.feed(&built[s].shreds[rng.below(64) as usize], None);
            }
            w.rec.oracle(w.events.len() == before, "flagged-slot-silent", || format!("{tag}: events after the flag: {:?}", &w.events[before..]));
            w.q_dh();
            w.q_blk(hid, &h);
            let c = w.class;
            w.rec.end_case(c, true);
        }

        // ---------------- equivocation: two validly signed versions ----------------
        for class in 0..5 {
            let n = rng.range(2, max_n.max(3) as u64) as usize;
            let slot = rng.range(1, 40);
            let tag = ["equiv-conflicting-slice", "equiv-early-last-marker", "equiv-slice-beyond-last", "equiv-last-marker-removed", "equiv-two-last-markers"][class];
            w.begin(tag, slot);
            let specs = honest_specs(&mut rng, n, slot, nparents, false);
            let built: Vec<Built> = specs.iter().map(|s| w.build(s)).collect();
            let (hid, h) = w.declare_hash(&built.iter().collect::<Vec<_>>());
            // the conflicting signed slice
            let mut alt = match class {
                0 => {
                    let j = rng.below(n as u64) as usize;
                    let mut s = specs[j].clone();
                    s.txs = Txs::Ids(vec![900 + rng.below(50)]);
                    s
                }
                1 => {
                    // an earlier slice also signed with the last marker (same content)
                    let j = rng.below(n as u64 - 1) as usize;
                    let mut s = specs[j].clone();
                    s.is_last = true;
                    s
                }
                2 => {
                    // a further slice beyond the declared last one
                    let mut s = specs[n - 1].clone();
                    s.index = n + rng.below(2) as usize;
                    s.is_last = false;
                    s.parent = None;
                    s
                }
                3 => {
                    let mut s = specs[n - 1].clone();
                    s.is_last = false;
                    s
                }
                _ => {
                    let mut s = specs[n - 1].clone();
                    s.index = n + rng.below(2) as usize;
                    s.is_last = true;
                    s.parent = None;
                    s
                }
            };
            if alt.index == 0 && alt.parent.is_none() {
                alt.parent = specs[0].parent;
            }
            let altb = w.build(&alt);
            // mix: positions of the conflicting shreds among the honest delivery
            let mut del: Vec<(usize, usize)> = delivery(&mut rng, n, DATA_SHREDS, None);
            let k = rng.range(1, 3) as usize;
            for _ in 0..k {
                let pos = match rng.below(3) {
                    0 => 0,
                    1 => del.len(),
                    _ => rng.below(del.len() as u64 + 1) as usize,
                };
                del.insert(pos, (usize::MAX, rng.below(64) as usize));
            }
            for (s, i) in &del {
                if *s == usize::MAX {
                    w.feed(&altb.shreds[*i], None);
                } else {
                    w.feed(&built[*s].shreds[*i], None);
                }
            }
            let ninv = w.count_ev("invalid");
            w.rec.oracle(ninv == 1, "equivocation-flagged-once", || {
                format!("{tag}: InvalidBlock events = {} (events {:?}); {n} slices, conflicting slice {:?}, delivery head {:?}", ninv, w.events, alt, &del[..del.len().min(10)])
            });
            let inv = w.events.iter().position(|e| e == "invalid").unwrap_or(usize::MAX);
            w.rec.oracle(w.events.iter().enumerate().all(|(p, e)| !(e.starts_with("block") && p > inv)) && w.count_ev("block") <= 1, "no-block-after-invalid", || format!("{tag}: events {:?}", w.events));
            w.q_dh();
            w.q_blk(hid, &h);
            w.q_last(hid, &h);
            w.q_cc(alt.index);
            let c = w.class;
            w.rec.end_case(c, true);
        }

        // ---------------- repair path of the blockstore ----------------
        {
            let n = rng.range(1, max_n as u64) as usize;
            let slot = rng.range(1, 40);
            w.begin("repair-store", slot);
            let specs = honest_specs(&mut rng, n, slot, nparents, false);
            let built: Vec<Built> = specs.iter().map(|s| w.build(s)).collect();
            let hh = w.declare_hash(&built.iter().collect::<Vec<_>>());
            // a different block disseminated in the same slot (Byzantine leader) must not interfere
            let other = honest_specs(&mut rng, 1, slot, nparents, false);
            let mut o = other[0].clone();
            o.txs = Txs::Ids(vec![777]);
            let ob = w.build(&o);
            let oh = w.declare_hash(&[&ob]);
            let junk = w.declare_junk(&mut rng);
            let del = delivery(&mut rng, n, DATA_SHREDS, None);
            let odel = delivery(&mut rng, 1, DATA_SHREDS, None);
            let mut oi = 0;
            for (k, (s, i)) in del.iter().enumerate() {
                w.feed(&built[*s].shreds[*i], Some(&hh));
                if k % 3 == 0 && oi < odel.len() {
                    w.feed(&ob.shreds[odel[oi].1], None);
                    oi += 1;
                }
            }
            while oi < odel.len() {
                w.feed(&ob.shreds[odel[oi].1], None);
                oi += 1;
            }
            let fp = final_parent(&specs);
            let blk = w.q_blk(hh.0, &hh.1);
            let exp_parent = (Slot::new(fp.0), w.parents[fp.1].clone());
            let txs = all_txs(&specs);
            w.rec.oracle(blk.as_ref().is_some_and(|(bh, bp, ids)| *bh == hh.1 && *bp == exp_parent && *ids == txs), "repair-store-block", || "repaired block not stored under its hash with the right content".to_string());
            let oblk = w.q_blk(oh.0, &oh.1);
            w.rec.oracle(oblk.as_ref().is_some_and(|(bh, _, ids)| *bh == oh.1 && *ids == vec![777]), "repair-store-dissem-untouched", || "disseminated block disturbed by repair of another block".to_string());
            w.rec.oracle(w.count_ev("invalid") == 0, "repair-store-no-invalid", || format!("events {:?}", w.events));
            w.q_blk(junk.0, &junk.1);
            w.q_last(hh.0, &hh.1);
            for s in 0..n {
                w.q_root(hh.0, &hh.1, s);
                let p = w.q_proof(hh.0, &hh.1, s);
                w.rec.oracle(p.is_some_and(|(a, l)| a && l == (s == n - 1)), "served-proof-verifies", || format!("repaired block: proof of slice {s}/{n}: {p:?}"));
                w.q_shred(hh.0, &hh.1, s, rng.below(64) as usize);
            }
            w.q_proof(hh.0, &hh.1, n);
            w.q_root(hh.0, &hh.1, n);
            let c = w.class;
            w.rec.end_case(c, true);
        }

        // ---------------- repair path: content must hash to the requested id ----------------
        for class in 0..3 {
            let n = rng.range(2, max_n.max(3) as u64) as usize;
            let slot = rng.range(1, 40);
            let tag = ["repair-wrong-hash-early-last", "repair-wrong-hash-junk", "repair-bad-content"][class];
            w.begin(tag, slot);
            let mut specs = honest_specs(&mut rng, n, slot, nparents, false);
            if class == 2 {
                specs[n - 1].txs = Txs::Undecodable;
            }
            let built: Vec<Built> = specs.iter().map(|s| w.build(s)).collect();
            let hh = w.declare_hash(&built.iter().collect::<Vec<_>>());
            let (target, feedset): ((u64, BlockHash), Vec<Built>) = match class {
                0 => {
                    // slice j < n-1 also signed with the last marker: the prefix block hashes to something else
                    let j = rng.below(n as u64 - 1) as usize;
                    let mut s = specs[j].clone();
                    s.is_last = true;
                    let alt = w.build(&s);
                    let mut fs: Vec<Built> = built[..j].to_vec();
                    fs.push(alt);
                    let ph = w.declare_hash(&fs.iter().collect::<Vec<_>>());
                    let _ = ph;
                    (hh.clone(), fs)
                }
                1 => (w.declare_junk(&mut rng), built.clone()),
                _ => (hh.clone(), built.clone()),
            };
            let del = delivery(&mut rng, feedset.len(), DATA_SHREDS, None);
            for (s, i) in &del {
                w.feed(&feedset[*s].shreds[*i], Some(&target));
            }
            let blk = w.q_blk(target.0, &target.1);
            w.rec.oracle(blk.is_none(), "repair-store-only-matching-hash", || format!("{tag}: a block is stored under a hash it does not hash to / invalid content stored"));
            w.rec.oracle(w.count_ev("block") == 0, "repair-announce-only-matching-hash", || format!("{tag}: events {:?}", w.events));
            w.q_last(target.0, &target.1);
            w.q_root(target.0, &target.1, 0);
            w.q_proof(target.0, &target.1, 0);
            w.q_dh();
            let c = w.class;
            w.rec.end_case(c, true);
        }

        // ---------------- back-pressure: the consumer of the events lags behind a tiny channel ----------------
        // Several blocks (different slots; honest ones by dissemination or the leader's fast path, one possibly
        // malformed) are ingested back to back while the event channel holds 1-2 events and the consumer runs
        // concurrently, late and slowly.  Every FirstShred / Block / InvalidBlock must still arrive exactly once
        // ("announces the first shred and the block exactly once each", "announces an invalid block once"), in
        // the order in which an unhindered consumer sees them.  Oracle-only (the model is one slot, no channel).
        {
            w.rec.begin_case("backpressure");
            w.roots.clear();
            w.hashes.clear();
            w.mute = true;
            let nb = rng.range(2, 4) as usize;
            let base = rng.range(1, 30);
            let bad = if rng.chance(1, 2) { Some(rng.below(nb as u64) as usize) } else { None };
            let own = if rng.chance(1, 2) { Some(rng.below(nb as u64) as usize) } else { None };
            // per block: slot, expected hash (None = malformed), its calls in order
            let mut blocks: Vec<(u64, Option<BlockHash>, Vec<FeedOp>)> = vec![];
            for b in 0..nb {
                let slot = base + b as u64;
                w.slot = slot;
                let n = rng.range(1, 3) as usize;
                let mut specs = honest_specs(&mut rng, n, slot, nparents, false);
                if bad == Some(b) {
                    specs[rng.below(n as u64) as usize].kind = Kind::BadPayload;
                }
                let built: Vec<Built> = specs.iter().map(|s| w.build(s)).collect();
                let roots: Vec<SliceRoot> = built.iter().map(|x| x.root.clone()).collect();
                let h = DoubleMerkleTree::new(roots.iter()).get_root();
                let ops: Vec<FeedOp> = if own == Some(b) && bad != Some(b) {
                    built
                        .iter()
                        .map(|x| {
                            let payload = SlicePayload::try_from(w.payload_bytes(&x.spec).as_slice()).expect("payload");
                            FeedOp::Own(payload, Box::new(x.shreds.clone().try_into().map_err(|_| ()).expect("64")))
                        })
                        .collect()
                } else {
                    delivery(&mut rng, n, DATA_SHREDS, None).iter().map(|(s, i)| FeedOp::Dis(built[*s].shreds[*i].clone())).collect()
                };
                blocks.push((slot, if bad == Some(b) { None } else { Some(h) }, ops));
            }
            w.mute = false;
            // back to back, or merged (each block's calls stay in their order)
            let mut ops: Vec<FeedOp> = vec![];
            if rng.chance(1, 2) {
                for (_, _, o) in &blocks {
                    ops.extend(o.iter().cloned());
                }
            } else {
                let mut pos = vec![0usize; nb];
                loop {
                    let live: Vec<usize> = (0..nb).filter(|b| pos[*b] < blocks[*b].2.len()).collect();
                    if live.is_empty() {
                        break;
                    }
                    let b = *rng.pick(&live);
                    let burst = rng.range(1, 40) as usize;
                    for _ in 0..burst {
                        if pos[b] < blocks[b].2.len() {
                            ops.push(blocks[b].2[pos[b]].clone());
                            pos[b] += 1;
                        }
                    }
                }
            }
            let cap = rng.range(1, 2) as usize;
            let start_lag = *rng.pick(&[0usize, 3, 50, 400]);
            let lag = rng.below(4) as usize;
            let desc = format!("{nb} blocks from slot {base} (malformed: {bad:?}, leader fast path: {own:?}), {} calls, channel capacity {cap}, consumer starts {start_lag} turns late and pauses {lag} turns per event", ops.len());
            let reference = run_with_consumer(&w.rt, &ops, 100_000, 0, 0);
            let lagging = run_with_consumer(&w.rt, &ops, cap, start_lag, lag);
            w.rec.oracle(reference.is_ok() && lagging.is_ok(), "blockstore-add-shred-panics", || format!("backpressure: {desc}: panicked: {:?} / {:?}", reference.as_ref().err(), lagging.as_ref().err()));
            if let (Ok((ref_evs, _)), Ok((evs, returned))) = (&reference, &lagging) {
                let show = |v: &[Ev]| v.iter().map(|(k, s, h)| format!("{k} {s}{}", if h.is_some() { " #" } else { "" })).collect::<Vec<_>>().join(", ");
                let mut lost: Vec<String> = vec![];
                for (slot, h, _) in &blocks {
                    let cnt = |k: &str| evs.iter().filter(|e| e.0 == k && e.1 == *slot).count();
                    let right = evs.iter().filter(|e| e.0 == "block" && e.1 == *slot && e.2 == *h).count();
                    let (nf, nbk, ninv) = (cnt("first"), cnt("block"), cnt("invalid"));
                    let first_pos = evs.iter().position(|e| e.1 == *slot);
                    let first_is_first = first_pos.is_some_and(|p| evs[p].0 == "first");
                    let ok = if h.is_some() { nf == 1 && nbk == 1 && right == 1 && ninv == 0 && first_is_first } else { nf == 1 && nbk == 0 && ninv == 1 && first_is_first };
                    if !ok {
                        lost.push(format!("slot {slot} ({}): FirstShred x{nf}, Block x{nbk} ({right} with the leader's hash), InvalidBlock x{ninv}", if h.is_some() { "correct leader's block" } else { "malformed block" }));
                    }
                    w.rec.count(if h.is_some() { "backpressure:honest-block" } else { "backpressure:bad-block" });
                }
                let extra = evs.iter().filter(|e| !blocks.iter().any(|b| b.0 == e.1)).count();
                w.rec.oracle(lost.is_empty() && extra == 0, "backpressure-event-lost", || format!("{desc}: not every event arrived exactly once: {}; received [{}]", lost.join("; "), show(evs)));
                w.rec.oracle(evs == ref_evs, "backpressure-events-differ", || format!("{desc}: a lagging consumer received [{}], an unhindered one [{}]", show(evs), show(ref_evs)));
                let mut want: Vec<&BlockHash> = blocks.iter().filter_map(|b| b.1.as_ref()).collect();
                let mut got: Vec<&BlockHash> = returned.iter().collect();
                want.sort();
                got.sort();
                w.rec.oracle(want == got, "backpressure-block-returned", || format!("{desc}: {} blocks returned to the caller, {} correct blocks delivered", got.len(), want.len()));
                w.class = fnv(fnv(0, "backpressure"), &format!("{nb}{bad:?}{own:?}{cap}{}", evs.len()));
            }
            let c = w.class;
            w.rec.end_case(c, true);
        }
    }
    let extra = serde_json::json!({ "rounds": rounds, "max_slices": max_n });
    w.rec.finish(&args, extra);
}
