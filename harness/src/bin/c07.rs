//! C07 — parent-ready: correspondence with `AgModel.ParentReady` (direct tracker ops) and `AgModel.PoolTrack`
//! (certificates / blocks through a real `PoolImpl`) + property oracle on the real code.
//!
//! direct ops -> `A=<announced pairs> W=<wake-ups> root=<r> pr=<per-slot states>` | `panic`
//!   pn s h     mark_notar_fallback((s,h))          ps s     mark_skipped(s)
//!   pp r       prune(r)   -> `root=.. pr=..`        pq s     parents_ready(s) -> `q=..`
//!   pw s       wait_for_parent_ready(s) -> `ready b ..` | `waiting ..` | `panic`
//!   pf f i k   handle_finalization(finalized | -, implicitly finalized | -, implicitly skipped | -)
//! pool ops (`cc`, `cb`, `cq`, `cw`): see `trackkit.rs`.
#[path = "../trackkit.rs"]
mod trackkit;
use std::collections::{BTreeMap, BTreeSet};

use ag_harness::*;
use alpenglow::consensus::pool_verif::VerifParentReadyTracker;
use alpenglow::consensus::Pool as _;
use alpenglow::types::Slot;
use trackkit::*;

const W: u64 = 4;

/// `Ready s b` of the property, from the marks: b certified (notar / notar-fallback / finalized / genesis) in a
/// slot before the window start s, every slot strictly between skip-certified or implicitly skipped.
fn ready_pairs(nf: &BTreeSet<B>, skip: &BTreeSet<u64>, above: u64, max_s: u64) -> BTreeSet<Ann> {
    let mut out = BTreeSet::new();
    let mut s = W;
    while s <= max_s {
        if s > above {
            for b in nf {
                if b.0 < s && (b.0 + 1..s).all(|t| skip.contains(&t)) {
                    out.insert((s, *b));
                }
            }
        }
        s += W;
    }
    out
}

/// the same for every window start `s >= lo` (the theorem `ready_iff` of `Props/C07.lean` includes the root itself)
fn ready_from(nf: &BTreeSet<B>, skip: &BTreeSet<u64>, lo: u64, max_s: u64) -> BTreeSet<Ann> {
    let mut out = ready_pairs(nf, skip, lo, max_s);
    if lo >= W && lo % W == 0 && lo <= max_s {
        for b in nf {
            if b.0 < lo && (b.0 + 1..lo).all(|t| skip.contains(&t)) {
                out.insert((lo, *b));
            }
        }
    }
    out
}

/// common bookkeeping of the announcement / waiter oracles
#[derive(Default)]
struct AnnState {
    announced: Vec<Ann>,
    waiting: BTreeSet<u64>,
}

impl AnnState {
    #[allow(clippy::too_many_arguments)]
    fn check(&mut self, rec: &mut Recorder, line: &str, before: &BTreeSet<Ann>, after: &BTreeSet<Ann>, ann: &[Ann], wakes: &[Ann], batch: bool, decided_upto: u64, skip: &BTreeSet<u64>, after_full: &BTreeSet<Ann>) {
        let newly: BTreeSet<Ann> = after.difference(before).copied().collect();
        for a in ann {
            rec.oracle(!self.announced.contains(a), "pr-announced-twice", || format!("{line}: pair {a:?} announced again (earlier: {:?})", self.announced));
            self.announced.push(*a);
        }
        let annset: BTreeSet<Ann> = ann.iter().copied().collect();
        rec.oracle(annset.is_subset(&newly), "pr-announced-not-ready", || format!("{line}: announced {annset:?} but newly ready pairs are {newly:?}"));
        if !batch {
            rec.oracle(annset == newly, "pr-announcement-missing", || format!("{line}: announced {annset:?}, newly ready pairs {newly:?}"));
        } else {
            rec.oracle(newly.is_empty() || !annset.is_empty(), "pr-batch-announces-nothing", || format!("{line}: finalization made {newly:?} ready but nothing was announced"));
            // pairs a finalization batch does not announce are for windows that are decided or entirely skipped
            for d in newly.difference(&annset) {
                let moot = d.0 <= decided_upto || (d.0..d.0 + W).all(|t| skip.contains(&t)) || annset.iter().any(|a| a.0 == d.0);
                rec.oracle(moot, "pr-batch-drops-live-pair", || format!("{line}: pair {d:?} became ready in a finalization batch, was not announced (announced {annset:?}) and its window is neither decided (<= {decided_upto}) nor fully skip-certified"));
            }
        }
        // waiters: woken exactly when their slot becomes ready, with a ready parent
        let mut woken = BTreeSet::new();
        for (s, b) in wakes {
            woken.insert(*s);
            rec.oracle(self.waiting.contains(s) && after_full.contains(&(*s, *b)), "pr-waiter-woken-wrongly", || format!("{line}: waiter of slot {s} woken with {b:?}; ready pairs {after:?}"));
            self.waiting.remove(s);
        }
        for s in self.waiting.clone() {
            let is_ready = after.iter().any(|a| a.0 == s);
            rec.oracle(!is_ready, "pr-waiter-not-woken", || format!("{line}: slot {s} has a ready parent but its waiter was not woken (woken: {woken:?})"));
        }
    }
}

fn permutations<T: Clone>(xs: &[T]) -> Vec<Vec<T>> {
    if xs.len() <= 1 {
        return vec![xs.to_vec()];
    }
    let mut out = Vec::new();
    for i in 0..xs.len() {
        let mut rest = xs.to_vec();
        let x = rest.remove(i);
        for mut p in permutations(&rest) {
            p.insert(0, x.clone());
            out.push(p);
        }
    }
    out
}

#[derive(Clone, Copy, Debug, PartialEq, Eq, PartialOrd, Ord)]
enum DOp {
    Nf(B),
    Skip(u64),
    Prune(u64),
    Query(u64),
    Wait(u64),
    /// `wait_for_parent_ready` whose receiver is dropped at once (a block producer that gave up): the slot must
    /// still become ready; the wake-up itself is unobservable
    WaitDrop(u64),
}

/// direct driving of the real `ParentReadyTracker`
struct Direct {
    t: VerifParentReadyTracker,
    nf: BTreeSet<B>,
    skip: BTreeSet<u64>,
    ann: AnnState,
    waiters: BTreeMap<u64, tokio::sync::oneshot::Receiver<alpenglow::BlockId>>,
    /// slots whose registered receiver was dropped
    dropped: BTreeSet<u64>,
    max_s: u64,
    dead: bool,
    class: u64,
    /// oracle range: window starts `>= root` (exactly the theorem) instead of `> root`
    incl_root: bool,
}

impl Direct {
    fn new(max_s: u64) -> Self {
        let mut nf = BTreeSet::new();
        nf.insert((0, 0));
        Self { t: VerifParentReadyTracker::default(), nf, skip: BTreeSet::new(), ann: AnnState::default(), waiters: BTreeMap::new(), dropped: BTreeSet::new(), max_s, dead: false, class: 0, incl_root: false }
    }
    /// lowest window start the oracle speaks about
    fn lo(&self) -> u64 {
        self.t.root().inner() + if self.incl_root { 0 } else { 1 }
    }
    fn ready_now(&self) -> BTreeSet<Ann> {
        ready_from(&self.nf, &self.skip, self.lo(), self.max_s)
    }
    /// `handle_finalization` on the real tracker (a batch: only one highest-slot pair is announced)
    fn apply_fin(&mut self, rec: &mut Recorder, fin: Option<B>, ifin: &[B], iskip: &[u64]) {
        if self.dead {
            return;
        }
        let root = self.t.root().inner();
        let before = self.ready_now();
        let line = format!(
            "pf {} {} {}",
            fin.map(fmt_blk).unwrap_or("-".into()),
            fmt_list(ifin.iter().map(|b| fmt_blk(*b)).collect()),
            fmt_list(iskip.iter().map(|s| s.to_string()).collect())
        );
        let ev = (fin.map(bid), ifin.iter().map(|b| bid(*b)).collect::<Vec<_>>(), iskip.iter().map(|s| Slot::new(*s)).collect::<Vec<_>>());
        match catch(|| self.t.handle_finalization(ev)) {
            Err(msg) => {
                rec.step(&line, "panic");
                self.dead = true;
                rec.oracle(false, "pr-panic", || format!("{line}: tracker panicked: {msg}"));
            }
            Ok(a) => {
                let ann: Vec<Ann> = a.iter().map(|(s, b)| (s.inner(), unbid(b))).collect();
                let wakes = poll_waiters(&mut self.waiters);
                rec.step(&line, &format!("A={} W={} {}", fmt_ann(&ann), fmt_ann(&wakes), self.dump()));
                self.class = fnv(self.class, &format!("f{}{}", ann.len(), wakes.len()));
                rec.count(&format!("pr:fin-ann:{}", ann.len().min(4)));
                for b in fin.iter().chain(ifin.iter()) {
                    if b.0 >= root {
                        self.nf.insert(*b);
                    }
                }
                for s in iskip {
                    if *s >= root {
                        self.skip.insert(*s);
                    }
                }
                let after = self.ready_now();
                let newly: BTreeSet<Ann> = after.difference(&before).copied().collect();
                rec.oracle(ann.len() <= 1, "pr-batch-announces-several", || format!("{line}: {ann:?}"));
                // the one announced pair has the highest slot of the newly ready pairs
                if let Some(a) = ann.first() {
                    rec.oracle(newly.iter().all(|n| n.0 <= a.0), "pr-batch-not-highest", || format!("{line}: announced {a:?}, newly ready {newly:?}"));
                }
                // the announce-once / subset / waiter oracles (`batch`: dropped pairs are not demanded here, the run is
                // not a consistent world: `decided_upto = MAX` makes every dropped pair moot)
                let skip = self.skip.clone();
                self.ann.check(rec, &line, &before, &after, &ann, &wakes, true, u64::MAX, &skip, &after);
                self.check_query(rec, &line);
            }
        }
    }
    fn dump(&self) -> String {
        fmt_pr_states(self.t.root(), &self.t.states())
    }
    fn apply(&mut self, rec: &mut Recorder, op: &DOp, expect_panic_ok: bool) {
        if self.dead {
            return;
        }
        let root = self.t.root().inner();
        let lo = self.lo();
        let before = self.ready_now();
        match op {
            DOp::Nf(_) | DOp::Skip(_) => {
                let line = match op {
                    DOp::Nf(b) => format!("pn {} {}", b.0, b.1),
                    DOp::Skip(s) => format!("ps {s}"),
                    _ => unreachable!(),
                };
                let r = catch(|| match op {
                    DOp::Nf(b) => self.t.mark_notar_fallback(&bid(*b)),
                    DOp::Skip(s) => self.t.mark_skipped(Slot::new(*s)),
                    _ => unreachable!(),
                });
                match r {
                    Err(msg) => {
                        rec.step(&line, "panic");
                        self.dead = true;
                        rec.oracle(false, "pr-panic", || format!("{line}: tracker panicked: {msg}"));
                    }
                    Ok(a) => {
                        let ann: Vec<Ann> = a.iter().map(|(s, b)| (s.inner(), unbid(b))).collect();
                        let wakes = poll_waiters(&mut self.waiters);
                        rec.step(&line, &format!("A={} W={} {}", fmt_ann(&ann), fmt_ann(&wakes), self.dump()));
                        self.class = fnv(self.class, &format!("{}{}", ann.len(), wakes.len()));
                        rec.count(&format!("pr:ann:{}", ann.len().min(4)));
                        match op {
                            DOp::Nf(b) if b.0 >= root => {
                                self.nf.insert(*b);
                            }
                            DOp::Skip(s) if *s >= root => {
                                self.skip.insert(*s);
                            }
                            _ => {}
                        }
                        let after = self.ready_now();
                        let skip = self.skip.clone();
                        self.ann.check(rec, &line, &before, &after, &ann, &wakes, false, 0, &skip, &after);
                        self.check_query(rec, &line);
                    }
                }
            }
            DOp::Prune(r) => {
                self.t.prune(Slot::new(*r));
                rec.step(&format!("pp {r}"), &self.dump());
                let line = format!("pp {r}");
                rec.oracle(self.t.states().iter().all(|e| e.0.inner() >= *r), "pr-retains-below-root", || format!("{line}: {}", self.dump()));
                self.check_query(rec, &line);
            }
            DOp::Query(s) => {
                let q: Vec<String> = self.t.parents_ready(Slot::new(*s)).iter().map(|b| fmt_blk(unbid(b))).collect();
                rec.step(&format!("pq {s}"), &format!("q={}", fmt_list(q)));
            }
            DOp::Wait(s) | DOp::WaitDrop(s) => {
                let drop_rx = matches!(op, DOp::WaitDrop(_));
                let line = format!("{} {s}", if drop_rx { "pwd" } else { "pw" });
                let r = catch(|| self.t.wait_for_parent_ready(Slot::new(*s)));
                match r {
                    Err(msg) => {
                        rec.step(&line, "panic");
                        self.dead = true;
                        rec.oracle(expect_panic_ok, "pr-panic", || format!("{line}: tracker panicked: {msg}"));
                    }
                    Ok(e) if e.is_left() => {
                        let b = unbid(&e.left().unwrap());
                        rec.step(&line, &format!("ready {} {}", fmt_blk(b), self.dump()));
                        rec.count("pr:wait:ready");
                        if *s >= lo {
                            let min = before.iter().filter(|a| a.0 == *s).map(|a| a.1).min();
                            rec.oracle(min == Some(b), "pr-wait-returns-wrong-parent", || format!("{line}: returned {b:?}, minimal ready parent is {min:?}"));
                        }
                    }
                    Ok(e) => {
                        if drop_rx { drop(e.right().unwrap()); self.dropped.insert(*s); rec.count("pr:wait:dropped"); }
                        else { self.waiters.insert(*s, e.right().unwrap()); }
                        rec.step(&line, &format!("waiting {}", self.dump()));
                        rec.count("pr:wait:waiting");
                        if *s >= lo {
                            rec.oracle(!before.iter().any(|a| a.0 == *s), "pr-wait-misses-ready-parent", || format!("{line}: waiting although ready: {before:?}"));
                            if !drop_rx { self.ann.waiting.insert(*s); }
                        }
                    }
                }
            }
        }
    }
    /// the query equals the property's `Ready` set for every window start above the root
    fn check_query(&self, rec: &mut Recorder, line: &str) {
        let root = self.t.root().inner();
        let lo = self.lo();
        let want = self.ready_now();
        let mut got = BTreeSet::new();
        let mut dup = false;
        let mut s = W;
        while s <= self.max_s {
            if s >= lo {
                for b in self.t.parents_ready(Slot::new(s)) {
                    dup |= !got.insert((s, unbid(&b)));
                }
            }
            s += W;
        }
        rec.oracle(got == want && !dup, "pr-query-not-exact", || {
            format!("{line}: parents_ready gives {got:?} (duplicates: {dup}), the marks imply {want:?}; nf={:?} skip={:?} root={root}", self.nf, self.skip)
        });
        for st in self.t.states() {
            if !Slot::new(st.0.inner()).is_start_of_window() {
                rec.oracle(st.3.is_empty(), "pr-ready-on-non-window-start", || format!("{line}: slot {} is not a window start but has ready parents", st.0.inner()));
            }
        }
    }
}

/// pool-level case
struct PoolRun {
    c: PoolCase,
    spec: Spec,
    nf_certs: BTreeSet<B>,
    skip_certs: BTreeSet<u64>,
    ann: AnnState,
    max_s: u64,
    class: u64,
    all_ann: BTreeSet<Ann>,
}

impl PoolRun {
    fn new(f: &CertFactory, max_s: u64) -> Self {
        Self { c: PoolCase::new(f), spec: Spec::default(), nf_certs: BTreeSet::new(), skip_certs: BTreeSet::new(), ann: AnnState::default(), max_s, class: 0, all_ann: BTreeSet::new() }
    }
    fn marks(&self) -> (BTreeSet<B>, BTreeSet<u64>, SpecView) {
        let v = self.spec.view();
        let mut nf: BTreeSet<B> = self.nf_certs.clone();
        nf.insert((0, 0));
        nf.extend(v.final_star.iter().copied());
        let mut skip = self.skip_certs.clone();
        skip.extend(v.impl_skipped.iter().copied());
        (nf, skip, v)
    }
    fn ready(&self) -> BTreeSet<Ann> {
        let (nf, skip, v) = self.marks();
        ready_pairs(&nf, &skip, v.watermark, self.max_s)
    }
    fn apply(&mut self, rec: &mut Recorder, rt: &tokio::runtime::Runtime, f: &mut CertFactory, op: &POp) {
        if self.c.dead {
            return;
        }
        let line = op.line();
        let before_all = {
            let (nf, skip, _) = self.marks();
            ready_pairs(&nf, &skip, 0, self.max_s)
        };
        let wm_before = self.spec.view().watermark;
        let out = self.c.apply(rt, f, op);
        rec.step(&line, &out.line);
        rec.count(&format!("pool:{}", out.verdict));
        self.class = fnv(self.class, &format!("{}{}{}", out.verdict, out.announced.len(), out.wakes.len()));
        if out.verdict == "panic" {
            rec.oracle(false, "pool-panic", || format!("{line}: the pool panicked on a consistent certificate set"));
            return;
        }
        match op {
            POp::Cert(k, s, h) if out.verdict == "ok" => match k {
                CK::N => {
                    self.spec.add(&FOp::Notar((*s, *h)));
                    self.nf_certs.insert((*s, *h));
                }
                CK::NF => {
                    self.nf_certs.insert((*s, *h));
                }
                CK::S => {
                    self.skip_certs.insert(*s);
                }
                CK::F => self.spec.add(&FOp::Final(*s)),
                CK::FF => self.spec.add(&FOp::FastFinal((*s, *h))),
            },
            POp::Block(b, p) if b.0 >= wm_before => self.spec.add(&FOp::Parent(*b, *p)),
            POp::Wait(s) => {
                let r = self.ready();
                if *s <= wm_before {
                    // decided history: whatever is (or is not) retained for it is not constrained
                } else if out.verdict == "ready" {
                    let min = r.iter().filter(|a| a.0 == *s).map(|a| fmt_blk(a.1)).next();
                    rec.oracle(Some(out.line.trim_start_matches("ready ").to_string()) == min, "pr-wait-returns-wrong-parent", || format!("{line}: {} but minimal ready parent is {min:?}", out.line));
                } else {
                    rec.oracle(!r.iter().any(|a| a.0 == *s), "pr-wait-misses-ready-parent", || format!("{line}: waiting although ready: {r:?}"));
                    self.ann.waiting.insert(*s);
                }
                return;
            }
            POp::Query(_) => return,
            _ => {}
        }
        let (nf, skip, v) = self.marks();
        let after_all = ready_pairs(&nf, &skip, 0, self.max_s);
        let batch = out.fin_events.iter().any(|e| *e != Ev::default());
        // pairs for window starts at or below the watermark are decided history: the tracker may or may not
        // still produce them; restrict the exactness claims to s > watermark(after)
        let restrict = |x: &BTreeSet<Ann>| -> BTreeSet<Ann> { x.iter().copied().filter(|a| a.0 > v.watermark).collect() };
        let ann_live: Vec<Ann> = out.announced.iter().copied().filter(|a| a.0 > v.watermark).collect();
        for a in &out.announced {
            rec.oracle(after_all.contains(a) && !before_all.contains(a), "pr-announced-not-ready", || format!("{line}: announced {a:?}; ready before: {}, after: {}", before_all.contains(a), after_all.contains(a)));
            rec.oracle(self.all_ann.insert(*a), "pr-announced-twice", || format!("{line}: pair {a:?} announced a second time"));
        }
        let wakes_live: Vec<Ann> = out.wakes.clone();
        let mut st = std::mem::take(&mut self.ann);
        st.announced.clear();
        st.check(rec, &line, &restrict(&before_all), &restrict(&after_all), &ann_live, &wakes_live, batch, v.highest, &skip, &after_all);
        self.ann = st;
        // query = Ready for every window start above the watermark
        let mut got = BTreeSet::new();
        let mut s = W;
        while s <= self.max_s {
            if s > v.watermark {
                for b in self.c.pool.parents_ready(Slot::new(s)) {
                    got.insert((s, unbid(b)));
                }
            }
            s += W;
        }
        let want = restrict(&after_all);
        rec.oracle(got == want, "pr-query-not-exact", || format!("{line}: parents_ready gives {got:?}, certificates imply {want:?}; nf={nf:?} skip={skip:?} watermark={}", v.watermark));
    }
}

fn main() {
    let args = Args::parse();
    quiet_panics();
    let mut rng = Rng::new(args.seed);
    let mut rec = Recorder::new();

    // ---- shape pr-direct: random marks over four windows, waiters, queries, consistent pruning
    let n_direct = if args.thorough { 60000 } else { 10000 };
    for _ in 0..n_direct {
        rec.begin_case("pr-direct");
        let max_slot = 15u64;
        let mut d = Direct::new(max_slot + 1);
        let p_skip = rng.range(3, 8);
        let len = rng.range(6, 30);
        let mut never_skip: BTreeSet<u64> = BTreeSet::new();
        let mut next_h = 1;
        for _ in 0..len {
            let root = d.t.root().inner();
            let op = match rng.below(12) {
                0..=2 => {
                    let s = rng.range(1, max_slot);
                    let h = if rng.chance(3, 4) { chain_id(s) } else { next_h += 1; chain_id(s) + 1 + next_h % 3 };
                    DOp::Nf((s, h))
                }
                3..=7 => {
                    let s = if rng.chance(p_skip, 10) { rng.range(1, max_slot) } else { rng.range(root.max(1), (root + 5).min(max_slot)) };
                    // the slot of a root (and anything certified that a root was pruned over) is never skip-marked while
                    // retained; marks strictly below the root are fair game (they must be ignored)
                    if never_skip.contains(&s) && s >= root { continue; }
                    DOp::Skip(s)
                }
                8 => DOp::Query(W * rng.range(1, 4)),
                9 => {
                    let s = W * rng.range(1, 4);
                    if d.waiters.contains_key(&s) || d.ann.waiting.contains(&s) || d.dropped.contains(&s) { continue; }
                    if d.t.states().iter().any(|e| e.0.inner() == s && e.4) { continue; }
                    if rng.chance(1, 3) { DOp::WaitDrop(s) } else { DOp::Wait(s) }
                }
                10 => {
                    // prune at a certified, never-skipped slot (a finalized block's slot)
                    let cands: Vec<u64> = d.nf.iter().map(|b| b.0).filter(|s| *s > root && !d.skip.contains(s)).collect();
                    if cands.is_empty() { continue; }
                    let r = *rng.pick(&cands);
                    // everything between the old and the new root must be "decided": only prune over it if each
                    // slot in between is skipped or certified
                    if !(root + 1..r).all(|t| d.skip.contains(&t) || d.nf.iter().any(|b| b.0 == t)) { continue; }
                    for t in root..=r { never_skip.insert(t); }
                    DOp::Prune(r)
                }
                _ => DOp::Nf((rng.range(0, max_slot), rng.range(0, 3))),
            };
            // certified slots at or below a root are never skip-marked (a finalized slot is not skipped)
            d.apply(&mut rec, &op, false);
        }
        let nontrivial = !d.ann.announced.is_empty();
        rec.end_case(d.class ^ d.ann.announced.len() as u64, nontrivial);
    }

    // ---- shape pr-perm: every order of a small set of marks; same ready sets, every pair announced exactly once
    let n_sets = if args.thorough { 40 } else { 10 };
    for _ in 0..n_sets {
        let mut marks: Vec<DOp> = Vec::new();
        let base = W * rng.below(2);
        let b = (base + rng.range(1, 2), 7);
        marks.push(DOp::Nf(b));
        for t in b.0 + 1..base + W + rng.below(3) {
            if rng.chance(5, 6) { marks.push(DOp::Skip(t)); }
        }
        if rng.chance(1, 2) { marks.push(DOp::Nf((b.0 + 1, 8))); }
        if rng.chance(1, 2) { marks.push(DOp::Skip(b.0)); }
        marks.sort();
        marks.dedup();
        marks.truncate(if args.thorough { 7 } else { 6 });
        let mut finals: BTreeSet<String> = BTreeSet::new();
        for perm in permutations(&marks) {
            rec.begin_case("pr-perm");
            let mut d = Direct::new(16);
            for op in &perm {
                d.apply(&mut rec, op, false);
            }
            let all: BTreeSet<Ann> = d.ann.announced.iter().copied().collect();
            let want = ready_pairs(&d.nf, &d.skip, 0, 16);
            rec.oracle(all == want && all.len() == d.ann.announced.len(), "pr-announcements-not-exact", || format!("order {perm:?}: announced over the run {:?}, ready at the end {want:?}", d.ann.announced));
            finals.insert(format!("{want:?}"));
            rec.end_case(d.class, !all.is_empty());
        }
        rec.oracle(finals.len() == 1, "pr-order-dependent", || format!("marks {marks:?}: final ready sets differ between orders: {finals:?}"));
    }

    // ---- shape pr-safe: random runs under exactly the premise `SafeRun` of the Lean theorems (`Props/C07.lean`):
    // prune roots monotone; a prune root is a window start or is never accepted as a skip mark, before or after.
    // Nothing else is assumed (the prefix below a root need not be decided, marks arrive in any order, finalization
    // batches are arbitrary).  Oracle: the query is exact for every window start >= root (root included), every pair
    // announced at most once, certificate paths announce exactly the newly ready pairs, no panic.
    let n_safe = if args.thorough { 60000 } else { 8000 };
    for _ in 0..n_safe {
        rec.begin_case("pr-safe");
        let max_slot = 15u64;
        let mut d = Direct::new(max_slot + 1);
        d.incl_root = true;
        let len = rng.range(8, 32);
        let mut never_skip: BTreeSet<u64> = BTreeSet::new();
        for _ in 0..len {
            let root = d.t.root().inner();
            let skip_ok = |s: u64, root: u64, never_skip: &BTreeSet<u64>| s < root || !never_skip.contains(&s);
            match rng.below(14) {
                0..=2 => d.apply(&mut rec, &DOp::Nf((rng.range(0, max_slot), rng.range(0, 2))), false),
                3..=7 => {
                    let s = rng.range(root.saturating_sub(1), (root + 6).min(max_slot));
                    if !skip_ok(s, root, &never_skip) { continue; }
                    d.apply(&mut rec, &DOp::Skip(s), false)
                }
                8 => d.apply(&mut rec, &DOp::Query(W * rng.range(0, 4)), false),
                9 => {
                    let s = W * rng.range(1, 4);
                    if d.waiters.contains_key(&s) || d.ann.waiting.contains(&s) || d.dropped.contains(&s) { continue; }
                    // a second waiter for a slot is an assertion failure of the code (documented): wait once per slot
                    if d.t.states().iter().any(|e| e.0.inner() == s && e.4) { continue; }
                    let op = if rng.chance(1, 3) { DOp::WaitDrop(s) } else { DOp::Wait(s) };
                    d.apply(&mut rec, &op, false)
                }
                10 | 11 => {
                    let r = rng.range(root, (root + 6).min(max_slot));
                    if r % W != 0 && d.skip.contains(&r) { continue; }
                    if r % W != 0 { never_skip.insert(r); }
                    d.apply(&mut rec, &DOp::Prune(r), false)
                }
                _ => {
                    let fin = if rng.chance(2, 3) { Some((rng.range(0, max_slot), rng.range(0, 2))) } else { None };
                    let mut ifin = Vec::new();
                    for _ in 0..rng.below(3) { ifin.push((rng.range(0, max_slot), rng.range(0, 2))); }
                    let mut iskip = Vec::new();
                    for _ in 0..rng.below(4) {
                        let s = rng.range(root.saturating_sub(1), (root + 6).min(max_slot));
                        if skip_ok(s, root, &never_skip) { iskip.push(s); }
                    }
                    d.apply_fin(&mut rec, fin, &ifin, &iskip)
                }
            }
        }
        let nontrivial = !d.ann.announced.is_empty();
        rec.end_case(d.class ^ d.ann.announced.len() as u64, nontrivial);
    }

    // ---- shape pr-witness: the `decide`d witnesses of `Props/C07.lean` on the real tracker (the premise `SafeRun` is
    // necessary; the non-vacuity run).  Each step is compared with the model; the oracle compares the marked steps
    // with the value the Lean theorem states.
    {
        let witnesses: Vec<(&str, Vec<(&str, Option<&str>)>)> = vec![
            // ready_iff_fails_if_skipped_slot_becomes_root: (1,7) is connected to 4 by the accepted marks, the query is empty
            ("skipped-slot-becomes-root", vec![("pn 1 7", None), ("ps 2", None), ("pp 2", None), ("ps 3", Some("A=- ")), ("pq 4", Some("q=-"))]),
            // ready_iff_fails_if_root_is_skipped_later
            ("root-skipped-later", vec![("pn 1 7", None), ("pp 2", None), ("ps 2", None), ("ps 3", Some("A=- ")), ("pq 4", Some("q=-"))]),
            // panic_if_prune_roots_decrease: `assert!(!ready_ids.contains(&id))`
            ("roots-decrease-panic", vec![("pn 3 9", Some("A=4=3:9 ")), ("pp 4", None), ("pp 0", None), ("pn 3 9", Some("panic"))]),
            // ready_iff_fails_if_prune_roots_decrease
            ("roots-decrease-query", vec![("pn 1 7", None), ("ps 2", None), ("ps 3", Some("A=4=1:7 ")), ("pp 8", None), ("pp 0", None), ("pq 4", Some("q=-"))]),
            // a skip-marked window start may be a root
            ("window-start-root", vec![("pn 3 9", Some("A=4=3:9 ")), ("ps 4", Some("A=- ")), ("pp 4", None), ("ps 5", None), ("ps 6", None), ("ps 7", Some("A=8=3:9 ")), ("pq 8", Some("q=3:9"))]),
            // demoRun
            ("demo-run", vec![("pn 1 7", None), ("ps 2", None), ("pw 4", Some("waiting ")), ("ps 3", Some("A=4=1:7 W=4=1:7 ")), ("pw 8", Some("waiting ")),
                ("pn 5 3", None), ("pp 5", None), ("ps 4", Some("A=- ")), ("ps 7", None), ("ps 6", Some("A=8=5:3 W=8=5:3 ")), ("pn 5 2", Some("A=8=5:2 W=- ")),
                ("pf 9:1 8:6 -", Some("A=- ")), ("ps 11", None), ("ps 10", Some("A=12=9:1 ")), ("pw 12", Some("ready 9:1 ")), ("pp 9", None), ("ps 8", Some("A=- ")),
                ("pn 9 4", Some("A=12=9:4 ")), ("pq 12", Some("q=9:1,9:4"))]),
        ];
        for (name, steps) in &witnesses {
            rec.begin_case("pr-witness");
            let mut t = VerifParentReadyTracker::default();
            let mut waiters: BTreeMap<u64, tokio::sync::oneshot::Receiver<alpenglow::BlockId>> = BTreeMap::new();
            let mut dead = false;
            for (line, expect) in steps {
                if dead { break; }
                let w: Vec<&str> = line.split(' ').collect();
                let num = |x: &str| x.parse::<u64>().expect("number");
                let blk = |x: &str| { let p: Vec<&str> = x.split(':').collect(); (num(p[0]), num(p[1])) };
                let dump = |t: &VerifParentReadyTracker| fmt_pr_states(t.root(), &t.states());
                let out = match w[0] {
                    "pn" | "ps" | "pf" => {
                        let r = catch(|| match w[0] {
                            "pn" => t.mark_notar_fallback(&bid((num(w[1]), num(w[2])))),
                            "ps" => t.mark_skipped(Slot::new(num(w[1]))),
                            _ => {
                                let f = if w[1] == "-" { None } else { Some(bid(blk(w[1]))) };
                                let i = if w[2] == "-" { vec![] } else { w[2].split(',').map(|x| bid(blk(x))).collect() };
                                let k = if w[3] == "-" { vec![] } else { w[3].split(',').map(|x| Slot::new(num(x))).collect() };
                                t.handle_finalization((f, i, k))
                            }
                        });
                        match r {
                            Err(_) => { dead = true; "panic".to_string() }
                            Ok(a) => {
                                let ann: Vec<Ann> = a.iter().map(|(s, b)| (s.inner(), unbid(b))).collect();
                                let wakes = poll_waiters(&mut waiters);
                                format!("A={} W={} {}", fmt_ann(&ann), fmt_ann(&wakes), dump(&t))
                            }
                        }
                    }
                    "pp" => { t.prune(Slot::new(num(w[1]))); dump(&t) }
                    "pq" => format!("q={}", fmt_list(t.parents_ready(Slot::new(num(w[1]))).iter().map(|b| fmt_blk(unbid(b))).collect())),
                    "pw" => match catch(|| t.wait_for_parent_ready(Slot::new(num(w[1])))) {
                        Err(_) => { dead = true; "panic".to_string() }
                        Ok(e) if e.is_left() => format!("ready {} {}", fmt_blk(unbid(&e.left().unwrap())), dump(&t)),
                        Ok(e) => { waiters.insert(num(w[1]), e.right().unwrap()); format!("waiting {}", dump(&t)) }
                    },
                    _ => unreachable!(),
                };
                rec.step(line, &out);
                if let Some(want) = expect {
                    rec.oracle(out.starts_with(want), "pr-witness-differs", || format!("witness {name}, step `{line}`: the real tracker answers `{out}`, the Lean witness theorem states `{want}..`"));
                }
            }
            rec.count(&format!("pr:witness:{name}"));
            rec.end_case(fnv(0, name), true);
        }
    }

    // ---- shape pool-world: certificates and blocks through a real PoolImpl, finalization-driven pruning
    let rt = tokio::runtime::Builder::new_current_thread().build().expect("runtime");
    let mut factory = CertFactory::new();
    let n_pool = if args.thorough { 15000 } else { 3000 };
    for i in 0..n_pool {
        let w = gen_world(&mut rng, if i % 5 == 0 { 14 } else { 9 });
        let mut ops = world_pops(&mut rng, &w);
        for _ in 0..rng.below(3) {
            let o = *rng.pick(&ops);
            ops.push(o);
        }
        match rng.below(5) {
            0 => {}
            1 => ops.reverse(),
            _ => rng.shuffle(&mut ops),
        }
        let max_s = (w.top + 6) / W * W + W;
        // waiters and queries for window starts
        let mut with_q: Vec<POp> = Vec::new();
        let mut waited: BTreeSet<u64> = BTreeSet::new();
        for op in ops {
            if rng.chance(1, 6) {
                let s = W * rng.range(1, max_s / W);
                if rng.chance(1, 2) {
                    with_q.push(POp::Query(s));
                } else if waited.insert(s) {
                    with_q.push(POp::Wait(s));
                }
            }
            with_q.push(op);
        }
        rec.begin_case("pool-world");
        let mut r = PoolRun::new(&factory, max_s);
        for op in &with_q {
            r.apply(&mut rec, &rt, &mut factory, op);
        }
        rec.end_case(r.class, !r.all_ann.is_empty());
    }

    rec.finish(&args, serde_json::json!({ "direct": n_direct, "safe": n_safe, "witnesses": 6, "perm_sets": n_sets, "pool_worlds": n_pool }));
}
