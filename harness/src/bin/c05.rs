//! C05 — a correct node's own votes obey the voting rules: correspondence of the real `Votor`
//! (driven one event at a time through the `verif-hooks` wrappers, with a recording `All2All`) with
//! `AgModel.Votor`, plus an independent oracle that re-states the voting rules on what the real code
//! broadcast, and feeds the broadcast votes to a real `PoolImpl` (never `Slashable`).
//!
//! ops (one per line; block hashes are interned ids, 0 = genesis):
//!   new                    Votor::new                                   (first op of every case)
//!   pr s ps ph             PoolEvent::ParentReady{slot s, parent (ps, ph)}
//!   s2n s h | s2s s        PoolEvent::SafeToNotar((s,h)) | SafeToSkip(s)
//!   cert <n|nf|s|ff|f> s h PoolEvent::CertCreated(cert of that kind; h ignored for s / f)
//!   ss s id..              PoolEvent::Standstill(s, certs, votes) — ids of the messages, certs first
//!   fs s | ib s            BlockstoreEvent::FirstShred | InvalidBlock
//!   blk s h ps ph          BlockstoreEvent::Block{slot s, BlockInfo{hash h, parent (ps, ph)}}
//!   to s | tc s            VotorTimeout::Timeout | TimeoutCrashedLeader
//! output: `<broadcasts in order, then timer requests> | h<highest_final_cert_slot> | <changed slots>`
use std::collections::{BTreeMap, HashMap};
use std::sync::{Arc, Mutex};
use std::time::Duration;

use ag_harness::*;
use alpenglow::consensus::{
    BlockInfo, BlockstoreEvent, Cert, ConsensusMessage, EpochInfo, FastFinalCert, FinalCert, NotarCert, NotarFallbackCert,
    NotarVote, Pool, PoolEvent, PoolImpl, SkipCert, ValidatedVote, ValidatorEpochInfo, VerifSlotSnapshot, Vote, Votor,
    AddVoteError, FinalVote, SkipVote,
};
use alpenglow::crypto::merkle::{BlockHash, GENESIS_BLOCK_HASH};
use alpenglow::crypto::{Hash, aggsig, signature};
use alpenglow::network::localhost_ip_sockaddr;
use alpenglow::types::{SLOTS_PER_WINDOW, Slot};
use alpenglow::{All2All, Stake, ValidatorIndex, ValidatorInfo};

const W: u64 = SLOTS_PER_WINDOW;
const N_VALIDATORS: u64 = 6;
const OWN: u64 = 2;

// ---------------------------------------------------------------- recording All2All
#[derive(Default)]
struct RecA2A {
    msgs: Mutex<Vec<ConsensusMessage>>,
}
impl All2All for RecA2A {
    async fn broadcast(&self, msg: &ConsensusMessage) -> std::io::Result<()> {
        self.msgs.lock().unwrap().push(msg.clone());
        Ok(())
    }
    async fn receive(&self) -> std::io::Result<ConsensusMessage> {
        std::future::pending().await
    }
}

// ---------------------------------------------------------------- hashes
fn bh(id: u64) -> BlockHash {
    // adversarial interning: the blocks s*8+1.. of one slot differ in a single byte (see `ag_harness::advhash`)
    advhash::block_hash(id)
}
fn hid(h: &BlockHash) -> String {
    advhash::block_id(h).map(|x| x.to_string()).unwrap_or_else(|| "?".into())
}
fn hid_u(h: &BlockHash) -> u64 {
    hid(h).parse().unwrap_or(u64::MAX)
}

// ---------------------------------------------------------------- events
#[derive(Clone, Copy, Debug, PartialEq, Eq, Hash, PartialOrd, Ord)]
enum K {
    N,
    Nf,
    S,
    Ff,
    F,
}
impl K {
    fn s(self) -> &'static str {
        match self {
            K::N => "n",
            K::Nf => "nf",
            K::S => "s",
            K::Ff => "ff",
            K::F => "f",
        }
    }
}
#[derive(Clone, Debug, PartialEq)]
enum Ev {
    Pr(u64, u64, u64),
    S2n(u64, u64),
    S2s(u64),
    Cert(K, u64, u64),
    Ss(u64),
    Fs(u64),
    Ib(u64),
    Blk(u64, u64, u64, u64),
    To(u64),
    Tc(u64),
}

/// what the node broadcast (own votes), as the oracle sees it
#[derive(Clone, Copy, Debug, PartialEq, Eq)]
enum OV {
    N(u64, u64),
    S(u64),
    F(u64),
    Nf(u64, u64),
    Sf(u64),
}
impl OV {
    fn slot(self) -> u64 {
        match self {
            OV::N(s, _) | OV::S(s) | OV::F(s) | OV::Nf(s, _) | OV::Sf(s) => s,
        }
    }
    fn initial(self) -> bool {
        matches!(self, OV::N(..) | OV::S(_))
    }
}
/// the slashable combinations of `SlashableOffence`, restated
fn slashable_pair(a: OV, b: OV) -> bool {
    if a.slot() != b.slot() {
        return false;
    }
    let one = |a: OV, b: OV| match (a, b) {
        (OV::N(_, h1), OV::N(_, h2)) => h1 != h2,
        (OV::S(_), OV::N(..)) => true,
        (OV::S(_), OV::F(_)) | (OV::Sf(_), OV::F(_)) => true,
        (OV::Nf(..), OV::F(_)) => true,
        _ => false,
    };
    one(a, b) || one(b, a)
}

struct World {
    sks: Vec<aggsig::SecretKey>,
    epoch: EpochInfo,
    certs: HashMap<(K, u64, u64), Cert>,
}
impl World {
    fn new(rng: &mut Rng) -> Self {
        let mut sks = Vec::new();
        let mut validators = Vec::new();
        for i in 0..N_VALIDATORS {
            let sk = signature::SecretKey::new(rng);
            let vsk = aggsig::SecretKey::new(rng);
            validators.push(ValidatorInfo {
                id: ValidatorIndex::new(i),
                stake: Stake::new(1),
                pubkey: sk.to_pk(),
                voting_pubkey: vsk.to_pk(),
                all2all_address: localhost_ip_sockaddr(0),
                disseminator_address: localhost_ip_sockaddr(0),
                repair_requester_address: localhost_ip_sockaddr(0),
                repair_responder_address: localhost_ip_sockaddr(0),
            });
            sks.push(vsk);
        }
        Self { sks, epoch: EpochInfo::new(validators), certs: HashMap::new() }
    }
    /// a certificate of the given kind signed by validator 0 (Votor does not validate certificates)
    fn cert(&mut self, k: K, s: u64, h: u64) -> Cert {
        let key = (k, s, if matches!(k, K::S | K::F) { 0 } else { h });
        if let Some(c) = self.certs.get(&key) {
            return c.clone();
        }
        let (sk, ix, vals) = (&self.sks[0], ValidatorIndex::new(0), self.epoch.validators());
        let slot = Slot::new(s);
        let c = match k {
            K::N => Cert::Notar(NotarCert::new(&[NotarVote::new(slot, bh(h), sk, ix)], vals)),
            K::Nf => Cert::NotarFallback(NotarFallbackCert::new(&[NotarVote::new(slot, bh(h), sk, ix)], &[], vals)),
            K::S => Cert::Skip(SkipCert::new(&[SkipVote::new(slot, sk, ix)], &[], vals)),
            K::Ff => Cert::FastFinal(FastFinalCert::new(&[NotarVote::new(slot, bh(h), sk, ix)], vals)),
            K::F => Cert::Final(FinalCert::new(&[FinalVote::new(slot, sk, ix)], vals)),
        };
        self.certs.insert(key, c.clone());
        c
    }
}

fn b01(b: bool) -> &'static str {
    if b { "1" } else { "0" }
}
fn opt(h: &Option<BlockHash>) -> String {
    h.as_ref().map(hid).unwrap_or_else(|| "-".into())
}
fn st_str(s: &VerifSlotSnapshot) -> String {
    let mut ps: Vec<(u64, u64)> = s.parents_ready.iter().map(|(sl, h)| (sl.inner(), hid_u(h))).collect();
    ps.sort();
    let ps = ps.iter().map(|(a, b)| format!("{a}:{b}")).collect::<Vec<_>>().join(",");
    let pb = s.pending_block.as_ref().map(|(h, (psl, ph))| format!("{}:{}:{}", hid(h), psl.inner(), hid(ph))).unwrap_or_else(|| "-".into());
    format!(
        "{}=v{}n{}b{}c{}p[{}]x{}q{}r{}",
        s.slot.inner(),
        b01(s.voted),
        opt(&s.voted_notar),
        b01(s.bad_window),
        opt(&s.block_notarized),
        ps,
        b01(s.received_shred),
        pb,
        b01(s.retired)
    )
}
fn diff_str(old: &[VerifSlotSnapshot], new: &[VerifSlotSnapshot]) -> String {
    let mut out = Vec::new();
    for o in old {
        if !new.iter().any(|n| n.slot == o.slot) {
            out.push(format!("-{}", o.slot.inner()));
        }
    }
    for n in new {
        if !old.iter().any(|o| o == n) {
            out.push(st_str(n));
        }
    }
    out.join(" ")
}

fn cert_str(c: &Cert) -> String {
    let (k, h) = match c {
        Cert::Notar(n) => (K::N, hid(n.block_hash())),
        Cert::NotarFallback(n) => (K::Nf, hid(n.block_hash())),
        Cert::Skip(_) => (K::S, "0".into()),
        Cert::FastFinal(n) => (K::Ff, hid(n.block_hash())),
        Cert::Final(_) => (K::F, "0".into()),
    };
    format!("C{}{}:{}", k.s(), c.slot().inner(), h)
}
fn vote_ov(v: &Vote) -> OV {
    let s = v.slot().inner();
    match v {
        Vote::Notar(n) => OV::N(s, hid_u(n.block_hash())),
        Vote::NotarFallback(n) => OV::Nf(s, hid_u(n.block_hash())),
        Vote::Skip(_) => OV::S(s),
        Vote::SkipFallback(_) => OV::Sf(s),
        Vote::Final(_) => OV::F(s),
    }
}
fn ov_str(o: OV) -> String {
    let h = |h: u64| if h == u64::MAX { "?".to_string() } else { h.to_string() };
    match o {
        OV::N(s, x) => format!("N{s}:{}", h(x)),
        OV::S(s) => format!("S{s}"),
        OV::F(s) => format!("F{s}"),
        OV::Nf(s, x) => format!("NF{s}:{}", h(x)),
        OV::Sf(s) => format!("SF{s}"),
    }
}
fn msg_bytes(m: &ConsensusMessage) -> Vec<u8> {
    wincode::serialize(m).expect("serialize message")
}

/// shape parameters of one generated case (percentages)
#[derive(Clone, Copy)]
struct Shape {
    name: &'static str,
    p_block0: u64,
    p_more_blocks: u64,
    p_good_parent: u64,
    p_pr: u64,
    p_cert_n: u64,
    p_final: u64,
    p_fast: u64,
    p_s2: u64,
    p_timer: u64,
    p_react: u64,
    jitter: &'static [i64],
}
const SHAPES: &[Shape] = &[
    Shape { name: "chain", p_block0: 97, p_more_blocks: 8, p_good_parent: 95, p_pr: 97, p_cert_n: 85, p_final: 45, p_fast: 10, p_s2: 5, p_timer: 25, p_react: 40, jitter: &[0, 20, 60] },
    Shape { name: "faulty", p_block0: 75, p_more_blocks: 35, p_good_parent: 80, p_pr: 85, p_cert_n: 55, p_final: 20, p_fast: 5, p_s2: 25, p_timer: 90, p_react: 60, jitter: &[10, 60, 150] },
    Shape { name: "chaos", p_block0: 85, p_more_blocks: 40, p_good_parent: 60, p_pr: 80, p_cert_n: 60, p_final: 25, p_fast: 10, p_s2: 30, p_timer: 60, p_react: 50, jitter: &[150, 400, 3000] },
    Shape { name: "prune", p_block0: 90, p_more_blocks: 15, p_good_parent: 90, p_pr: 90, p_cert_n: 70, p_final: 60, p_fast: 25, p_s2: 15, p_timer: 50, p_react: 50, jitter: &[30, 200, 600] },
];

struct Plan {
    /// (key, seq, event) kept sorted by (key, seq); executed front to back
    evs: Vec<(i64, u64, Ev)>,
    seq: u64,
}
impl Plan {
    fn add(&mut self, key: i64, ev: Ev) {
        self.seq += 1;
        let pos = self.evs.partition_point(|(k, q, _)| (*k, *q) <= (key, self.seq));
        self.evs.insert(pos, (key, self.seq, ev));
    }
}

fn gen_plan(rng: &mut Rng, sh: &Shape, nslots: u64, blocks: &mut BTreeMap<u64, Vec<(u64, u64, u64)>>) -> Plan {
    let mut raw: Vec<(i64, Ev)> = Vec::new();
    let jit = *rng.pick(sh.jitter);
    let r = |rng: &mut Rng, lo: i64, hi: i64| lo + rng.below((hi - lo + 1) as u64) as i64;
    for s in 1..=nslots {
        let base = s as i64 * 100;
        // ---- blocks of this slot
        let mut nb = if rng.chance(sh.p_block0, 100) { 1 } else { 0 };
        while nb > 0 && nb < 3 && rng.chance(sh.p_more_blocks, 100) {
            nb += 1;
        }
        let tip_slot = (0..s).rev().find(|t| *t == 0 || blocks.get(t).is_some_and(|b| !b.is_empty())).unwrap_or(0);
        let tip = |rng: &mut Rng, t: u64, first: bool| -> (u64, u64) {
            if t == 0 {
                (0, 0)
            } else {
                let bs = &blocks[&t];
                (t, if first { bs[0].0 } else { rng.pick(bs).0 })
            }
        };
        let mut here = Vec::new();
        for j in 0..nb {
            let h = s * 8 + j + 1;
            let (ps, ph) = if rng.chance(sh.p_good_parent, 100) {
                tip(rng, tip_slot, true)
            } else {
                match rng.below(4) {
                    0 => tip(rng, tip_slot, false),
                    1 => {
                        let t = rng.below(s);
                        let t = (0..=t).rev().find(|t| *t == 0 || blocks.get(t).is_some_and(|b| !b.is_empty())).unwrap_or(0);
                        tip(rng, t, false)
                    }
                    2 => (s - 1, 900 + rng.below(3)),
                    _ => (s + rng.below(3), 900 + rng.below(3)),
                }
            };
            here.push((h, ps, ph));
        }
        if !here.is_empty() && rng.chance(88, 100) {
            raw.push((base + r(rng, 0, 20), Ev::Fs(s)));
        }
        for (h, ps, ph) in &here {
            raw.push((base + r(rng, 20, 60), Ev::Blk(s, *h, *ps, *ph)));
        }
        // ---- parent ready (window starts; rarely, nonsensically, elsewhere)
        if s % W == 0 {
            if rng.chance(sh.p_pr, 100) {
                let (ps, ph) = if let Some(b) = here.first().filter(|_| rng.chance(85, 100)) { (b.1, b.2) } else { tip(rng, tip_slot, false) };
                raw.push((base + r(rng, -20, 30), Ev::Pr(s, ps, ph)));
            }
            if rng.chance(15, 100) {
                let t = (0..s).rev().find(|t| *t == 0 || (blocks.get(t).is_some_and(|b| !b.is_empty()) && rng.chance(1, 2))).unwrap_or(0);
                let (ps, ph) = tip(rng, t, false);
                raw.push((base + r(rng, -20, 120), Ev::Pr(s, ps, ph)));
            }
        } else if rng.chance(1, 400) {
            raw.push((base + r(rng, 0, 100), Ev::Pr(s, tip_slot, 0)));
        }
        // ---- certificates
        if let Some(b) = here.first() {
            if rng.chance(sh.p_cert_n, 100) {
                raw.push((base + r(rng, 50, 110), Ev::Cert(K::N, s, b.0)));
            }
            if rng.chance(sh.p_fast, 100) {
                raw.push((base + r(rng, 60, 160), Ev::Cert(K::Ff, s, b.0)));
            }
            if rng.chance(8, 100) {
                raw.push((base + r(rng, 60, 200), Ev::Cert(K::Nf, s, rng.pick(&here).0)));
            }
        }
        if here.len() > 1 && rng.chance(10, 100) {
            raw.push((base + r(rng, 50, 150), Ev::Cert(K::N, s, here[1].0)));
        }
        if rng.chance(sh.p_final, 100) {
            raw.push((base + r(rng, 90, 170), Ev::Cert(K::F, s, 0)));
        }
        if rng.chance(8, 100) {
            raw.push((base + r(rng, 60, 250), Ev::Cert(K::S, s, 0)));
        }
        // ---- fallback conditions announced by the pool (unprompted ones; reactive ones are added while running)
        if rng.chance(sh.p_s2, 100) {
            let h = if here.is_empty() || rng.chance(1, 5) { 900 + rng.below(3) } else { rng.pick(&here).0 };
            raw.push((base + r(rng, 60, 220), Ev::S2n(s, h)));
        }
        if rng.chance(sh.p_s2, 100) {
            raw.push((base + r(rng, 60, 220), Ev::S2s(s)));
        }
        // ---- spurious timeouts / invalid block / standstill
        if rng.chance(5, 100) {
            raw.push((base + r(rng, 0, 300), Ev::To(s)));
        }
        if rng.chance(5, 100) {
            raw.push((base + r(rng, 0, 200), Ev::Tc(s)));
        }
        if rng.chance(4, 100) {
            raw.push((base + r(rng, 20, 120), Ev::Ib(s)));
        }
        if rng.chance(3, 100) {
            raw.push((base + r(rng, 0, 300), Ev::Ss(s)));
        }
        blocks.insert(s, here);
    }
    if rng.chance(1, 60) {
        raw.push((r(rng, 0, nslots as i64 * 100), Ev::Cert(K::N, 0, 0)));
    }
    // duplicates and stale re-deliveries
    let n = raw.len();
    for i in 0..n {
        if rng.chance(8, 100) {
            let (k, e) = raw[i].clone();
            let span = if rng.chance(1, 3) { 1500 } else { 150 };
            raw.push((k + r(rng, 0, span), e));
        }
    }
    let mut plan = Plan { evs: Vec::new(), seq: 0 };
    for (k, e) in raw {
        let k = k + if jit > 0 { r(rng, -jit, jit) } else { 0 };
        plan.add(k, e);
    }
    plan
}

fn main() {
    let args = Args::parse();
    quiet_panics();
    let mut rng = Rng::new(args.seed);
    let mut rec = Recorder::new();
    let mut world = World::new(&mut rng);
    let rt = tokio::runtime::Builder::new_current_thread().enable_time().start_paused(true).build().expect("runtime");
    let own_pk = world.epoch.validator(ValidatorIndex::new(OWN)).voting_pubkey.clone();

    let ncases: u64 = if args.thorough { 15000 } else { 1400 };
    let pool_every: u64 = if args.thorough { 2 } else { 5 };
    let sig_every: u64 = if args.thorough { 3 } else { 10 };
    let max_events = if args.thorough { 200 } else { 140 };

    for case_no in 0..ncases {
        let sh = &SHAPES[(case_no % SHAPES.len() as u64) as usize];
        let nslots = rng.range(5, if sh.name == "prune" { 22 } else { 17 });
        let mut blocks: BTreeMap<u64, Vec<(u64, u64, u64)>> = BTreeMap::new();
        let mut plan = gen_plan(&mut rng, sh, nslots, &mut blocks);
        // blockstore events carry whatever slot the leader of that slot signed: a few cases mix in events for
        // far-away slots, up to the last leader window (defect D33: window arithmetic overflowed there)
        if case_no % 5 == 2 && !plan.evs.is_empty() {
            const FAR: [u64; 8] = [u64::MAX, u64::MAX - 1, u64::MAX - 3, u64::MAX - 4, u64::MAX - 7, 1 << 63, (1 << 32) + 1, 72_001];
            for _ in 0..rng.range(1, 4) {
                let f = FAR[rng.below(FAR.len() as u64) as usize];
                let key = plan.evs[rng.below(plan.evs.len() as u64) as usize].0;
                let ev = match rng.below(3) { 0 => Ev::Fs(f), 1 => Ev::Ib(f), _ => Ev::Blk(f, 900 + rng.below(3), f - 1 - rng.below(2), 899) };
                plan.add(key, ev);
                rec.count("far-slot-event");
            }
        }
        rec.begin_case(sh.name);
        let mut class = 0u64;

        // ---- the real Votor
        let a2a = Arc::new(RecA2A::default());
        let (_pool_tx, pool_rx) = tokio::sync::mpsc::channel::<PoolEvent>(4);
        let (_bs_tx, bs_rx) = tokio::sync::mpsc::channel::<BlockstoreEvent>(4);
        let sk = world.sks[OWN as usize].clone();
        let mut votor = {
            let _g = rt.enter();
            Votor::new(ValidatorIndex::new(OWN), sk, pool_rx, bs_rx, a2a.clone())
        };
        let mut snap: Vec<VerifSlotSnapshot> = Vec::new();

        // ---- oracle history (what was delivered, what was broadcast)
        let mut h_blocks: Vec<(u64, u64, u64, u64)> = Vec::new();
        let mut h_prs: Vec<(u64, u64, u64)> = Vec::new();
        let mut h_ncerts: Vec<(u64, u64)> = Vec::new();
        let mut h_votes: Vec<OV> = Vec::new();
        let mut real_votes: Vec<Vote> = Vec::new();
        let mut msg_table: Vec<ConsensusMessage> = Vec::new();
        let mut max_final: u64 = 0;
        let mut cur_key: i64 = 0;
        let mut first = true;
        let mut nevents = 0;
        let mut panicked = false;

        loop {
            // ---------------- pick the next operation
            let ev: Option<Ev> = if first {
                None
            } else if nevents >= max_events || plan.evs.is_empty() {
                break;
            } else {
                let (k, _, e) = plan.evs.remove(0);
                cur_key = cur_key.max(k);
                nevents += 1;
                Some(e)
            };
            // ---------------- build and deliver the real event
            let mut relay_ids: Vec<usize> = Vec::new();
            let op = match &ev {
                None => "new".to_string(),
                Some(Ev::Pr(s, ps, ph)) => format!("pr {s} {ps} {ph}"),
                Some(Ev::S2n(s, h)) => format!("s2n {s} {h}"),
                Some(Ev::S2s(s)) => format!("s2s {s}"),
                Some(Ev::Cert(k, s, h)) => format!("cert {} {s} {}", k.s(), if matches!(k, K::S | K::F) { 0 } else { *h }),
                Some(Ev::Ss(s)) => {
                    // certificates first, then votes (as `Standstill(_, certs, votes)` is laid out)
                    let mut ids: Vec<usize> = (0..msg_table.len()).filter(|_| rng.chance(1, 3)).collect();
                    ids.truncate(6);
                    ids.sort_by_key(|i| matches!(msg_table[*i], ConsensusMessage::Vote(_)));
                    relay_ids = ids.clone();
                    format!("ss {s} {}", ids.iter().map(|i| i.to_string()).collect::<Vec<_>>().join(" ")).trim_end().to_string()
                }
                Some(Ev::Fs(s)) => format!("fs {s}"),
                Some(Ev::Ib(s)) => format!("ib {s}"),
                Some(Ev::Blk(s, h, ps, ph)) => format!("blk {s} {h} {ps} {ph}"),
                Some(Ev::To(s)) => format!("to {s}"),
                Some(Ev::Tc(s)) => format!("tc {s}"),
            };
            // history the oracle may use: the event counts as seen from this step on
            let voted_before = |s: u64, hv: &Vec<OV>| hv.iter().any(|o| o.initial() && o.slot() == s);
            let mut consistent = false;
            match &ev {
                Some(Ev::Blk(s, h, ps, ph)) => h_blocks.push((*s, *h, *ps, *ph)),
                Some(Ev::Pr(s, ps, ph)) => h_prs.push((*s, *ps, *ph)),
                Some(Ev::Cert(K::N, s, h)) => h_ncerts.push((*s, *h)),
                Some(Ev::S2n(s, _)) | Some(Ev::S2s(s)) => consistent = voted_before(*s, &h_votes),
                _ => {}
            }
            let final_before = max_final;
            if let Some(Ev::Cert(K::F | K::Ff, s, _)) = &ev {
                max_final = max_final.max(*s);
            }
            a2a.msgs.lock().unwrap().clear();
            let res = match &ev {
                None => Ok(()),
                Some(e) => {
                    let pe: Option<PoolEvent> = match e {
                        Ev::Pr(s, ps, ph) => Some(PoolEvent::ParentReady { slot: Slot::new(*s), parent: (Slot::new(*ps), bh(*ph)) }),
                        Ev::S2n(s, h) => Some(PoolEvent::SafeToNotar((Slot::new(*s), bh(*h)))),
                        Ev::S2s(s) => Some(PoolEvent::SafeToSkip(Slot::new(*s))),
                        Ev::Cert(k, s, h) => {
                            let c = world.cert(*k, *s, *h);
                            if !msg_table.iter().any(|m| matches!(m, ConsensusMessage::Cert(c2) if *c2 == c)) {
                                msg_table.push(ConsensusMessage::Cert(c.clone()));
                            }
                            Some(PoolEvent::CertCreated(c))
                        }
                        Ev::Ss(s) => {
                            let mut certs = Vec::new();
                            let mut votes = Vec::new();
                            for i in &relay_ids {
                                match &msg_table[*i] {
                                    ConsensusMessage::Cert(c) => certs.push(c.clone()),
                                    ConsensusMessage::Vote(v) => votes.push(v.clone()),
                                }
                            }
                            Some(PoolEvent::Standstill(Slot::new(*s), certs, votes))
                        }
                        _ => None,
                    };
                    let be: Option<BlockstoreEvent> = match e {
                        Ev::Fs(s) => Some(BlockstoreEvent::FirstShred(Slot::new(*s))),
                        Ev::Ib(s) => Some(BlockstoreEvent::InvalidBlock(Slot::new(*s))),
                        Ev::Blk(s, h, ps, ph) => Some(BlockstoreEvent::Block { slot: Slot::new(*s), block_info: BlockInfo::verif_new(bh(*h), (Slot::new(*ps), bh(*ph))) }),
                        _ => None,
                    };
                    let v = &mut votor;
                    catch(|| {
                        rt.block_on(async {
                            if let Some(pe) = pe {
                                v.verif_pool_event(pe).await;
                            } else if let Some(be) = be {
                                v.verif_blockstore_event(be).await;
                            } else if let Ev::To(s) = e {
                                v.verif_timeout(Slot::new(*s), false).await;
                            } else if let Ev::Tc(s) = e {
                                v.verif_timeout(Slot::new(*s), true).await;
                            }
                        })
                    })
                }
            };
            first = false;
            // let the timer tasks run to completion under the paused clock, then collect what they sent
            // (only the events that can reach `set_timeouts`; a timer requested elsewhere would surface at the next such step)
            if matches!(ev, None | Some(Ev::Pr(..)) | Some(Ev::Cert(K::F | K::Ff, ..))) || nevents % 16 == 0 {
                rt.block_on(async { tokio::time::sleep(Duration::from_secs(30)).await });
            }
            let timers = votor.verif_drain_timeouts();
            let sent: Vec<ConsensusMessage> = a2a.msgs.lock().unwrap().drain(..).collect();
            let (hfcs, new_snap) = votor.verif_snapshot();

            // ---------------- canonical output line
            let mut outs: Vec<String> = Vec::new();
            let standstill = matches!(ev, Some(Ev::Ss(_)));
            let mut new_votes: Vec<(OV, Vote)> = Vec::new();
            if standstill {
                for (j, m) in sent.iter().enumerate() {
                    let ok = relay_ids.get(j).is_some_and(|i| msg_bytes(&msg_table[*i]) == msg_bytes(m));
                    outs.push(if ok { format!("R{}", relay_ids[j]) } else { "R?".into() });
                }
                rec.oracle(sent.len() == relay_ids.len() && !outs.iter().any(|o| o == "R?"), "standstill-relay-exact", || {
                    format!("{op}: re-broadcast {:?} differs from the bundle {:?}", outs, relay_ids)
                });
            } else {
                for m in &sent {
                    match m {
                        ConsensusMessage::Vote(v) => {
                            let o = vote_ov(v);
                            outs.push(ov_str(o));
                            new_votes.push((o, v.clone()));
                        }
                        ConsensusMessage::Cert(c) => outs.push(cert_str(c)),
                    }
                }
            }
            // timers: groups of (s,crashed) (s,timeout) .. (s+W-1,timeout)
            let mut i = 0;
            let mut timer_slots = Vec::new();
            while i < timers.len() {
                let s = timers[i].0;
                let want: Vec<(Slot, bool)> = std::iter::once((s, true)).chain((0..W).map(|d| (Slot::new(s.inner() + d), false))).collect();
                if timers.len() >= i + want.len() && timers[i..i + want.len()] == want[..] {
                    outs.push(format!("T{}", s.inner()));
                    timer_slots.push(s.inner());
                    i += want.len();
                } else {
                    outs.push("T?".into());
                    i += 1;
                }
            }
            let mut line = format!("{} | h{} | {}", outs.join(","), hfcs.inner(), diff_str(&snap, &new_snap));
            if res.is_err() {
                line.push_str(" | panic");
                panicked = true;
            }
            snap = new_snap;
            rec.step(&op, &line);
            for o in &outs {
                let kind: String = o.chars().take_while(|c| c.is_ascii_alphabetic()).collect();
                rec.count(&format!("out:{kind}"));
                class = fnv(class, &kind);
            }
            rec.count(&format!("ev:{}", op.split(' ').next().unwrap_or("")));

            // ---------------- the property oracle, on what the real code did
            let sane_input = !matches!(ev, Some(Ev::Pr(s, _, _)) if s % W != 0);
            if let Err(msg) = &res {
                rec.count("panic");
                rec.oracle(!sane_input, "votor-panics", || format!("{op}: Votor panicked: {msg}"));
            }
            for (o, v) in &new_votes {
                let o = *o;
                let s = o.slot();
                // own key and index
                // (BLS verification is ~1 ms: sampled here; every vote of the pool-fed cases is verified by `ValidatedVote`)
                let sig_ok = !rng.chance(1, sig_every) || v.check_sig(&own_pk);
                rec.oracle(v.signer() == ValidatorIndex::new(OWN) && sig_ok, "own-key-and-index", || {
                    format!("{op}: vote {} not signed by the node's own key/index", ov_str(o))
                });
                // nothing for pruned slots
                rec.oracle(s >= final_before / W * W, "vote-for-pruned-slot", || {
                    format!("{op}: vote {} although a final certificate for slot {final_before} was seen before", ov_str(o))
                });
                let had = |p: &dyn Fn(&OV) -> bool| h_votes.iter().any(|x| x.slot() == s && p(x));
                match o {
                    OV::N(_, h) => {
                        rec.oracle(!had(&|x| x.initial()), "two-initial-votes", || format!("{op}: {} after another initial vote in the slot; votes so far {:?}", ov_str(o), h_votes));
                        let ok = h_blocks.iter().any(|(bs, bhh, ps, ph)| {
                            *bs == s && *bhh == h && if s % W == 0 {
                                h_prs.contains(&(s, *ps, *ph))
                            } else {
                                *ps + 1 == s && ((*ps == 0 && *ph == 0) || h_votes.contains(&OV::N(*ps, *ph)))
                            }
                        });
                        rec.oracle(ok, "notar-parent-not-acceptable", || {
                            format!("{op}: {} but no delivered block ({s},{h}) has an acceptable parent; blocks {:?} parent-ready {:?} own votes {:?}", ov_str(o), h_blocks.iter().filter(|b| b.0 == s).collect::<Vec<_>>(), h_prs, h_votes)
                        });
                        rec.oracle(!had(&|x| matches!(x, OV::F(_))), "initial-after-final", || format!("{op}: {} after finalizing", ov_str(o)));
                    }
                    OV::S(_) => {
                        rec.oracle(!had(&|x| x.initial()), "two-initial-votes", || format!("{op}: {} after another initial vote in the slot; votes so far {:?}", ov_str(o), h_votes));
                        rec.oracle(!had(&|x| matches!(x, OV::F(_))), "skip-after-final", || format!("{op}: {} after finalizing", ov_str(o)));
                    }
                    OV::F(_) => {
                        let own = h_votes.iter().find_map(|x| if let OV::N(s2, h) = x { (*s2 == s).then_some(*h) } else { None });
                        let ok = match own {
                            Some(h) => h_ncerts.contains(&(s, h)),
                            None => s == 0 && h_ncerts.contains(&(0, 0)),
                        };
                        rec.oracle(ok, "final-without-own-notarized-block", || {
                            format!("{op}: {} but own notar vote in the slot is {:?} and notarization certificates seen are {:?}", ov_str(o), own, h_ncerts.iter().filter(|c| c.0 == s).collect::<Vec<_>>())
                        });
                        rec.oracle(!had(&|x| matches!(x, OV::S(_) | OV::Sf(_) | OV::Nf(..))), "final-in-bad-slot", || {
                            format!("{op}: {} in a slot with skip / fallback votes; votes so far {:?}", ov_str(o), h_votes)
                        });
                    }
                    OV::Nf(_, h) => {
                        rec.oracle(ev == Some(Ev::S2n(s, h)), "fallback-without-condition", || format!("{op}: {} without the matching SafeToNotar", ov_str(o)));
                        rec.oracle(!had(&|x| matches!(x, OV::F(_))), "fallback-after-final", || format!("{op}: {} after finalizing", ov_str(o)));
                        rec.oracle(!consistent || had(&|x| x.initial()), "fallback-before-initial-vote", || format!("{op}: {} before any initial vote", ov_str(o)));
                    }
                    OV::Sf(_) => {
                        rec.oracle(ev == Some(Ev::S2s(s)), "fallback-without-condition", || format!("{op}: {} without the matching SafeToSkip", ov_str(o)));
                        rec.oracle(!had(&|x| matches!(x, OV::F(_))), "fallback-after-final", || format!("{op}: {} after finalizing", ov_str(o)));
                        rec.oracle(!consistent || had(&|x| x.initial()), "fallback-before-initial-vote", || format!("{op}: {} before any initial vote", ov_str(o)));
                    }
                }
                // naive pairwise slashing check against everything cast so far
                for x in &h_votes {
                    rec.oracle(!slashable_pair(*x, o), "own-votes-slashable", || format!("{op}: own votes {} and {} are a slashable combination", ov_str(*x), ov_str(o)));
                }
                h_votes.push(o);
                real_votes.push(v.clone());
                if msg_table.len() < 40 {
                    msg_table.push(ConsensusMessage::Vote(v.clone()));
                }
            }
            // a fallback vote is always accompanied (at the latest in the same step) by an initial vote
            for (o, _) in &new_votes {
                if matches!(o, OV::Nf(..) | OV::Sf(_)) {
                    let s = o.slot();
                    rec.oracle(h_votes.iter().any(|x| x.initial() && x.slot() == s), "fallback-in-unvoted-slot", || {
                        format!("{op}: {} and no initial vote in the slot by the end of the step", ov_str(*o))
                    });
                }
            }
            // progress (C02): the block the node holds for an unvoted slot is voted on in the very step its parent
            // becomes acceptable (ready parent for a window start; own notarized block of the previous slot otherwise)
            if !panicked && sane_input {
                let mut last: std::collections::BTreeMap<u64, (u64, u64, u64)> = std::collections::BTreeMap::new();
                for (bs, h, ps, ph) in &h_blocks { last.insert(*bs, (*h, *ps, *ph)); }
                for (s, (h, ps, ph)) in last {
                    if s <= max_final || h_votes.iter().any(|x| x.initial() && x.slot() == s) { continue; }
                    let votable = if s % W == 0 { h_prs.contains(&(s, ps, ph)) } else { ps + 1 == s && ((ps == 0 && ph == 0) || h_votes.contains(&OV::N(ps, ph))) };
                    rec.oracle(!votable, "c02-votable-block-not-voted", || format!("{op}: the node holds block ({s},{h}) with parent ({ps},{ph}), the parent is acceptable (parent-ready {:?}, own votes {:?}) and the node has not voted in slot {s}: it will time out on a block it could notarize", h_prs.iter().filter(|p| p.0 == s).collect::<Vec<_>>(), h_votes.iter().filter(|v| v.slot() + 1 >= s && v.slot() <= s).collect::<Vec<_>>()));
                }
            }
            if panicked {
                break;
            }
            // ---------------- reactive events (what the node's own pool and timers would do next)
            for (s, crashed) in &timers {
                if rng.chance(sh.p_timer, 100) {
                    let due = cur_key.max(s.inner() as i64 * 100);
                    let k = due + if *crashed { rng.range(40, 200) } else { rng.range(80, 400) } as i64;
                    plan.add(k, if *crashed { Ev::Tc(s.inner()) } else { Ev::To(s.inner()) });
                }
            }
            for (o, _) in &new_votes {
                if !rng.chance(sh.p_react, 100) {
                    continue;
                }
                let k = cur_key + rng.range(5, 200) as i64;
                match o {
                    OV::N(s, h) => match rng.below(6) {
                        0 => plan.add(k, Ev::S2s(*s)),
                        1 => {
                            let other = blocks.get(s).and_then(|b| b.iter().find(|b| b.0 != *h)).map(|b| b.0).unwrap_or(900);
                            plan.add(k, Ev::S2n(*s, other));
                        }
                        _ => plan.add(k, Ev::Cert(K::N, *s, *h)),
                    },
                    OV::S(s) => {
                        if let Some(b) = blocks.get(s).and_then(|b| b.first()) {
                            if rng.chance(1, 2) {
                                plan.add(k, Ev::S2n(*s, b.0));
                            }
                        }
                        if rng.chance(1, 4) {
                            plan.add(k, Ev::S2s(*s));
                        }
                    }
                    OV::F(s) => {
                        if rng.chance(1, 2) {
                            plan.add(k, Ev::Cert(K::F, *s, 0));
                        }
                    }
                    _ => {}
                }
            }
            let _ = timer_slots;
        }

        // ---------------- every own vote, in a shuffled order, into a real pool: never Slashable
        if case_no % pool_every == 0 && !real_votes.is_empty() {
            let (ptx, mut prx) = tokio::sync::mpsc::channel::<PoolEvent>(4096);
            let (rtx, mut rrx) = tokio::sync::mpsc::channel(4096);
            let vei = Arc::new(ValidatorEpochInfo::new(ValidatorIndex::new(OWN), world.epoch.clone()));
            let mut pool = PoolImpl::new(vei, ptx, rtx);
            let mut order: Vec<usize> = (0..real_votes.len()).collect();
            if case_no % (2 * pool_every) == 0 {
                rng.shuffle(&mut order);
            }
            for i in order {
                let v = real_votes[i].clone();
                let what = ov_str(vote_ov(&v));
                let vv = ValidatedVote::try_new(v, &world.epoch);
                rec.oracle(vv.is_ok(), "own-vote-invalid", || format!("own vote {what} does not validate against the epoch info"));
                let Ok(vv) = vv else { continue };
                let r = catch(|| rt.block_on(async { pool.add_vote(vv).await }));
                while prx.try_recv().is_ok() {}
                while rrx.try_recv().is_ok() {}
                match r {
                    Ok(r) => {
                        rec.count(&format!("pool:{}", match r { Ok(()) => "ok", Err(AddVoteError::Duplicate) => "dup", Err(AddVoteError::SlotOutOfBounds) => "oob", Err(AddVoteError::Slashable(_)) => "slashable" }));
                        rec.oracle(!matches!(r, Err(AddVoteError::Slashable(_))), "pool-says-slashable", || format!("a real PoolImpl rejects own vote {what} as slashable: {r:?}; all own votes {:?}", h_votes));
                    }
                    Err(_) => rec.count("pool:panic"),
                }
            }
        }
        let kinds = |p: &dyn Fn(&OV) -> bool| h_votes.iter().any(|o| p(o));
        let nontrivial = kinds(&|o| matches!(o, OV::N(..))) && (kinds(&|o| matches!(o, OV::S(_))) || kinds(&|o| matches!(o, OV::F(_))));
        rec.end_case(class, nontrivial);
        drop(votor);
    }
    rec.finish(&args, serde_json::json!({ "validators": N_VALIDATORS, "own_index": OWN, "slots_per_window": W }));
}
