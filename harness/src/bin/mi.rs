//! MachInt — the machine-integer layer: the REAL integer arithmetic of `Slot`, `Fraction`, `EpochInfo` and of the
//! trackers' slot loops, driven at extreme values, compared line by line with `AgModel.MachInt` (driver `drv_mi`),
//! plus an oracle that recomputes every result with wider arithmetic (u128 / 32-bit limbs), independent of the model.
//!
//! ops (one per line; `panic` = the call panicked):
//!   first s | last s | next s | prev s        -> `<u64>` | `panic`
//!   isstart s | genwin s | isgen s            -> `true|false`
//!   window s                                  -> the slots of `slots_in_window`, space separated
//!   future s k                                -> the first k slots of `future_slots`
//!   ismet num den value total                 -> `true|false`            (Fraction::new(num, den).is_met(value, total))
//!   epoch s0 s1 ...                           -> `total <t>` | `panic`   (EpochInfo::new; becomes the current epoch)
//!   quorums stake                             -> `<weakest> <weak> <quorum> <strong>` on the current epoch | `noepoch`
//!   leader n s                                -> `<id>` | `panic`        (EpochInfo of n validators, leader(s).id)
//!   prskip s                                  -> `ok` | `panic`          (fresh ParentReadyTracker, mark_skipped(s); s >= 2^32)
//!   finimpl s d                               -> `ok` | `panic`          (fresh FinalityTracker: add_parent((s, h1), (s-d, h2)),
//!                                                 mark_fast_finalized((s, h1)) - the implicit-skip loop; s >= 2^32, 1 <= d <= 3)
//!   timeouts s                                -> `c<s>@<ms> t<s>@<ms> ..` | `panic`  (a real Votor under a paused tokio clock:
//!                                                 verif_set_timeouts(s), then the clock advances 1 ms at a time; `x@ms` = the
//!                                                 timeout event x was queued ms milliseconds after the call)
//!   deltas                                    -> `<DELTA_TIMEOUT ns> <DELTA_BLOCK ns> <DELTA_FIRST_SLICE ns>`
//!   dadd s1 n1 s2 n2 | dsub .. | dmul s n k | dms ms -> `<secs>.<nanos>` | `panic`  (Duration +, saturating_sub, * u32, from_millis)
//!   sadd a b | ssub a b | smul a b | sdivceil a b -> `<u64>` | `panic`      (Stake + - * div_ceil)
//!   fcmp n1 d1 n2 d2                          -> `lt|eq|gt <eq?>`        (Fraction cmp / ==)
//!   windows k                                 -> the first k elements of `Slot::windows()`
//!   winjump j m                               -> `Slot::windows()`: nth(j), then m times next()
//! oracle keys: `mi-timeout` (set_timeouts: the timeout of the i-th slot of a window is not 3*DELTA + (i+1)*DELTA_BLOCK
//! after the call, not in slot order, the crashed-leader timeout not at 3*DELTA + DELTA_FIRST_SLICE, or a panic for a
//! window start), `mi-panic` (a panic although the exact result fits the machine type and the call is not documented to
//! panic there), `mi-value` (a result that differs from the exact one / violates a window law).
use std::num::NonZeroU64;
use std::sync::Arc;
use std::time::Duration;

use ag_harness::*;
use alpenglow::consensus::{ConsensusMessage, EpochInfo, Votor};
use alpenglow::consensus::{BlockstoreEvent, PoolEvent};
use alpenglow::consensus::pool_verif::{VerifFinalityTracker, VerifParentReadyTracker};
use alpenglow::crypto::{aggsig, signature};
use alpenglow::network::dontcare_sockaddr;
use alpenglow::types::{Fraction, SLOTS_PER_EPOCH, SLOTS_PER_WINDOW, Slot};
use alpenglow::{All2All, Stake, ValidatorIndex, ValidatorInfo};

struct NullA2A;
impl All2All for NullA2A {
    async fn broadcast(&self, _msg: &ConsensusMessage) -> std::io::Result<()> {
        Ok(())
    }
    async fn receive(&self) -> std::io::Result<ConsensusMessage> {
        std::future::pending().await
    }
}
fn dur(d: &Duration) -> String {
    format!("{}.{}", d.as_secs(), d.subsec_nanos())
}

const W: u64 = SLOTS_PER_WINDOW;
const MAXU: u128 = u64::MAX as u128;

/// 64x64 -> 128 bit product on 32-bit limbs, little endian (independent of the u128 multiplication under test)
fn mul_limbs(a: u64, b: u64) -> [u32; 4] {
    let (a0, a1) = (a & 0xffff_ffff, a >> 32);
    let (b0, b1) = (b & 0xffff_ffff, b >> 32);
    let p00 = a0 * b0;
    let p01 = a0 * b1;
    let p10 = a1 * b0;
    let p11 = a1 * b1;
    let mut r = [0u32; 4];
    r[0] = p00 as u32;
    let c1 = (p00 >> 32) + (p01 & 0xffff_ffff) + (p10 & 0xffff_ffff);
    r[1] = c1 as u32;
    let c2 = (c1 >> 32) + (p01 >> 32) + (p10 >> 32) + (p11 & 0xffff_ffff);
    r[2] = c2 as u32;
    let c3 = (c2 >> 32) + (p11 >> 32);
    r[3] = c3 as u32;
    r
}
fn ge_limbs(a: [u32; 4], b: [u32; 4]) -> bool {
    for i in (0..4).rev() {
        if a[i] != b[i] {
            return a[i] > b[i];
        }
    }
    true
}
fn exact_is_met(num: u64, den: u64, value: u64, total: u64) -> bool {
    ge_limbs(mul_limbs(value, den), mul_limbs(total, num))
}

struct Cx {
    rec: Recorder,
    rng: Rng,
    pk: signature::PublicKey,
    vpk: aggsig::PublicKey,
    class: u64,
    epoch: Option<(EpochInfo, u128)>,
}

fn show<T: std::fmt::Display>(r: &Result<T, String>) -> String {
    match r {
        Ok(v) => v.to_string(),
        Err(_) => "panic".into(),
    }
}
fn slots(v: &[Slot]) -> String {
    if v.is_empty() { "-".into() } else { v.iter().map(|s| s.inner().to_string()).collect::<Vec<_>>().join(" ") }
}

impl Cx {
    fn out(&mut self, op: String, out: String) {
        self.class = fnv(self.class, op.split(' ').next().unwrap_or(""));
        self.class = fnv(self.class, if out == "panic" { "P" } else { "v" });
        self.rec.count(&format!("out:{}:{}", op.split(' ').next().unwrap_or(""), if out == "panic" { "panic" } else { "value" }));
        self.rec.step(&op, &out);
    }
    /// panic verdict: `fits` = the exact result fits the machine type and the call is not documented to panic here
    fn judge<T>(&mut self, op: &str, r: &Result<T, String>, fits: bool) {
        let bad = r.is_err() && fits;
        let msg = r.as_ref().err().cloned().unwrap_or_default();
        self.rec.oracle(!bad, "mi-panic", || format!("`{op}` panicked ({msg}) although the exact result fits"));
    }
    fn value(&mut self, op: &str, ok: bool, what: impl FnOnce() -> String) {
        self.rec.oracle(ok, "mi-value", || format!("`{op}`: {}", what()));
    }

    fn slot_ops(&mut self, s: u64) {
        let sl = Slot::new(s);
        let f128 = (s as u128 / W as u128) * W as u128;
        let l128 = f128 + W as u128 - 1;

        let op = format!("first {s}");
        let r = catch(|| sl.first_slot_in_window().inner());
        self.judge(&op, &r, true);
        if let Ok(f) = r {
            self.value(&op, f as u128 == f128 && f <= s && s - f < W && f % W == 0, || format!("got {f}, exact {f128}"));
        }
        self.out(op, show(&r));

        let op = format!("last {s}");
        let r = catch(|| sl.last_slot_in_window().inner());
        self.judge(&op, &r, l128 <= MAXU);
        if let (Ok(l), Ok(f)) = (&r, catch(|| sl.first_slot_in_window().inner())) {
            self.value(&op, *l as u128 == l128 && *l >= s && *l - f == W - 1, || format!("got {l}, exact {l128}, first {f}"));
        }
        self.out(op, show(&r));

        let op = format!("isstart {s}");
        let r = catch(|| sl.is_start_of_window());
        self.judge(&op, &r, true);
        if let Ok(b) = r {
            self.value(&op, b == (s as u128 == f128), || format!("got {b}, first {f128}"));
        }
        self.out(op, show(&r));

        let op = format!("next {s}");
        let r = catch(|| sl.next().inner());
        self.judge(&op, &r, s != u64::MAX);
        if let Ok(n) = r {
            self.value(&op, n as u128 == s as u128 + 1, || format!("got {n}"));
        }
        self.out(op, show(&r));

        let op = format!("prev {s}");
        let r = catch(|| sl.prev().inner());
        self.judge(&op, &r, s != 0);
        if let Ok(n) = r {
            self.value(&op, n as u128 + 1 == s as u128, || format!("got {n}"));
        }
        self.out(op, show(&r));

        let op = format!("genwin {s}");
        let r = catch(|| sl.is_genesis_window());
        self.judge(&op, &r, true);
        if let Ok(b) = r {
            self.value(&op, b == (s < W), || format!("got {b}"));
        }
        self.out(op, show(&r));

        let op = format!("isgen {s}");
        let r = catch(|| sl.is_genesis());
        self.judge(&op, &r, true);
        self.out(op, show(&r));

        let op = format!("window {s}");
        let r = catch(|| sl.slots_in_window().collect::<Vec<_>>());
        self.judge(&op, &r, l128 <= MAXU);
        if let Ok(v) = &r {
            let ok = v.len() as u64 == W
                && v.iter().enumerate().all(|(i, x)| x.inner() as u128 == f128 + i as u128)
                && v.iter().all(|x| catch(|| x.first_slot_in_window().inner() as u128) == Ok(f128))
                && v.contains(&sl);
            self.value(&op, ok, || format!("got {}", slots(v)));
            let rv = catch(|| sl.slots_in_window().rev().collect::<Vec<_>>());
            let okr = rv.as_ref().map(|rv| rv.iter().rev().eq(v.iter())).unwrap_or(false);
            self.value(&op, okr, || "reverse iteration differs".into());
        }
        self.out(op, r.as_ref().map(|v| slots(v)).unwrap_or_else(|_| "panic".into()));
    }

    fn future_op(&mut self, s: u64, k: u64) {
        let op = format!("future {s} {k}");
        let r = catch(|| Slot::new(s).future_slots().take(k as usize).collect::<Vec<_>>());
        // yielding u64::MAX makes the std range iterator compute its successor: only s + k + 1 <= MAX is demanded
        self.judge(&op, &r, s as u128 + k as u128 + 1 <= MAXU);
        if let Ok(v) = &r {
            let ok = v.len() as u64 == k && v.iter().enumerate().all(|(i, x)| x.inner() as u128 == s as u128 + 1 + i as u128);
            self.value(&op, ok, || format!("got {}", slots(v)));
        }
        self.out(op, r.as_ref().map(|v| slots(v)).unwrap_or_else(|_| "panic".into()));
    }

    fn ismet_op(&mut self, num: u64, den: u64, value: u64, total: u64) {
        let op = format!("ismet {num} {den} {value} {total}");
        let r = catch(|| Fraction::new(num, NonZeroU64::new(den).expect("den")).is_met(value, total));
        self.judge(&op, &r, true);
        if let Ok(b) = r {
            let e = exact_is_met(num, den, value, total);
            self.value(&op, b == e, || format!("got {b}, exact {e}"));
        }
        self.out(op, show(&r));
    }

    fn validators(&self, stakes: &[u64]) -> Vec<ValidatorInfo> {
        stakes
            .iter()
            .enumerate()
            .map(|(i, s)| ValidatorInfo {
                id: ValidatorIndex::new(i as u64),
                stake: Stake::new(*s),
                pubkey: self.pk,
                voting_pubkey: self.vpk,
                all2all_address: dontcare_sockaddr(),
                disseminator_address: dontcare_sockaddr(),
                repair_requester_address: dontcare_sockaddr(),
                repair_responder_address: dontcare_sockaddr(),
            })
            .collect()
    }

    fn epoch_op(&mut self, stakes: &[u64]) {
        let op = format!("epoch {}", stakes.iter().map(|s| s.to_string()).collect::<Vec<_>>().join(" "));
        let vals = self.validators(stakes);
        let exact: u128 = stakes.iter().map(|s| *s as u128).sum();
        let r = catch(|| EpochInfo::new(vals));
        // a validator set whose total stake does not fit u64 is a configuration error, not peer input: the panic of
        // the overflow-checked sum is the expected outcome there
        self.judge(&op, &r, exact <= MAXU);
        let out = match &r {
            Ok(e) => {
                let t = e.total_stake().inner();
                self.value(&op, t as u128 == exact, || format!("total {t}, exact {exact}"));
                format!("total {t}")
            }
            Err(_) => "panic".into(),
        };
        self.epoch = r.ok().map(|e| (e, exact));
        self.out(op, out);
    }

    fn quorums_op(&mut self, stake: u64) -> Option<[bool; 4]> {
        let op = format!("quorums {stake}");
        let Some((e, total)) = self.epoch.clone() else {
            self.out(op, "noepoch".into());
            return None;
        };
        let r = catch(|| {
            let s = Stake::new(stake);
            [e.is_weakest_quorum(s), e.is_weak_quorum(s), e.is_quorum(s), e.is_strong_quorum(s)]
        });
        self.judge(&op, &r, true);
        if let Ok(q) = r {
            let t = total as u64;
            let ex = [exact_is_met(1, 5, stake, t), exact_is_met(2, 5, stake, t), exact_is_met(3, 5, stake, t), exact_is_met(4, 5, stake, t)];
            self.value(&op, q == ex, || format!("got {q:?}, exact {ex:?} (total {t})"));
            // a stronger quorum implies every weaker one
            self.value(&op, (!q[3] || q[2]) && (!q[2] || q[1]) && (!q[1] || q[0]), || format!("not nested: {q:?}"));
        }
        let out = match &r {
            Ok(q) => q.iter().map(|b| b.to_string()).collect::<Vec<_>>().join(" "),
            Err(_) => "panic".into(),
        };
        self.out(op, out);
        r.ok()
    }

    fn leader_op(&mut self, n: u64, s: u64) {
        let op = format!("leader {n} {s}");
        let vals = self.validators(&vec![1u64; n as usize]);
        let r = catch(|| EpochInfo::new(vals).leader(Slot::new(s)).id.inner());
        // no validators: `window % 0` - a configuration without validators, the panic is expected
        self.judge(&op, &r, n != 0);
        if let Ok(id) = r {
            let e = (s as u128 / W as u128) % n as u128;
            self.value(&op, id as u128 == e, || format!("got {id}, exact {e}"));
        }
        self.out(op, show(&r));
    }

    fn prskip_op(&mut self, s: u64) {
        let op = format!("prskip {s}");
        let r = catch(|| {
            let mut t = VerifParentReadyTracker::default();
            t.mark_skipped(Slot::new(s)).len()
        });
        // the loop inspects slot s + 1 (and the iterator computes s + 2)
        self.judge(&op, &r, s as u128 + 2 <= MAXU);
        self.out(op, if r.is_ok() { "ok".into() } else { "panic".into() });
    }

    fn finimpl_op(&mut self, s: u64, d: u64) {
        let op = format!("finimpl {s} {d}");
        let r = catch(|| {
            let mut t = VerifFinalityTracker::default();
            let b = (Slot::new(s), advhash::block_hash(1));
            let p = (Slot::new(s - d), advhash::block_hash(2));
            t.add_parent(b.clone(), p);
            t.mark_fast_finalized(b).2.len() as u64
        });
        // implicitly skipped: s-d+1 .. s-1; the iterator yields s (and computes s + 1) before the loop breaks
        self.judge(&op, &r, s as u128 + 1 <= MAXU);
        if let Ok(k) = r {
            self.value(&op, k == d - 1, || format!("{k} implicitly skipped slots, expected {}", d - 1));
        }
        self.out(op, if r.is_ok() { "ok".into() } else { "panic".into() });
    }
}

impl Cx {
    /// the real `set_timeouts` under a paused clock: when is which timeout queued?
    fn timeouts_op(&mut self, rt: &tokio::runtime::Runtime, s: u64) {
        let op = format!("timeouts {s}");
        let sk = aggsig::SecretKey::new(&mut Rng::new(11));
        let (_ptx, prx) = tokio::sync::mpsc::channel::<PoolEvent>(4);
        let (_btx, brx) = tokio::sync::mpsc::channel::<BlockstoreEvent>(4);
        let mut votor = {
            let _g = rt.enter();
            Votor::new(ValidatorIndex::new(0), sk, prx, brx, Arc::new(NullA2A))
        };
        // the timers of `Votor::new` (window 0) run out first
        rt.block_on(async { tokio::time::sleep(Duration::from_secs(30)).await });
        let _ = votor.verif_drain_timeouts();
        let r = {
            let _g = rt.enter();
            catch(|| votor.verif_set_timeouts(Slot::new(s)))
        };
        let is_start = s % W == 0;
        let msg = r.as_ref().err().cloned().unwrap_or_default();
        self.rec.oracle(r.is_ok() || !is_start, "mi-timeout", || format!("`{op}` panicked ({msg}) for a window start"));
        if r.is_err() {
            self.out(op, "panic".into());
            return;
        }
        // the spawned task starts (and requests its first sleep) at time 0
        rt.block_on(async {
            for _ in 0..4 {
                tokio::task::yield_now().await;
            }
        });
        let mut got: Vec<(u64, bool, u64)> = Vec::new();
        let mut ms = 0u64;
        while ms < 6000 && got.len() < W as usize + 1 {
            rt.block_on(async {
                tokio::time::advance(Duration::from_millis(1)).await;
                for _ in 0..4 {
                    tokio::task::yield_now().await;
                }
            });
            ms += 1;
            for (slot, crashed) in votor.verif_drain_timeouts() {
                got.push((slot.inner(), crashed, ms));
            }
        }
        // the property, from the protocol's formula and the public constant DELTA only
        let [dt, db, df] = Votor::<NullA2A>::verif_deltas();
        let (dt, db, df) = (dt.as_millis() as u64, db.as_millis() as u64, df.as_millis() as u64);
        let base = 3 * alpenglow::consensus::DELTA.as_millis() as u64;
        let mut ok = got.len() == W as usize + 1 && dt == base && got[0] == (s, true, base + df);
        for i in 0..W {
            ok = ok && got.get(i as usize + 1) == Some(&(s + i, false, base + (i + 1) * db));
        }
        ok = ok && got.windows(2).all(|w| w[0].2 < w[1].2) && got.iter().all(|g| g.2 >= base);
        self.rec.oracle(ok, "mi-timeout", || format!("`{op}`: (slot, crashed, ms) = {got:?}, DELTA_TIMEOUT {dt} (3*DELTA = {base}), DELTA_BLOCK {db}, DELTA_FIRST_SLICE {df}"));
        let out = got.iter().map(|(sl, c, ms)| format!("{}{sl}@{ms}", if *c { "c" } else { "t" })).collect::<Vec<_>>().join(" ");
        self.out(op, out);
    }

    fn deltas_op(&mut self) {
        let [dt, db, df] = Votor::<NullA2A>::verif_deltas();
        self.value("deltas", df <= db && dt == alpenglow::consensus::DELTA * 3, || format!("{dt:?} {db:?} {df:?}"));
        self.out("deltas".into(), format!("{} {} {}", dt.as_nanos(), db.as_nanos(), df.as_nanos()));
    }

    fn dur_ops(&mut self, s1: u64, n1: u32, s2: u64, n2: u32, k: u32) {
        const NPS: u128 = 1_000_000_000;
        let (a, b) = (Duration::new(s1, n1), Duration::new(s2, n2));
        let (an, bn) = (s1 as u128 * NPS + n1 as u128, s2 as u128 * NPS + n2 as u128);
        let lim = (MAXU + 1) * NPS;
        let check = |x: &Duration, e: u128| x.as_secs() as u128 * NPS + x.subsec_nanos() as u128 == e && x.subsec_nanos() < NPS as u32;

        let op = format!("dadd {s1} {n1} {s2} {n2}");
        let r = catch(|| a + b);
        self.judge(&op, &r, an + bn < lim);
        if let Ok(x) = &r {
            self.value(&op, check(x, an + bn), || format!("got {x:?}"));
        }
        self.out(op, r.as_ref().map(dur).unwrap_or_else(|_| "panic".into()));

        let op = format!("dsub {s1} {n1} {s2} {n2}");
        let r = catch(|| a.saturating_sub(b));
        self.judge(&op, &r, true);
        if let Ok(x) = &r {
            self.value(&op, check(x, an.saturating_sub(bn)), || format!("got {x:?}"));
        }
        self.out(op, r.as_ref().map(dur).unwrap_or_else(|_| "panic".into()));

        let op = format!("dmul {s1} {n1} {k}");
        let r = catch(|| a * k);
        // an * k < 2^94 * 2^32: fits u128
        self.judge(&op, &r, an * (k as u128) < lim);
        if let Ok(x) = &r {
            self.value(&op, check(x, an * k as u128), || format!("got {x:?}"));
        }
        self.out(op, r.as_ref().map(dur).unwrap_or_else(|_| "panic".into()));

        let op = format!("dms {s1}");
        let r = catch(|| Duration::from_millis(s1));
        self.judge(&op, &r, true);
        if let Ok(x) = &r {
            self.value(&op, check(x, s1 as u128 * 1_000_000), || format!("got {x:?}"));
        }
        self.out(op, r.as_ref().map(dur).unwrap_or_else(|_| "panic".into()));
    }

    fn stake_ops(&mut self, a: u64, b: u64) {
        let (sa, sb) = (Stake::new(a), Stake::new(b));
        let (a1, b1) = (a as u128, b as u128);

        let op = format!("sadd {a} {b}");
        let r = catch(|| (sa + sb).inner());
        self.judge(&op, &r, a1 + b1 <= MAXU);
        if let Ok(x) = r {
            let mut acc = sa;
            let r2 = catch(move || { acc += sb; acc.inner() });
            self.value(&op, x as u128 == a1 + b1 && r2 == Ok(x) && sa.checked_add(sb).map(|v| v.inner()) == Some(x), || format!("got {x}"));
        } else {
            self.value(&op, sa.checked_add(sb).is_none(), || "checked_add is Some although + panics".into());
        }
        self.out(op, show(&r));

        let op = format!("ssub {a} {b}");
        let r = catch(|| (sa - sb).inner());
        self.judge(&op, &r, a >= b);
        if let Ok(x) = r {
            let mut acc = sa;
            let r2 = catch(move || { acc -= sb; acc.inner() });
            self.value(&op, x as u128 + b1 == a1 && r2 == Ok(x), || format!("got {x}"));
        }
        self.out(op, show(&r));

        let op = format!("smul {a} {b}");
        let r = catch(|| (sa * b).inner());
        let fits = mul_limbs(a, b)[2] == 0 && mul_limbs(a, b)[3] == 0;
        self.judge(&op, &r, fits);
        if let Ok(x) = r {
            let l = mul_limbs(a, b);
            self.value(&op, fits && x == (l[0] as u64 | (l[1] as u64) << 32), || format!("got {x}"));
        }
        self.out(op, show(&r));

        let op = format!("sdivceil {a} {b}");
        let r = catch(|| sa.div_ceil(b).inner());
        self.judge(&op, &r, b != 0);
        if let Ok(x) = r {
            // the least x with x * b >= a
            let x1 = x as u128;
            self.value(&op, x1 * b1 >= a1 && (x == 0 || (x1 - 1) * b1 < a1), || format!("got {x}"));
        }
        self.out(op, show(&r));
    }

    fn fcmp_op(&mut self, n1: u64, d1: u64, n2: u64, d2: u64) {
        use std::cmp::Ordering::*;
        let op = format!("fcmp {n1} {d1} {n2} {d2}");
        let f1 = Fraction::new(n1, NonZeroU64::new(d1).expect("den"));
        let f2 = Fraction::new(n2, NonZeroU64::new(d2).expect("den"));
        let r = catch(|| (f1.cmp(&f2), f1 == f2, f1.partial_cmp(&f2), f2.cmp(&f1)));
        self.judge(&op, &r, true);
        if let Ok((o, e, p, rev)) = &r {
            let (l, rr) = (mul_limbs(n1, d2), mul_limbs(n2, d1));
            let exact = if l == rr { Equal } else if ge_limbs(l, rr) { Greater } else { Less };
            // consistent with is_met: n1/d1 >= n2/d2 iff Fraction(n2/d2).is_met(n1, d1)
            let met = catch(|| f2.is_met(n1, d1));
            self.value(&op, *o == exact && *e == (exact == Equal) && *p == Some(exact) && *rev == exact.reverse() && met == Ok(exact != Less),
                || format!("got {o:?} eq {e} partial {p:?} reverse {rev:?} is_met {met:?}, exact {exact:?}"));
        }
        let out = match &r {
            Ok((o, e, ..)) => format!("{} {e}", match o { Less => "lt", Equal => "eq", Greater => "gt" }),
            Err(_) => "panic".into(),
        };
        self.out(op, out);
    }

    fn windows_op(&mut self, k: u64) {
        let op = format!("windows {k}");
        let r = catch(|| Slot::windows().take(k as usize).collect::<Vec<_>>());
        self.judge(&op, &r, true);
        if let Ok(v) = &r {
            let ok = v.len() as u64 == k && v.iter().enumerate().all(|(i, x)| x.inner() == i as u64 * W && x.is_start_of_window());
            self.value(&op, ok, || format!("got {}", slots(v)));
        }
        self.out(op, r.as_ref().map(|v| slots(v)).unwrap_or_else(|_| "panic".into()));
    }

    /// `nth(j)` (1 <= j, j * W < 2^64), then m times `next()`
    fn winjump_op(&mut self, j: u64, m: u64) {
        let op = format!("winjump {j} {m}");
        let r = catch(|| {
            let mut it = Slot::windows();
            let mut v = vec![it.nth(j as usize).expect("infinite")];
            for _ in 0..m {
                v.push(it.next().expect("infinite"));
            }
            v
        });
        // every window start (j + m) * W that is a u64 must be yielded; the call after the last one panics
        self.judge(&op, &r, (j as u128 + m as u128) * (W as u128) <= MAXU);
        if let Ok(v) = &r {
            let ok = v.len() as u64 == m + 1 && v.iter().enumerate().all(|(i, x)| x.inner() as u128 == (j as u128 + i as u128) * W as u128);
            self.value(&op, ok, || format!("got {}", slots(v)));
        }
        self.out(op, r.as_ref().map(|v| slots(v)).unwrap_or_else(|_| "panic".into()));
    }
}

fn extremes(rng: &mut Rng, thorough: bool) -> Vec<u64> {
    let mut v: Vec<u64> = Vec::new();
    for k in 0..=(2 * W + 2) {
        v.push(k);
        v.push(u64::MAX - k);
    }
    for p in [8u32, 16, 31, 32, 33, 48, 62, 63] {
        let b = 1u64 << p;
        for d in 0..=W {
            v.push(b - d);
            v.push(b + d);
        }
    }
    let e2 = 2 * SLOTS_PER_EPOCH;
    for b in [SLOTS_PER_EPOCH, e2, u64::MAX - e2, u64::MAX - SLOTS_PER_EPOCH, u64::MAX / 2, u64::MAX / 3, u64::MAX / 5 * 4] {
        for d in 0..=2 {
            v.push(b - d);
            v.push(b + d);
        }
    }
    for _ in 0..if thorough { 4000 } else { 150 } {
        let x = match rng.below(4) {
            0 => rng.next(),
            1 => rng.next() >> rng.below(64),
            2 => u64::MAX - (rng.next() >> (1 + rng.below(63))),
            _ => rng.next() / W * W,
        };
        v.push(x);
        v.push(x.wrapping_add(W - 1));
        v.push(x.wrapping_sub(1));
    }
    v
}

fn main() {
    let args = Args::parse();
    quiet_panics();
    let mut krng = Rng::new(7);
    let pk = signature::SecretKey::new(&mut krng).to_pk();
    let vpk = aggsig::SecretKey::new(&mut krng).to_pk();
    let mut cx = Cx { rec: Recorder::new(), rng: Rng::new(args.seed), pk, vpk, class: 0, epoch: None };
    let mut rng = cx.rng.fork();
    let ext = extremes(&mut rng, args.thorough);

    // 1. slot.rs
    for chunk in ext.chunks(8) {
        cx.rec.begin_case("slot");
        cx.class = 0;
        for &s in chunk {
            cx.slot_ops(s);
        }
        let c = cx.class;
        cx.rec.end_case(c, true);
    }
    for chunk in ext.chunks(16) {
        cx.rec.begin_case("future");
        cx.class = 0;
        for &s in chunk {
            let k = rng.below(2 * W + 3);
            cx.future_op(s, k);
            if s >= 1 << 32 {
                cx.prskip_op(s);
                cx.finimpl_op(s, 1 + rng.below(3));
            }
        }
        let c = cx.class;
        cx.rec.end_case(c, true);
    }

    // 2. fraction.rs / epoch_info.rs
    let pool: Vec<u64> = ext.iter().copied().filter(|x| *x != 0).collect();
    let n_frac = if args.thorough { 3000 } else { 150 };
    for _ in 0..n_frac {
        cx.rec.begin_case("ismet");
        cx.class = 0;
        for _ in 0..12 {
            let den = *rng.pick(&pool);
            let (num, value, total) = match rng.below(4) {
                0 => (*rng.pick(&ext), *rng.pick(&ext), *rng.pick(&ext)),
                1 => (u64::MAX - rng.below(3), u64::MAX - rng.below(3), u64::MAX - rng.below(3)),
                // value / total just around num / den
                2 => {
                    let (num, total) = (rng.below(den.min(1 << 20)) , *rng.pick(&pool));
                    let v = ((total as u128 * num as u128) / den as u128) as u64;
                    (num, v.wrapping_add(rng.below(3)).wrapping_sub(1), total)
                }
                _ => (rng.next(), rng.next(), rng.next()),
            };
            cx.ismet_op(num, den, value, total);
        }
        let c = cx.class;
        cx.rec.end_case(c, true);
    }
    let n_ep = if args.thorough { 1500 } else { 120 };
    for i in 0..n_ep {
        cx.rec.begin_case("epoch");
        cx.class = 0;
        let n = 1 + rng.below(12) as usize;
        let stakes: Vec<u64> = match i % 6 {
            0 => (0..n).map(|_| 1 + rng.below(1000)).collect(),
            // total exactly at / just above / just below u64::MAX
            1 | 2 => {
                let mut left = u64::MAX - rng.below(3);
                let mut v: Vec<u64> = (0..n - 1).map(|_| { let x = rng.below(left / 2 + 1); left -= x; x }).collect();
                v.push(left);
                if i % 6 == 2 { let k = rng.below(n as u64) as usize; v[k] = v[k].wrapping_add(1 + rng.below(2)).max(1); }
                rng.shuffle(&mut v);
                v
            }
            3 => (0..n).map(|_| u64::MAX / n as u64 - rng.below(2)).collect(),
            4 => (0..n).map(|_| *rng.pick(&ext)).collect(),
            _ => (0..n).map(|_| rng.next() >> rng.below(8)).collect(),
        };
        cx.epoch_op(&stakes);
        if let Some((_, total)) = cx.epoch.clone() {
            let t = total as u64;
            let mut qs: Vec<u64> = vec![0, 1, t, t.wrapping_sub(1), t / 5, t / 5 + 1, (t / 5).wrapping_sub(1), u64::MAX, u64::MAX - 1];
            for k in 1..=4u128 {
                let b = (total * k / 5) as u64;
                qs.extend([b.wrapping_sub(1), b, b.wrapping_add(1)]);
            }
            qs.push(rng.next());
            qs.sort();
            let mut prev: Option<[bool; 4]> = None;
            for q in qs {
                let cur = cx.quorums_op(q);
                // monotone in the stake
                if let (Some(p), Some(c)) = (prev, cur) {
                    cx.value(&format!("quorums {q}"), (0..4).all(|i| !p[i] || c[i]), || format!("not monotone: {p:?} then {c:?}"));
                }
                prev = cur.or(prev);
            }
        } else {
            cx.quorums_op(1);
        }
        let c = cx.class;
        cx.rec.end_case(c, true);
    }
    for chunk in ext.chunks(24) {
        cx.rec.begin_case("leader");
        cx.class = 0;
        for &s in chunk {
            let n = if rng.chance(1, 12) { 0 } else { 1 + rng.below(13) };
            cx.leader_op(n, s);
        }
        let c = cx.class;
        cx.rec.end_case(c, true);
    }
    // 3. votor.rs set_timeouts + Duration arithmetic
    let rt = tokio::runtime::Builder::new_current_thread().enable_time().start_paused(true).build().expect("runtime");
    let mut tslots: Vec<u64> = vec![0, 1, W - 1, W, W + 1, 2 * W, 5 * W, u64::MAX - (W - 1), u64::MAX, u64::MAX - W, u64::MAX - (2 * W - 1), 1 << 32, 1 << 63, (1 << 63) + W];
    for _ in 0..if args.thorough { 200 } else { 12 } {
        let x = *rng.pick(&ext);
        tslots.push(if rng.chance(3, 4) { x / W * W } else { x });
    }
    for chunk in tslots.chunks(4) {
        cx.rec.begin_case("timeouts");
        cx.class = 0;
        cx.deltas_op();
        for &s in chunk {
            cx.timeouts_op(&rt, s);
        }
        let c = cx.class;
        cx.rec.end_case(c, true);
    }
    let nanos: [u32; 9] = [0, 1, 999_999_999, 500_000_000, 499_999_999, 500_000_001, 10_000_000, 250_000_000, 400_000_000];
    for _ in 0..if args.thorough { 2000 } else { 150 } {
        cx.rec.begin_case("duration");
        cx.class = 0;
        for _ in 0..6 {
            let (s1, s2) = (*rng.pick(&ext), if rng.chance(1, 2) { *rng.pick(&ext) } else { rng.below(4) });
            let (n1, n2) = (*rng.pick(&nanos), if rng.chance(1, 2) { *rng.pick(&nanos) } else { rng.below(1_000_000_000) as u32 });
            let k = match rng.below(4) { 0 => rng.below(5) as u32, 1 => u32::MAX - rng.below(2) as u32, 2 => (u64::MAX / s1.max(1)).min(u32::MAX as u64) as u32, _ => rng.next() as u32 };
            let (s1, n1) = if rng.chance(1, 4) { (rng.below(3), n1) } else { (s1, n1) };
            cx.dur_ops(s1, n1, s2, n2, k);
        }
        let c = cx.class;
        cx.rec.end_case(c, true);
    }

    // 4. stake.rs, Fraction::cmp, Slot::windows
    for _ in 0..if args.thorough { 2000 } else { 150 } {
        cx.rec.begin_case("stake");
        cx.class = 0;
        for _ in 0..8 {
            let a = *rng.pick(&ext);
            let b = match rng.below(5) { 0 => *rng.pick(&ext), 1 => rng.below(4), 2 => (u64::MAX / a.max(1)).saturating_add(rng.below(2)), 3 => a.wrapping_add(rng.below(3)).wrapping_sub(1), _ => rng.next() >> rng.below(64) };
            cx.stake_ops(a, b);
        }
        let c = cx.class;
        cx.rec.end_case(c, true);
    }
    for _ in 0..if args.thorough { 2000 } else { 150 } {
        cx.rec.begin_case("fcmp");
        cx.class = 0;
        for _ in 0..8 {
            let (d1, d2) = (*rng.pick(&pool), *rng.pick(&pool));
            let (n1, d1, n2, d2) = match rng.below(5) {
                0 => (*rng.pick(&ext), d1, *rng.pick(&ext), d2),
                // equal values with different representations (1/2 == 2/4)
                1 => { let (n, d, k) = (rng.below(1 << 20), 1 + rng.below(1 << 20), 1 + rng.below(1 << 20)); (n, d, n * k, d * k) }
                // neighbours at the top of the range
                2 => (u64::MAX - rng.below(3), u64::MAX - rng.below(3), u64::MAX - rng.below(3), u64::MAX - rng.below(3)),
                3 => { let n2 = ((*rng.pick(&ext) as u128 * d2 as u128) / d1 as u128).min(MAXU) as u64; (*rng.pick(&ext), d1, n2.wrapping_add(rng.below(3)).wrapping_sub(1), d2) }
                _ => (rng.next(), d1, rng.next(), d2),
            };
            cx.fcmp_op(n1, d1, n2, d2);
        }
        let c = cx.class;
        cx.rec.end_case(c, true);
    }
    cx.rec.begin_case("windows");
    cx.class = 0;
    for k in [0u64, 1, 2, 3, 10, 33] {
        cx.windows_op(k);
    }
    // `Map` does not forward `nth`: the end of the u64 range cannot be reached on the real iterator (2^62 calls of
    // `next`); jumps stay small, the end of the range is covered by the theorem `windows_panics_iff` only
    for j in [1u64, 2, 7, 1000] {
        for m in 0..=3 {
            cx.winjump_op(j, m);
        }
    }
    let c = cx.class;
    cx.rec.end_case(c, true);

    let extra = serde_json::json!({ "values": ext.len() });
    cx.rec.finish(&args, extra);
}
