//! C09 — only authentic votes and sufficiently backed certificates are admitted.
//!
//! Correspondence with `AgModel.Cert` (`Driver/C09.lean`) + property oracle on the real code.
//!
//! Every message is described *symbolically* (who signed what, which bits are marked), encoded to
//! wire bytes by the harness' own encoder (real BLS signatures over the harness' own encoding of
//! the signed payload), decoded by `alpenglow::network::deserialize::<ConsensusMessage>` and
//! offered to `ValidatedVote::try_new` / `ValidatedCert::try_new`. Honest messages are additionally
//! built with the crate's constructors and must serialise to the same bytes.
//!
//! ops (see Driver/C09.lean):
//!   epoch k0 s0 k1 s1 ...              -> `epoch <n> <total>`
//!   vote <payload> <signer> <parts>    -> ok | unknown-signer | invalid-sig | panic | decode-err
//!   cert <ty> <slot> [<hash>] <declared> <agg|-> [<agg|->]
//!                                      -> ok | insufficient-stake | invalid-sig | panic | decode-err
use std::collections::{BTreeMap, BTreeSet, HashMap};

use ag_harness::*;
use alpenglow::consensus::{
    Cert, CertValidationError, ConsensusMessage, EpochInfo, FastFinalCert, FinalCert, FinalVote, NotarCert, NotarFallbackCert,
    NotarFallbackVote, NotarVote, SkipCert, SkipFallbackVote, SkipVote, ValidatedCert, ValidatedVote, VoteValidationError,
};
use alpenglow::crypto::aggsig::SecretKey;
use alpenglow::crypto::merkle::BlockHash;
use alpenglow::crypto::{AggregateSignature, IndividualSignature, signature};
use alpenglow::network::dontcare_sockaddr;
use alpenglow::types::Slot;
use alpenglow::{Stake, ValidatorIndex, ValidatorInfo};

const NKEYS: usize = 56; // key ids 0..NKEYS; validators use the low ids, outsiders the rest
/// "key" ids >= TORSION do not denote signatures: part `(TORSION + j, F 0)` is the point `T_j` of E(Fp), a non-trivial
/// point OUTSIDE the prime-order subgroup G1 (of order dividing the cofactor; see `offgroup`): on the
/// curve, canonically encodable, invisible to a pairing check that skips the subgroup test. The model treats it as
/// a part signed by a key no validator has (so no aggregate containing it is anybody's signature); a vote signature
/// containing it is not decodable (`IndividualSignature::read` checks subgroup membership).
const TORSION: usize = 1_000_000;
const NTORSION: usize = 4;

/// Points of E(Fp): y^2 = x^3 + 4 outside G1, through the raw `blst` API (no crate item involved).
mod offgroup {
    use blst::*;
    /// the order r of G1, little endian
    const R_LE: [u8; 32] = [
        0x01, 0x00, 0x00, 0x00, 0xff, 0xff, 0xff, 0xff, 0xfe, 0x5b, 0xfe, 0xff, 0x02, 0xa4, 0xbd, 0x53, 0x05, 0xd8, 0xa1, 0x09, 0x08, 0xd8, 0x39, 0x33, 0x48, 0x7d,
        0x9d, 0x29, 0x53, 0xa7, 0xed, 0x73,
    ];
    pub fn mul_r(p: &blst_p1) -> blst_p1 {
        let mut out = blst_p1::default();
        unsafe { blst_p1_mult(&mut out, p, R_LE.as_ptr(), 255) };
        out
    }
    pub fn is_inf(p: &blst_p1) -> bool {
        unsafe { blst_p1_is_inf(p) }
    }
    pub fn in_g1(p: &blst_p1) -> bool {
        unsafe { blst_p1_in_g1(p) }
    }
    /// the point encoded by 96 uncompressed bytes (must be on the curve)
    pub fn decode(b: &[u8]) -> blst_p1 {
        assert_eq!(b.len(), 96);
        let mut a = blst_p1_affine::default();
        let err = unsafe { blst_p1_deserialize(&mut a, b.as_ptr()) };
        assert_eq!(err, BLST_ERROR::BLST_SUCCESS, "harness: not a curve point");
        let mut p = blst_p1::default();
        unsafe { blst_p1_from_affine(&mut p, &a) };
        p
    }
    pub fn encode(p: &blst_p1) -> Vec<u8> {
        let mut out = vec![0u8; 96];
        unsafe { blst_p1_serialize(out.as_mut_ptr(), p) };
        out
    }
    pub fn add(a: &blst_p1, b: &blst_p1) -> blst_p1 {
        let mut out = blst_p1::default();
        unsafe { blst_p1_add_or_double(&mut out, a, b) };
        out
    }
    /// r * (random point of E(Fp)): lies in the cofactor torsion E(Fp)[h]; retried until non-trivial
    pub fn small_order_point(rng: &mut ag_harness::Rng) -> blst_p1 {
        loop {
            // compressed encoding: flag bits 100 / 101 (compressed, not infinity, sign of y), x < p = 0x1a01..
            let mut x = rng.bytes(48);
            x[0] = 0x80 | (if rng.chance(1, 2) { 0x20 } else { 0 }) | rng.below(0x1a) as u8;
            let mut a = blst_p1_affine::default();
            if unsafe { blst_p1_uncompress(&mut a, x.as_ptr()) } != BLST_ERROR::BLST_SUCCESS {
                continue; // x^3 + 4 is not a square
            }
            assert!(unsafe { blst_p1_affine_on_curve(&a) });
            let mut p = blst_p1::default();
            unsafe { blst_p1_from_affine(&mut p, &a) };
            let t = mul_r(&p);
            if !is_inf(&t) {
                assert!(!in_g1(&t), "harness: r * P is a non-trivial point of G1");
                return t;
            }
        }
    }
}

#[derive(Clone, Copy, Debug, PartialEq, Eq, Hash, PartialOrd, Ord)]
enum Pl {
    N(u64, u64),
    NF(u64, u64),
    S(u64),
    SF(u64),
    F(u64),
}

impl Pl {
    fn toks(&self) -> String {
        match self {
            Pl::N(s, h) => format!("N {s} {h}"),
            Pl::NF(s, h) => format!("NF {s} {h}"),
            Pl::S(s) => format!("S {s}"),
            Pl::SF(s) => format!("SF {s}"),
            Pl::F(s) => format!("F {s}"),
        }
    }
    fn tag(&self) -> u32 {
        match self {
            Pl::N(..) => 0,
            Pl::NF(..) => 1,
            Pl::S(..) => 2,
            Pl::SF(..) => 3,
            Pl::F(..) => 4,
        }
    }
    fn slot(&self) -> u64 {
        match self {
            Pl::N(s, _) | Pl::NF(s, _) | Pl::S(s) | Pl::SF(s) | Pl::F(s) => *s,
        }
    }
    fn hash(&self) -> Option<u64> {
        match self {
            Pl::N(_, h) | Pl::NF(_, h) => Some(*h),
            _ => None,
        }
    }
    fn with(&self, kind: u32, slot: u64, hash: u64) -> Pl {
        match kind {
            0 => Pl::N(slot, hash),
            1 => Pl::NF(slot, hash),
            2 => Pl::S(slot),
            3 => Pl::SF(slot),
            _ => Pl::F(slot),
        }
    }
    /// the harness' own encoding of `VotePayload` (enum tag u32 LE, slot u64 LE, 32-byte hash)
    fn bytes(&self) -> Vec<u8> {
        let mut b = self.tag().to_le_bytes().to_vec();
        b.extend(self.slot().to_le_bytes());
        if let Some(h) = self.hash() {
            b.extend(hash_bytes(h));
        }
        b
    }
}

fn block_hash(id: u64) -> BlockHash {
    alpenglow::crypto::hash(&[b"c09-hash".as_slice(), &id.to_le_bytes()].concat()).into()
}
fn hash_bytes(id: u64) -> Vec<u8> {
    wincode::serialize(&block_hash(id)).expect("ser hash")
}

#[derive(Clone, Copy, Debug, PartialEq, Eq, Hash, PartialOrd, Ord)]
struct Part {
    key: usize,
    pl: Pl,
}

fn parts_toks(ps: &[Part]) -> String {
    let mut s = format!("{}", ps.len());
    for p in ps {
        s += &format!(" {} {}", p.key, p.pl.toks());
    }
    s
}

#[derive(Clone, Debug)]
struct VoteD {
    pl: Pl,
    signer: u64,
    parts: Vec<Part>,
}

#[derive(Clone, Debug, PartialEq, Eq)]
struct AggD {
    num_bits: u64,
    words: Vec<u64>,
    parts: Vec<Part>,
}

impl AggD {
    fn from_set(n: usize, signers: &BTreeSet<usize>, parts: Vec<Part>) -> AggD {
        let mut words = vec![0u64; n.div_ceil(64)];
        for &i in signers {
            words[i / 64] |= 1 << (i % 64);
        }
        AggD { num_bits: n as u64, words, parts }
    }
    fn toks(&self) -> String {
        let ws: Vec<String> = self.words.iter().map(|w| w.to_string()).collect();
        format!("A {} {} {}{}{}", self.num_bits, self.words.len(), ws.join(" "), if ws.is_empty() { "" } else { " " }, parts_toks(&self.parts))
    }
    fn bit(&self, i: u64) -> bool {
        i < self.num_bits && (i / 64) < self.words.len() as u64 && (self.words[(i / 64) as usize] >> (i % 64)) & 1 == 1
    }
    fn set_bit(&mut self, i: u64, v: bool) {
        let w = (i / 64) as usize;
        if w < self.words.len() {
            if v {
                self.words[w] |= 1 << (i % 64)
            } else {
                self.words[w] &= !(1 << (i % 64))
            }
        }
    }
}

fn opt_toks(a: &Option<AggD>) -> String {
    match a {
        Some(a) => a.toks(),
        None => "-".into(),
    }
}

#[derive(Clone, Debug)]
enum CertD {
    N(u64, u64, AggD, u64),
    NF(u64, u64, Option<AggD>, Option<AggD>, u64),
    S(u64, Option<AggD>, Option<AggD>, u64),
    FF(u64, u64, AggD, u64),
    F(u64, AggD, u64),
}

impl CertD {
    fn toks(&self) -> String {
        match self {
            CertD::N(s, h, a, st) => format!("cert N {s} {h} {st} {}", a.toks()),
            CertD::NF(s, h, a1, a2, st) => format!("cert NF {s} {h} {st} {} {}", opt_toks(a1), opt_toks(a2)),
            CertD::S(s, a1, a2, st) => format!("cert S {s} {st} {} {}", opt_toks(a1), opt_toks(a2)),
            CertD::FF(s, h, a, st) => format!("cert FF {s} {h} {st} {}", a.toks()),
            CertD::F(s, a, st) => format!("cert F {s} {st} {}", a.toks()),
        }
    }
    /// present halves with the payload the certificate type binds them to
    fn halves(&self) -> Vec<(&AggD, Pl)> {
        match self {
            CertD::N(s, h, a, _) | CertD::FF(s, h, a, _) => vec![(a, Pl::N(*s, *h))],
            CertD::F(s, a, _) => vec![(a, Pl::F(*s))],
            CertD::NF(s, h, a1, a2, _) => a1.iter().map(|a| (a, Pl::N(*s, *h))).chain(a2.iter().map(|a| (a, Pl::NF(*s, *h)))).collect(),
            CertD::S(s, a1, a2, _) => a1.iter().map(|a| (a, Pl::S(*s))).chain(a2.iter().map(|a| (a, Pl::SF(*s)))).collect(),
        }
    }
    fn halves_mut(&mut self) -> Vec<&mut AggD> {
        match self {
            CertD::N(_, _, a, _) | CertD::FF(_, _, a, _) | CertD::F(_, a, _) => vec![a],
            CertD::NF(_, _, a1, a2, _) | CertD::S(_, a1, a2, _) => a1.iter_mut().chain(a2.iter_mut()).collect(),
        }
    }
    fn declared_mut(&mut self) -> &mut u64 {
        match self {
            CertD::N(_, _, _, st) | CertD::NF(_, _, _, _, st) | CertD::S(_, _, _, st) | CertD::FF(_, _, _, st) | CertD::F(_, _, st) => st,
        }
    }
    fn strong(&self) -> bool {
        matches!(self, CertD::FF(..))
    }
    fn ty(&self) -> &'static str {
        match self {
            CertD::N(..) => "N",
            CertD::NF(..) => "NF",
            CertD::S(..) => "S",
            CertD::FF(..) => "FF",
            CertD::F(..) => "F",
        }
    }
}

struct Epoch {
    keys: Vec<usize>,
    stakes: Vec<u64>,
    info: EpochInfo,
}

struct Cx {
    rec: Recorder,
    sks: Vec<SecretKey>,
    sig1: HashMap<Part, IndividualSignature>,
    sigs: HashMap<Vec<Part>, Vec<u8>>,
    ed_pk: signature::PublicKey,
    /// the points `T_j` (see `TORSION`)
    torsion: Vec<blst::blst_p1>,
    class: u64,
    accepted: u64,
    rejected: u64,
}

impl Cx {
    fn ind(&mut self, p: Part) -> IndividualSignature {
        if let Some(s) = self.sig1.get(&p) {
            return *s;
        }
        let s = self.sks[p.key].sign_bytes(&p.pl.bytes());
        self.sig1.insert(p, s);
        s
    }
    /// the 96 wire bytes of the signature value `Σ parts`
    fn sig_bytes(&mut self, parts: &[Part]) -> Vec<u8> {
        if let Some(b) = self.sigs.get(parts) {
            return b.clone();
        }
        if parts.iter().any(|p| p.key >= TORSION) {
            // (sum of the genuine parts) + the small-order points: on the curve, outside G1
            let genuine: Vec<Part> = parts.iter().filter(|p| p.key < TORSION).cloned().collect();
            let mut acc = if genuine.is_empty() { None } else { Some(offgroup::decode(&self.sig_bytes(&genuine))) };
            for p in parts.iter().filter(|p| p.key >= TORSION) {
                let t = self.torsion[p.key - TORSION];
                acc = Some(match acc {
                    None => t,
                    Some(a) => offgroup::add(&a, &t),
                });
            }
            let acc = acc.expect("non-empty");
            // (generator invariant: the small-order components do not cancel)
            assert!(!offgroup::is_inf(&acc) && !offgroup::in_g1(&acc), "harness: crafted point is in G1");
            let b = offgroup::encode(&acc);
            assert_eq!(offgroup::encode(&offgroup::decode(&b)), b);
            self.sigs.insert(parts.to_vec(), b.clone());
            return b;
        }
        let b = if parts.is_empty() {
            let mut id = vec![0u8; 96];
            id[0] = 0x40; // the identity point
            id
        } else if parts.len() == 1 {
            wincode::serialize(&self.ind(parts[0])).expect("ser sig")
        } else {
            let sigs: Vec<IndividualSignature> = parts.iter().map(|p| self.ind(*p)).collect();
            let agg = AggregateSignature::new(sigs.iter(), (0..parts.len() as u64).map(ValidatorIndex::new), parts.len());
            wincode::serialize(&agg).expect("ser agg")[..96].to_vec()
        };
        assert_eq!(b.len(), 96);
        self.sigs.insert(parts.to_vec(), b.clone());
        b
    }
    fn epoch(&mut self, keys: Vec<usize>, stakes: Vec<u64>) -> Epoch {
        let validators: Vec<ValidatorInfo> = keys
            .iter()
            .zip(&stakes)
            .enumerate()
            .map(|(i, (k, s))| ValidatorInfo {
                id: ValidatorIndex::new(i as u64),
                stake: Stake::new(*s),
                pubkey: self.ed_pk,
                voting_pubkey: self.sks[*k].to_pk(),
                all2all_address: dontcare_sockaddr(),
                disseminator_address: dontcare_sockaddr(),
                repair_requester_address: dontcare_sockaddr(),
                repair_responder_address: dontcare_sockaddr(),
            })
            .collect();
        let info = EpochInfo::new(validators);
        let toks: Vec<String> = keys.iter().zip(&stakes).map(|(k, s)| format!("{k} {s}")).collect();
        let total: u128 = stakes.iter().map(|s| *s as u128).sum();
        self.rec.step(&format!("epoch {}", toks.join(" ")), &format!("epoch {} {}", keys.len(), info.total_stake().inner()));
        assert_eq!(total, info.total_stake().inner() as u128);
        Epoch { keys, stakes, info }
    }

    fn enc_vote(&mut self, v: &VoteD) -> Vec<u8> {
        let mut b = 0u32.to_le_bytes().to_vec(); // ConsensusMessage::Vote
        b.extend(v.pl.bytes()); // same layout as the payload: tag, slot, [hash]
        b.extend(self.sig_bytes(&v.parts));
        b.extend(v.signer.to_le_bytes());
        b
    }
    fn enc_agg(&mut self, a: &AggD, b: &mut Vec<u8>) {
        b.extend(self.sig_bytes(&a.parts));
        b.extend(a.num_bits.to_le_bytes());
        b.extend((a.words.len() as u64).to_le_bytes());
        for w in &a.words {
            b.extend(w.to_le_bytes());
        }
    }
    fn enc_opt(&mut self, a: &Option<AggD>, b: &mut Vec<u8>) {
        match a {
            None => b.push(0),
            Some(a) => {
                b.push(1);
                self.enc_agg(a, b)
            }
        }
    }
    fn enc_cert(&mut self, c: &CertD) -> Vec<u8> {
        let mut b = 1u32.to_le_bytes().to_vec(); // ConsensusMessage::Cert
        match c {
            CertD::N(s, h, a, st) | CertD::FF(s, h, a, st) => {
                b.extend((if c.strong() { 3u32 } else { 0u32 }).to_le_bytes());
                b.extend(s.to_le_bytes());
                b.extend(hash_bytes(*h));
                self.enc_agg(a, &mut b);
                b.extend(st.to_le_bytes());
            }
            CertD::NF(s, h, a1, a2, st) => {
                b.extend(1u32.to_le_bytes());
                b.extend(s.to_le_bytes());
                b.extend(hash_bytes(*h));
                self.enc_opt(a1, &mut b);
                self.enc_opt(a2, &mut b);
                b.extend(st.to_le_bytes());
            }
            CertD::S(s, a1, a2, st) => {
                b.extend(2u32.to_le_bytes());
                b.extend(s.to_le_bytes());
                self.enc_opt(a1, &mut b);
                self.enc_opt(a2, &mut b);
                b.extend(st.to_le_bytes());
            }
            CertD::F(s, a, st) => {
                b.extend(4u32.to_le_bytes());
                b.extend(s.to_le_bytes());
                self.enc_agg(a, &mut b);
                b.extend(st.to_le_bytes());
            }
        }
        b
    }

    /// what the *property* demands for this vote (naive reference, independent of the Lean model)
    fn spec_vote(e: &Epoch, v: &VoteD) -> &'static str {
        if v.parts.is_empty() || v.parts.iter().any(|p| p.key >= TORSION) {
            return "undecodable"; // identity / not a point of G1: no validator's signature whatever the fields say
        }
        if v.signer >= e.keys.len() as u64 {
            return "reject";
        }
        if v.parts.len() == 1 && v.parts[0] == (Part { key: e.keys[v.signer as usize], pl: v.pl }) { "admit" } else { "reject" }
    }

    fn vote(&mut self, e: &Epoch, v: &VoteD, why: &str) -> String {
        let bytes = self.enc_vote(v);
        let op = format!("vote {} {} {}", v.pl.toks(), v.signer, parts_toks(&v.parts));
        let out = match alpenglow::network::deserialize::<ConsensusMessage>(&bytes) {
            Err(_) => "decode-err".to_string(),
            Ok(ConsensusMessage::Cert(_)) => "decoded-as-cert".to_string(),
            Ok(ConsensusMessage::Vote(vote)) => {
                let ok_fields = vote.slot() == Slot::new(v.pl.slot()) && vote.signer().inner() == v.signer && vote.block_hash().cloned() == v.pl.hash().map(block_hash);
                self.rec.oracle(ok_fields, "c09-harness-encoding", || format!("{op}: decoded vote has other fields than encoded"));
                match catch(|| ValidatedVote::try_new(vote, &e.info)) {
                    Err(_) => "panic".to_string(),
                    Ok(Ok(_)) => "ok".to_string(),
                    Ok(Err(VoteValidationError::UnknownSigner)) => "unknown-signer".to_string(),
                    Ok(Err(VoteValidationError::InvalidSignature)) => "invalid-sig".to_string(),
                }
            }
        };
        self.rec.step(&op, &out);
        self.rec.count(&format!("vote:{out}"));
        self.rec.count(&format!("vote-gen:{why}"));
        self.class = fnv(self.class, &format!("v{why}{out}"));
        let spec = Self::spec_vote(e, v);
        let epoch = format!("keys={:?} stakes={:?}", e.keys, e.stakes);
        self.rec.oracle(out != "panic", "c09-vote-panic", || format!("{op}: try_new panicked ({why}); {epoch}"));
        match spec {
            "admit" => self.rec.oracle(out == "ok", "c09-valid-vote-rejected", || format!("{op}: authentic vote not admitted: {out} ({why}); {epoch}")),
            "reject" => self.rec.oracle(out != "ok", "c09-forged-vote-admitted", || format!("{op}: vote admitted although {why}; {epoch}")),
            _ => self.rec.oracle(out != "ok", "c09-forged-vote-admitted", || format!("{op}: vote admitted although its signature bytes are not a signature at all ({why}: the identity or a point outside the prime-order subgroup G1); {epoch}")),
        }
        if out == "ok" {
            self.accepted += 1
        } else {
            self.rejected += 1
        }
        out
    }

    /// (distinct stake of the validators marked in any present half, total stake, threshold num/den) - recounted here
    fn backing(e: &Epoch, c: &CertD) -> (u128, u128, u128, u128) {
        let n = e.keys.len() as u64;
        let mut marked = BTreeSet::new();
        for (a, _) in &c.halves() {
            for i in 0..n.min(a.num_bits) {
                if a.bit(i) {
                    marked.insert(i);
                }
            }
        }
        let stake: u128 = marked.iter().map(|i| e.stakes[*i as usize] as u128).sum();
        let total: u128 = e.stakes.iter().map(|s| *s as u128).sum();
        let (num, den) = if c.strong() { (4u128, 5u128) } else { (3, 5) };
        (stake, total, num, den)
    }

    /// what the property demands for this certificate: Err(reason) = must not be admitted
    fn spec_cert(e: &Epoch, c: &CertD) -> Result<(), String> {
        let n = e.keys.len() as u64;
        let halves = c.halves();
        for (a, _) in &halves {
            if a.words.len() > 32 || a.num_bits > 64 * a.words.len() as u64 {
                return Err("undecodable bitmask".into());
            }
        }
        // distinct stake of the marked validators
        let mut marked = BTreeSet::new();
        for (a, _) in &halves {
            for i in 0..n.min(a.num_bits) {
                if a.bit(i) {
                    marked.insert(i);
                }
            }
        }
        let stake: u128 = marked.iter().map(|i| e.stakes[*i as usize] as u128).sum();
        let total: u128 = e.stakes.iter().map(|s| *s as u128).sum();
        let (num, den) = if c.strong() { (4u128, 5u128) } else { (3, 5) };
        if stake * den < total * num {
            return Err(format!("distinct signer stake {stake} of {total} is below {num}/{den}"));
        }
        for (a, pl) in &halves {
            if a.num_bits != n {
                return Err(format!("bitmask length {} != validator count {n}", a.num_bits));
            }
            let mut want: Vec<Part> = (0..n).filter(|i| a.bit(*i)).map(|i| Part { key: e.keys[i as usize], pl: *pl }).collect();
            if want.is_empty() {
                return Err("a half without signers".into());
            }
            let mut have = a.parts.clone();
            want.sort();
            have.sort();
            if want != have {
                return Err(format!("aggregate is not exactly the marked signers' signatures over {}", pl.toks()));
            }
        }
        Ok(())
    }

    fn cert(&mut self, e: &Epoch, c: &CertD, why: &str) -> String {
        let bytes = self.enc_cert(c);
        let op = c.toks();
        let out = match alpenglow::network::deserialize::<ConsensusMessage>(&bytes) {
            Err(_) => "decode-err".to_string(),
            Ok(ConsensusMessage::Vote(_)) => "decoded-as-vote".to_string(),
            Ok(ConsensusMessage::Cert(cert)) => {
                let declared = cert.stake().inner();
                let mut cc = c.clone();
                let ok_fields = declared == *cc.declared_mut() && cert.slot() == Slot::new(c.halves().first().map(|h| h.1.slot()).unwrap_or(cert.slot().inner()));
                self.rec.oracle(ok_fields, "c09-harness-encoding", || format!("{op}: decoded cert has other fields than encoded"));
                match catch(|| ValidatedCert::try_new(cert, &e.info)) {
                    Err(_) => "panic".to_string(),
                    Ok(Ok(_)) => "ok".to_string(),
                    Ok(Err(CertValidationError::InsufficientStake)) => "insufficient-stake".to_string(),
                    Ok(Err(CertValidationError::InvalidSignature)) => "invalid-sig".to_string(),
                }
            }
        };
        self.rec.step(&op, &out);
        self.rec.count(&format!("cert:{}:{out}", c.ty()));
        self.rec.count(&format!("cert-gen:{why}"));
        self.class = fnv(self.class, &format!("c{}{why}{out}", c.ty()));
        let epoch = format!("keys={:?} stakes={:?}", e.keys, e.stakes);
        self.rec.oracle(out != "panic", "c09-cert-panic", || format!("{op}: try_new panicked ({why}); {epoch}"));
        match Self::spec_cert(e, c) {
            Ok(()) => self.rec.oracle(out == "ok", "c09-valid-cert-rejected", || format!("{op}: sufficiently backed authentic certificate not admitted: {out} ({why}); {epoch}")),
            Err(r) => self.rec.oracle(out != "ok", "c09-unbacked-cert-admitted", || format!("{op}: certificate admitted although {r} ({why}); {epoch}")),
        }
        // the `stake` field is a plain wire field: an under-backed certificate whose DECLARED stake meets the threshold must
        // be rejected all the same (admission counts the marked signers; C01 / C03 rely on "admitted => backed")
        let (stake, total, num, den) = Self::backing(e, c);
        let declared = *c.clone().declared_mut() as u128;
        if stake * den < total * num && declared * den >= total * num {
            self.rec.count("cert:under-backed-with-inflated-declared-stake");
            self.rec.oracle(out != "ok", "c09-inflated-declared-stake-admitted", || format!("{op}: under-backed certificate admitted on the strength of its declared stake: the marked signers hold {stake} of {total} (threshold {num}/{den}), the wire field `stake` claims {declared} ({why}); {epoch}"));
        }
        if out == "ok" {
            self.accepted += 1
        } else {
            self.rejected += 1
        }
        out
    }

    /// builds the certificate with the crate's own constructors from honest votes and compares the
    /// bytes with the harness' encoding of the same symbolic certificate
    fn constructor_agrees(&mut self, e: &Epoch, c: &CertD) {
        let vals = e.info.validators();
        let vi = ValidatorIndex::new;
        let sk = |cx: &Cx, i: u64| cx.sks[e.keys[i as usize]].clone();
        let set = |a: &AggD| -> Vec<u64> { (0..a.num_bits).filter(|i| a.bit(*i)).collect() };
        let real: Cert = match c {
            CertD::N(s, h, a, _) => {
                let vs: Vec<NotarVote> = set(a).iter().map(|i| NotarVote::new(Slot::new(*s), block_hash(*h), &sk(self, *i), vi(*i))).collect();
                Cert::Notar(NotarCert::try_new(&vs, vals).expect("cert"))
            }
            CertD::FF(s, h, a, _) => {
                let vs: Vec<NotarVote> = set(a).iter().map(|i| NotarVote::new(Slot::new(*s), block_hash(*h), &sk(self, *i), vi(*i))).collect();
                Cert::FastFinal(FastFinalCert::try_new(&vs, vals).expect("cert"))
            }
            CertD::F(s, a, _) => {
                let vs: Vec<FinalVote> = set(a).iter().map(|i| FinalVote::new(Slot::new(*s), &sk(self, *i), vi(*i))).collect();
                Cert::Final(FinalCert::try_new(&vs, vals).expect("cert"))
            }
            CertD::NF(s, h, a1, a2, _) => {
                let v1: Vec<NotarVote> = a1.iter().flat_map(set).map(|i| NotarVote::new(Slot::new(*s), block_hash(*h), &sk(self, i), vi(i))).collect();
                let v2: Vec<NotarFallbackVote> = a2.iter().flat_map(set).map(|i| NotarFallbackVote::new(Slot::new(*s), block_hash(*h), &sk(self, i), vi(i))).collect();
                Cert::NotarFallback(NotarFallbackCert::try_new(&v1, &v2, vals).expect("cert"))
            }
            CertD::S(s, a1, a2, _) => {
                let v1: Vec<SkipVote> = a1.iter().flat_map(set).map(|i| SkipVote::new(Slot::new(*s), &sk(self, i), vi(i))).collect();
                let v2: Vec<SkipFallbackVote> = a2.iter().flat_map(set).map(|i| SkipFallbackVote::new(Slot::new(*s), &sk(self, i), vi(i))).collect();
                Cert::Skip(SkipCert::try_new(&v1, &v2, vals).expect("cert"))
            }
        };
        let mut c2 = c.clone();
        *c2.declared_mut() = real.stake().inner();
        let mine = self.enc_cert(&c2);
        let theirs = wincode::serialize(&ConsensusMessage::Cert(real)).expect("ser");
        self.rec.oracle(mine == theirs, "c09-harness-encoding", || format!("{}: constructor-built certificate serialises differently from the harness encoding", c.toks()));
    }
}

const KINDS: [&str; 5] = ["N", "NF", "S", "SF", "F"];

fn honest_vote(e: &Epoch, kind: u32, slot: u64, hash: u64, signer: usize) -> VoteD {
    let pl = Pl::N(0, 0).with(kind, slot, hash);
    VoteD { pl, signer: signer as u64, parts: vec![Part { key: e.keys[signer], pl }] }
}

/// honest aggregate of `signers` over `pl`
fn honest_agg(e: &Epoch, signers: &BTreeSet<usize>, pl: Pl) -> AggD {
    AggD::from_set(e.keys.len(), signers, signers.iter().map(|i| Part { key: e.keys[*i], pl }).collect())
}

fn stake_of(e: &Epoch, s: &BTreeSet<usize>) -> u64 {
    s.iter().map(|i| e.stakes[*i]).sum()
}

/// honest certificate of type `ty` (0..5 = N NF S FF F) signed by `s1` (first half) and `s2`
/// (second half, only NF / S)
fn honest_cert(e: &Epoch, ty: usize, slot: u64, hash: u64, s1: &BTreeSet<usize>, s2: &BTreeSet<usize>) -> CertD {
    let union: BTreeSet<usize> = s1.union(s2).cloned().collect();
    let opt = |s: &BTreeSet<usize>, pl: Pl| if s.is_empty() { None } else { Some(honest_agg(e, s, pl)) };
    match ty {
        0 => CertD::N(slot, hash, honest_agg(e, &union, Pl::N(slot, hash)), stake_of(e, &union)),
        1 => CertD::NF(slot, hash, opt(s1, Pl::N(slot, hash)), opt(s2, Pl::NF(slot, hash)), stake_of(e, s1).wrapping_add(stake_of(e, s2))),
        2 => CertD::S(slot, opt(s1, Pl::S(slot)), opt(s2, Pl::SF(slot)), stake_of(e, s1).wrapping_add(stake_of(e, s2))),
        3 => CertD::FF(slot, hash, honest_agg(e, &union, Pl::N(slot, hash)), stake_of(e, &union)),
        _ => CertD::F(slot, honest_agg(e, &union, Pl::F(slot)), stake_of(e, &union)),
    }
}

fn gen_epoch(cx: &mut Cx, rng: &mut Rng, n: usize, shape: u64) -> Epoch {
    let mut keys: Vec<usize> = (0..n).collect();
    rng.shuffle(&mut keys);
    // now and then two validators share a voting key (the symbolic semantics is by key)
    if n >= 2 && rng.chance(1, 8) {
        keys[1] = keys[0];
    }
    let stakes: Vec<u64> = (0..n)
        .map(|_| match shape {
            0 => 1,
            1 => rng.range(1, 10),
            2 => rng.range(1, 1000),
            3 => {
                if rng.chance(1, 4) {
                    0
                } else {
                    rng.range(1, 50)
                }
            }
            _ => rng.range(1, u64::MAX / (n as u64 + 1)),
        })
        .collect();
    let mut stakes = stakes;
    if stakes.iter().all(|s| *s == 0) {
        stakes[0] = 1;
    }
    cx.epoch(keys, stakes)
}

/// smallest prefix of a random order whose stake meets num/den of the total, and that prefix
/// minus its last element (just below the threshold)
fn around_threshold(e: &Epoch, rng: &mut Rng, num: u128, den: u128) -> (BTreeSet<usize>, BTreeSet<usize>) {
    let n = e.keys.len();
    let mut order: Vec<usize> = (0..n).collect();
    rng.shuffle(&mut order);
    let total: u128 = e.stakes.iter().map(|s| *s as u128).sum();
    let mut acc = 0u128;
    let mut at = BTreeSet::new();
    let mut below = BTreeSet::new();
    for i in order {
        if acc * den >= total * num {
            break;
        }
        below = at.clone();
        at.insert(i);
        acc += e.stakes[i] as u128;
    }
    (at, below)
}

fn split(rng: &mut Rng, s: &BTreeSet<usize>, overlap: bool) -> (BTreeSet<usize>, BTreeSet<usize>) {
    let mut a = BTreeSet::new();
    let mut b = BTreeSet::new();
    for &i in s {
        match rng.below(if overlap { 3 } else { 2 }) {
            0 => {
                a.insert(i);
            }
            1 => {
                b.insert(i);
            }
            _ => {
                a.insert(i);
                b.insert(i);
            }
        }
    }
    (a, b)
}

fn main() {
    let args = Args::parse();
    // silence panics of the code under test (caught and reported), keep the harness' own
    std::panic::set_hook(Box::new(|info| {
        if info.location().is_some_and(|l| l.file().contains("harness") || l.file().ends_with("c09.rs")) {
            eprintln!("{info}");
        }
    }));
    let mut rng = Rng::new(args.seed);
    // the key pool does not depend on the seed of the run (signatures are cached per process)
    let mut krng = Rng::new(0xC09);
    let sks: Vec<SecretKey> = (0..NKEYS).map(|_| SecretKey::new(&mut krng)).collect();
    let ed_pk = signature::SecretKey::new(&mut krng).to_pk();
    // crafted points outside G1 (derived from the run's seed, separate stream)
    let mut trng = Rng::new(args.seed ^ 0x7075_7321_0000);
    let torsion: Vec<blst::blst_p1> = (0..NTORSION).map(|_| offgroup::small_order_point(&mut trng)).collect();
    let mut cx = Cx { rec: Recorder::new(), sks, sig1: HashMap::new(), sigs: HashMap::new(), ed_pk, torsion, class: 0, accepted: 0, rejected: 0 };
    {
        // self-test of the constant r: a genuine signature is killed by it, the crafted points are not in G1 but on the curve
        let g = offgroup::decode(&cx.sig_bytes(&[Part { key: 0, pl: Pl::F(0) }]));
        assert!(offgroup::in_g1(&g) && offgroup::is_inf(&offgroup::mul_r(&g)), "harness: wrong group order constant");
    }
    let max_n: usize = if args.thorough { 40 } else { 14 };
    let rounds = if args.thorough { 700 } else { 42 };
    let mut per_ty: BTreeMap<String, u64> = BTreeMap::new();

    for round in 0..rounds {
        let n = if round < max_n { round + 1 } else { rng.range(1, max_n as u64) as usize };
        let shape = rng.below(5);

        // ------------------------------------------------------------------ votes
        cx.class = 0;
        cx.accepted = 0;
        cx.rejected = 0;
        cx.rec.begin_case("votes");
        let e = gen_epoch(&mut cx, &mut rng, n, shape);
        for kind in 0..5u32 {
            let slot = rng.range(0, 40);
            let hash = rng.range(1, 6);
            let signer = rng.below(n as u64) as usize;
            let v = honest_vote(&e, kind, slot, hash, signer);
            cx.vote(&e, &v, "honest");
            // single-field alterations, signature kept
            for k2 in 0..5u32 {
                if k2 != kind {
                    let mut w = v.clone();
                    w.pl = v.pl.with(k2, slot, hash);
                    cx.vote(&e, &w, "kind altered, signature kept");
                }
            }
            let mut w = v.clone();
            w.pl = v.pl.with(kind, slot + 1 + rng.below(3), hash);
            cx.vote(&e, &w, "slot altered, signature kept");
            if kind < 2 {
                let mut w = v.clone();
                w.pl = v.pl.with(kind, slot, hash + 1);
                cx.vote(&e, &w, "hash altered, signature kept");
            }
            for s2 in [(signer + 1) % n, n, n + 1, n + rng.below(1000) as usize, u64::MAX as usize, (1usize << 32) + signer, rng.next() as usize | (1 << 40)] {
                if s2 != signer {
                    let mut w = v.clone();
                    w.signer = s2 as u64;
                    let same_key = s2 < n && e.keys[s2] == e.keys[signer];
                    if !same_key {
                        cx.vote(&e, &w, "signer altered, signature kept");
                    }
                }
            }
            // signature alterations
            let outsider = n + rng.below((NKEYS - n) as u64) as usize;
            let other = (signer + 1) % n;
            let mut w = v.clone();
            w.parts = vec![Part { key: outsider, pl: v.pl }];
            cx.vote(&e, &w, "signed by a key outside the epoch");
            if e.keys[other] != e.keys[signer] {
                let mut w = v.clone();
                w.parts = vec![Part { key: e.keys[other], pl: v.pl }];
                cx.vote(&e, &w, "signed by another validator's key");
                let mut w = v.clone();
                w.parts = vec![Part { key: e.keys[signer], pl: v.pl }, Part { key: e.keys[other], pl: v.pl }];
                cx.vote(&e, &w, "signature is an aggregate of two validators");
            }
            let mut w = v.clone();
            w.parts = vec![Part { key: e.keys[signer], pl: v.pl.with((kind + 1 + rng.below(4) as u32) % 5, slot, hash) }];
            cx.vote(&e, &w, "signature transplanted from another vote kind");
            let mut w = v.clone();
            w.parts = vec![v.parts[0], v.parts[0]];
            cx.vote(&e, &w, "signature doubled");
            let mut w = v.clone();
            w.parts = vec![];
            cx.vote(&e, &w, "identity signature");
            // signature bytes moved off the prime-order subgroup: (this vote's valid signature) + T_j. A pairing check
            // without subgroup test cannot tell it from the genuine signature, so only the decoder stands in the way.
            let t = Part { key: TORSION + rng.below(NTORSION as u64) as usize, pl: Pl::F(0) };
            let mut w = v.clone();
            w.parts = vec![v.parts[0], t];
            cx.vote(&e, &w, "valid signature plus a small-order point outside G1");
            if kind as usize == round % 5 {
                let mut w = v.clone();
                w.parts = vec![t];
                cx.vote(&e, &w, "signature is a small-order point outside G1");
            }
            // multi-field: a different honest vote's signature under this vote's fields
            for _ in 0..3 {
                let k2 = rng.below(5) as u32;
                let u = honest_vote(&e, k2, slot + rng.below(2), hash + rng.below(2), rng.below(n as u64) as usize);
                let mut w = v.clone();
                w.parts = u.parts.clone();
                if rng.chance(1, 2) {
                    w.signer = u.signer;
                }
                if rng.chance(1, 3) {
                    w.pl = w.pl.with(k2, w.pl.slot(), hash);
                }
                cx.vote(&e, &w, "multi-field mutation");
            }
        }
        cx.rec.end_case(cx.class ^ n as u64, cx.accepted > 0 && cx.rejected > 0);

        // ------------------------------------------------------------------ certificates around the thresholds
        cx.class = 0;
        cx.accepted = 0;
        cx.rejected = 0;
        cx.rec.begin_case("cert-threshold");
        let e = gen_epoch(&mut cx, &mut rng, n, shape);
        for ty in 0..5usize {
            let (num, den) = if ty == 3 { (4, 5) } else { (3, 5) };
            let slot = rng.range(0, 40);
            let hash = rng.range(1, 6);
            let (at, below) = around_threshold(&e, &mut rng, num, den);
            for (set, why) in [(&at, "honest, stake just meets the threshold"), (&below, "honest but one signer short of the threshold")] {
                if set.is_empty() {
                    continue;
                }
                let ov = rng.chance(1, 2);
                let (s1, s2) = if ty == 1 || ty == 2 { split(&mut rng, set, ov) } else { (set.clone(), BTreeSet::new()) };
                let c = honest_cert(&e, ty, slot, hash, &s1, &s2);
                let out = cx.cert(&e, &c, why);
                *per_ty.entry(format!("{}:{out}", c.ty())).or_default() += 1;
                // (the constructors sum the stake of both halves in u64: skip where that overflows)
                if rng.chance(1, 3) && stake_of(&e, &s1).checked_add(stake_of(&e, &s2)).is_some() {
                    cx.constructor_agrees(&e, &c);
                }
                // the declared stake figure is not trusted
                let mut d = c.clone();
                let r = rng.next();
                *d.declared_mut() = *rng.pick(&[0, 1, u64::MAX, e.info.total_stake().inner(), r]);
                cx.cert(&e, &d, &format!("{why}; declared stake replaced"));
            }
            // under-backed certificates that DECLARE a sufficient stake: one signer short with the declared figure set to the
            // total / exactly the threshold / u64::MAX, and a single validator (the lightest one: what one Byzantine validator
            // can sign on its own) claiming the whole stake
            {
                let total = e.info.total_stake().inner();
                let need = ((total as u128 * num).div_ceil(den)) as u64;
                let lightest: BTreeSet<usize> = (0..n).min_by_key(|i| (e.stakes[*i], *i)).into_iter().collect();
                for (set, claim, why) in [
                    (&below, total, "one signer short of the threshold, declared stake = total stake"),
                    (&below, need, "one signer short of the threshold, declared stake = exactly the threshold"),
                    (&below, u64::MAX, "one signer short of the threshold, declared stake = u64::MAX"),
                    (&lightest, total, "signed by the lightest validator alone, declared stake = total stake"),
                ] {
                    if set.is_empty() {
                        continue;
                    }
                    let (s1, s2) = if ty == 1 || ty == 2 { split(&mut rng, set, false) } else { (set.clone(), BTreeSet::new()) };
                    let mut c = honest_cert(&e, ty, slot, hash, &s1, &s2);
                    *c.declared_mut() = claim;
                    cx.cert(&e, &c, why);
                }
            }
            // a validator present in both halves counts once
            if (ty == 1 || ty == 2) && below.len() >= 1 {
                let c = honest_cert(&e, ty, slot, hash, &below, &below);
                cx.cert(&e, &c, "every signer in both halves, distinct stake below the threshold");
                let c = honest_cert(&e, ty, slot, hash, &at, &at);
                cx.cert(&e, &c, "every signer in both halves, distinct stake meets the threshold");
            }
            // notar certificate re-tagged as fast-final and back
            if ty == 0 {
                let c = honest_cert(&e, 3, slot, hash, &at, &BTreeSet::new());
                cx.cert(&e, &c, "60% notar aggregate presented as fast-final");
            }
        }
        cx.rec.end_case(cx.class ^ (n as u64) << 8, cx.accepted > 0 && cx.rejected > 0);

        // ------------------------------------------------------------------ mutations of valid certificates
        cx.class = 0;
        cx.accepted = 0;
        cx.rejected = 0;
        cx.rec.begin_case("cert-mutation");
        let e = gen_epoch(&mut cx, &mut rng, n, shape);
        for ty in 0..5usize {
            let (num, den) = if ty == 3 { (4, 5) } else { (3, 5) };
            let slot = rng.range(0, 40);
            let hash = rng.range(1, 6);
            let (mut at, _) = around_threshold(&e, &mut rng, num, den);
            // sometimes more signers than needed
            for i in 0..n {
                if rng.chance(1, 4) {
                    at.insert(i);
                }
            }
            let ov = rng.chance(1, 2);
            let (s1, s2) = if ty == 1 || ty == 2 { split(&mut rng, &at, ov) } else { (at.clone(), BTreeSet::new()) };
            let c = honest_cert(&e, ty, slot, hash, &s1, &s2);
            cx.cert(&e, &c, "honest");
            let nh = c.halves().len();
            let muts = if args.thorough { 16 } else { 11 };
            for m in 0..muts {
                let mut d = c.clone();
                let hsel = rng.below(nh as u64) as usize;
                let why: String = match m {
                    0 => {
                        // slot / hash altered, signatures kept
                        d = match d {
                            CertD::N(s, h, a, st) => if rng.chance(1, 2) { CertD::N(s + 1, h, a, st) } else { CertD::N(s, h + 1, a, st) },
                            CertD::FF(s, h, a, st) => if rng.chance(1, 2) { CertD::FF(s + 1, h, a, st) } else { CertD::FF(s, h + 1, a, st) },
                            CertD::NF(s, h, a1, a2, st) => if rng.chance(1, 2) { CertD::NF(s + 1, h, a1, a2, st) } else { CertD::NF(s, h + 1, a1, a2, st) },
                            CertD::S(s, a1, a2, st) => CertD::S(s + 1, a1, a2, st),
                            CertD::F(s, a, st) => CertD::F(s + 1, a, st),
                        };
                        "slot or hash altered, signatures kept".into()
                    }
                    1 => {
                        // a bit flipped, signature kept
                        let i = rng.below(n as u64);
                        let h = &mut d.halves_mut()[hsel];
                        let b = h.bit(i);
                        h.set_bit(i, !b);
                        "one bitmask bit flipped, signature kept".into()
                    }
                    2 => {
                        // one signer's signature missing / replaced
                        let h = &mut d.halves_mut()[hsel];
                        let j = rng.below(h.parts.len() as u64) as usize;
                        match rng.below(4) {
                            0 => {
                                h.parts.remove(j);
                                "one marked signer's signature missing from the aggregate".into()
                            }
                            1 => {
                                h.parts[j].key = n + rng.below((NKEYS - n) as u64) as usize;
                                "one part signed by an outsider key".into()
                            }
                            2 => {
                                let p = h.parts[j];
                                h.parts.push(p);
                                "one part aggregated twice".into()
                            }
                            _ => {
                                let pl = h.parts[j].pl;
                                h.parts[j].pl = pl.with((pl.tag() + 1 + rng.below(4) as u32) % 5, pl.slot(), pl.hash().unwrap_or(1));
                                "one part signs another vote kind".into()
                            }
                        }
                    }
                    3 => {
                        // halves swapped / signature moved to the other half / re-tagged
                        d = match d {
                            CertD::NF(s, h, a1, a2, st) => CertD::NF(s, h, a2, a1, st),
                            CertD::S(s, a1, a2, st) => CertD::S(s, a2, a1, st),
                            CertD::N(s, h, a, st) => match rng.below(3) {
                                0 => CertD::NF(s, h, None, Some(a), st),
                                1 => CertD::F(s, a, st),
                                _ => CertD::S(s, Some(a), None, st),
                            },
                            CertD::FF(s, h, a, st) => CertD::NF(s, h, None, Some(a), st),
                            CertD::F(s, a, st) => if rng.chance(1, 2) { CertD::S(s, Some(a), None, st) } else { CertD::S(s, None, Some(a), st) },
                        };
                        "signatures moved between halves / certificate types".into()
                    }
                    4 => {
                        // bitmask length differs from the validator count
                        let h = &mut d.halves_mut()[hsel];
                        match rng.below(5) {
                            0 => {
                                h.num_bits = h.num_bits.saturating_sub(1 + rng.below(2));
                            }
                            1 => {
                                let old = h.num_bits;
                                h.num_bits += 1 + rng.below(3);
                                while h.num_bits > 64 * h.words.len() as u64 {
                                    h.words.push(if rng.chance(1, 2) { 0 } else { rng.next() });
                                }
                                // a live bit for a validator index beyond the set (signer out of range)
                                if rng.chance(1, 2) {
                                    let i = old + rng.below(h.num_bits - old);
                                    h.set_bit(i, true);
                                }
                            }
                            2 => {
                                // claims more bits than allocated
                                h.num_bits = 64 * h.words.len() as u64 + 1 + rng.below(70);
                            }
                            3 => {
                                // too many words (beyond MAX_SIGNERS) or exactly the maximum
                                let target = if rng.chance(1, 2) { 33 } else { 32 };
                                while h.words.len() < target {
                                    h.words.push(0);
                                }
                                if rng.chance(1, 2) {
                                    h.num_bits = 64 * h.words.len() as u64 - rng.below(2);
                                }
                            }
                            _ => {
                                h.num_bits = 0;
                                if rng.chance(1, 2) {
                                    h.words.clear();
                                }
                            }
                        }
                        "bitmask length differs from the validator count".into()
                    }
                    5 => {
                        // dead bits beyond num_bits set: must be ignored, certificate stays valid
                        let h = &mut d.halves_mut()[hsel];
                        if h.num_bits % 64 != 0 {
                            let w = h.words.len() - 1;
                            h.words[w] |= u64::MAX << (h.num_bits % 64);
                        }
                        "dead bits beyond the bitmask length set".into()
                    }
                    6 => {
                        // signer set emptied
                        let h = &mut d.halves_mut()[hsel];
                        for w in h.words.iter_mut() {
                            *w = 0;
                        }
                        if rng.chance(1, 2) {
                            h.parts.clear();
                        }
                        "a half without signers".into()
                    }
                    7 => {
                        // an unmarked validator's valid signature added without marking it, or marked without signing
                        let h = &mut d.halves_mut()[hsel];
                        let i = rng.below(n as u64);
                        let pl = h.parts.first().map(|p| p.pl).unwrap_or(Pl::F(slot));
                        if rng.chance(1, 2) {
                            h.parts.push(Part { key: e.keys[i as usize], pl });
                            "an extra signature aggregated without marking its signer".into()
                        } else {
                            let b = h.bit(i);
                            h.set_bit(i, true);
                            if b { "unchanged".into() } else { "a validator marked as signer without its signature".into() }
                        }
                    }
                    8 => {
                        // an aggregate moved off the prime-order subgroup (decodes: `AggregateSignature::read` only checks
                        // the curve equation; verification must do the subgroup test)
                        let h = &mut d.halves_mut()[hsel];
                        let t = Part { key: TORSION + rng.below(NTORSION as u64) as usize, pl: Pl::F(0) };
                        if rng.chance(1, 4) {
                            h.parts = vec![t];
                            "aggregate replaced by a small-order point outside G1".into()
                        } else {
                            h.parts.push(t);
                            "aggregate plus a small-order point outside G1".into()
                        }
                    }
                    9 if ty == 1 || ty == 2 => {
                        // mixed certificate, BOTH halves present, bitmasks honest: signatures exchanged between the halves, so
                        // that the SUM of the two aggregates is what it was (sig1 + D, sig2 - D). Each half on its own is not
                        // the aggregate of the validators it marks over its own vote kind.
                        let all: Vec<usize> = at.iter().copied().collect();
                        let (h1, h2): (BTreeSet<usize>, BTreeSet<usize>) = if all.len() < 2 || rng.chance(1, 4) {
                            (at.clone(), at.clone()) // every signer in both halves
                        } else {
                            let cut = rng.range(1, all.len() as u64 - 1) as usize;
                            let mut a: BTreeSet<usize> = all[..cut].iter().copied().collect();
                            let b: BTreeSet<usize> = all[cut..].iter().copied().collect();
                            if rng.chance(1, 3) {
                                a.insert(all[cut]); // one validator in both halves
                            }
                            (a, b)
                        };
                        d = honest_cert(&e, ty, slot, hash, &h1, &h2);
                        cx.cert(&e, &d, "honest, both halves present");
                        let mut hs = d.halves_mut();
                        let i = rng.below(hs[0].parts.len() as u64) as usize;
                        let j = rng.below(hs[1].parts.len() as u64) as usize;
                        match rng.below(3) {
                            0 => {
                                let (p, q) = (hs[0].parts[i], hs[1].parts[j]);
                                hs[0].parts[i] = q;
                                hs[1].parts[j] = p;
                                "one signature of each half aggregated into the other half, bitmasks kept".into()
                            }
                            1 => {
                                let p = hs[0].parts.remove(i);
                                hs[1].parts.push(p);
                                "one signature of the first half aggregated into the second half instead, bitmasks kept".into()
                            }
                            _ => {
                                let q = hs[1].parts.remove(j);
                                hs[0].parts.push(q);
                                "one signature of the second half aggregated into the first half instead, bitmasks kept".into()
                            }
                        }
                    }
                    _ => {
                        // several of the above at once
                        *d.declared_mut() = rng.next();
                        let i = rng.below(n as u64);
                        let h = &mut d.halves_mut()[hsel];
                        let b = h.bit(i);
                        h.set_bit(i, !b);
                        if rng.chance(1, 2) && !h.parts.is_empty() {
                            let j = rng.below(h.parts.len() as u64) as usize;
                            h.parts[j].key = e.keys[i as usize];
                        }
                        "multi-field mutation".into()
                    }
                };
                cx.cert(&e, &d, &why);
            }
        }
        cx.rec.end_case(cx.class ^ (n as u64) << 16, cx.accepted > 0 && cx.rejected > 0);

        // ------------------------------------------------------------------ every signer subset (small n)
        if n <= if args.thorough { 7 } else { 5 } {
            cx.class = 0;
            cx.accepted = 0;
            cx.rejected = 0;
            cx.rec.begin_case("all-subsets");
            let e = gen_epoch(&mut cx, &mut rng, n, shape);
            let ty = rng.below(5) as usize;
            for mask in 1u32..(1 << n) {
                let s: BTreeSet<usize> = (0..n).filter(|i| mask >> i & 1 == 1).collect();
                let (s1, s2) = if ty == 1 || ty == 2 { split(&mut rng, &s, true) } else { (s.clone(), BTreeSet::new()) };
                let c = honest_cert(&e, ty, 7, 2, &s1, &s2);
                cx.cert(&e, &c, "honest signatures of an arbitrary signer subset");
            }
            cx.rec.end_case(cx.class ^ (n as u64) << 24, cx.accepted > 0 && cx.rejected > 0);
        }
    }
    // ---------------------------------------------------------------- the node's own admission path (oracle only)
    // `Alpenglow::handle_all2all_message` must admit exactly what `ValidatedVote::try_new` admits — whoever the vote
    // names as signer, the receiving node itself included. Observable: one validator holds 90 % of the stake, so an
    // admitted notarization vote of it fast-finalizes the slot at once (`finalized_slot`).
    {
        use alpenglow::all2all::TrivialAll2All;
        use alpenglow::consensus::{Alpenglow, ValidatorEpochInfo, Vote};
        use alpenglow::disseminator::TrivialDisseminator;
        use alpenglow::network::{UdpNetwork, localhost_ip_sockaddr};
        use alpenglow::repair::{RepairRequest, RepairResponse};
        use alpenglow::shredder::Shred;
        use alpenglow::Transaction;
        let rt = tokio::runtime::Builder::new_current_thread().enable_all().build().expect("rt");
        for whale in 0..2usize {
            cx.rec.begin_case(&format!("node-admission whale={whale}"));
            let sks: Vec<signature::SecretKey> = (0..2).map(|_| signature::SecretKey::new(&mut rng)).collect();
            let vsks: Vec<SecretKey> = (0..2).map(|_| SecretKey::new(&mut rng)).collect();
            let stranger = SecretKey::new(&mut rng);
            let (node, epoch) = {
                let _g = rt.enter();
                let a2a: UdpNetwork<ConsensusMessage, ConsensusMessage> = UdpNetwork::new_with_any_port();
                let dis: UdpNetwork<Shred, Shred> = UdpNetwork::new_with_any_port();
                let rq: UdpNetwork<RepairRequest, RepairResponse> = UdpNetwork::new_with_any_port();
                let rp: UdpNetwork<RepairResponse, RepairRequest> = UdpNetwork::new_with_any_port();
                let txs: UdpNetwork<Transaction, Transaction> = UdpNetwork::new_with_any_port();
                let validators: Vec<ValidatorInfo> = (0..2).map(|k| ValidatorInfo {
                    id: ValidatorIndex::new(k as u64),
                    stake: Stake::new(if k == whale { 9 } else { 1 }),
                    pubkey: sks[k].to_pk(),
                    voting_pubkey: vsks[k].to_pk(),
                    all2all_address: localhost_ip_sockaddr(a2a.port()),
                    disseminator_address: localhost_ip_sockaddr(dis.port()),
                    repair_requester_address: localhost_ip_sockaddr(rq.port()),
                    repair_responder_address: localhost_ip_sockaddr(rp.port()),
                }).collect();
                let epoch = EpochInfo::new(validators.clone());
                let vei = std::sync::Arc::new(ValidatorEpochInfo::new(ValidatorIndex::new(0), epoch.clone()));
                (Alpenglow::new(sks[0].clone(), vsks[0].clone(), TrivialAll2All::new(validators.clone(), a2a), TrivialDisseminator::new(validators, dis), rq, rp, vei, txs), epoch)
            };
            let pool = node.get_pool();
            let mut expected = 0u64;
            let other = 1 - whale;
            for slot in 1..=6u64 {
                let h: BlockHash = wincode::deserialize::<alpenglow::crypto::Hash>(&rng.bytes(32)).expect("hash").into();
                // (who the vote names as signer, which key signs it)
                let (named, key, what): (usize, &SecretKey, &str) = match slot {
                    1 => (whale, &stranger, "signed by a key that is no validator's"),
                    2 => (whale, &vsks[other], "signed by the other validator's key"),
                    3 => (whale, &vsks[whale], "genuine"),
                    4 => (whale, &stranger, "signed by a key that is no validator's"),
                    5 => (2, &vsks[whale], "naming a validator index beyond the set"),
                    _ => (whale, &vsks[whale], "genuine"),
                };
                let v = Vote::new_notar(Slot::new(slot), h, key, ValidatorIndex::new(named as u64));
                let admissible = ValidatedVote::try_new(v.clone(), &epoch).is_ok();
                let r = catch(|| rt.block_on(node.verif_handle_all2all_message(ConsensusMessage::Vote(v))));
                cx.rec.oracle(r.is_ok(), "c09-node-handler-panics", || format!("handle_all2all_message panicked on a notarization vote for slot {slot} naming validator {named} ({what})"));
                if admissible { expected = slot; }
                let fin = rt.block_on(async { pool.read().await.finalized_slot().inner() });
                cx.rec.count(&format!("node-admission:{}", if admissible { "admissible" } else { "inadmissible" }));
                cx.rec.oracle(fin == expected, "c09-node-admits-unvalidated-vote", || format!("node 0 (whale = validator {whale} with 90 % of the stake) received a notarization vote for slot {slot} naming validator {named}, {what} (ValidatedVote::try_new accepts it: {admissible}); its pool now has finalized slot {fin}, expected {expected}"));
                if fin != expected { break; }
            }
            cx.rec.end_case(whale as u64, true);
        }
        // ---- further node-level cases (oracle only): one real node with n validators, honest messages built with the
        // crate's own constructors and handed to the private all-to-all handler
        use ag_harness::poolkit::{self, CK, K};
        let nkeys = poolkit::Keys::new(&mut Rng::new(0xA1A1));
        let mk_node = |stakes: &[u64], own: usize| {
            let _g = rt.enter();
            let a2a: UdpNetwork<ConsensusMessage, ConsensusMessage> = UdpNetwork::new_with_any_port();
            let dis: UdpNetwork<Shred, Shred> = UdpNetwork::new_with_any_port();
            let rq: UdpNetwork<RepairRequest, RepairResponse> = UdpNetwork::new_with_any_port();
            let rp: UdpNetwork<RepairResponse, RepairRequest> = UdpNetwork::new_with_any_port();
            let txs: UdpNetwork<Transaction, Transaction> = UdpNetwork::new_with_any_port();
            let validators: Vec<ValidatorInfo> = stakes.iter().enumerate().map(|(k, st)| ValidatorInfo {
                id: ValidatorIndex::new(k as u64),
                stake: Stake::new(*st),
                pubkey: nkeys.pks[k].clone(),
                voting_pubkey: nkeys.vpks[k].clone(),
                all2all_address: localhost_ip_sockaddr(a2a.port()),
                disseminator_address: localhost_ip_sockaddr(dis.port()),
                repair_requester_address: localhost_ip_sockaddr(rq.port()),
                repair_responder_address: localhost_ip_sockaddr(rp.port()),
            }).collect();
            let epoch = EpochInfo::new(validators.clone());
            let vei = std::sync::Arc::new(ValidatorEpochInfo::new(ValidatorIndex::new(own as u64), epoch.clone()));
            let node = Alpenglow::new(nkeys.sks[own].clone(), nkeys.vsks[own].clone(), TrivialAll2All::new(validators.clone(), a2a), TrivialDisseminator::new(validators.clone(), dis), rq, rp, vei, txs);
            (node, epoch, validators)
        };
        // (C02, second sentence; C09: a valid vote is admitted whoever signed it) The all-to-all broadcast delivers a node's
        // own votes back to it like anybody else's, and that is the only way they reach its pool: a validly signed vote
        // naming the receiving node itself must be admitted AND counted.  Five equal validators, one crashed: the four
        // live ones (the node among them) hold exactly 80 % - slot 1 must be fast-finalized by their notarization votes;
        // slot 2: the node and two others (60 %) notarize and finalize it in two rounds.
        for (ci, own) in [0usize, 3, 2].into_iter().enumerate() {
            cx.rec.begin_case(&format!("node-own-vote own={own}"));
            let crashed = (own + 1 + rng.below(4) as usize) % 5;
            let (node, epoch, _) = mk_node(&[1; 5], own);
            let pool = node.get_pool();
            let mut live: Vec<usize> = (0..5).filter(|v| *v != crashed).collect();
            match ci { 0 => { live.retain(|v| *v != own); live.push(own); } 1 => { live.retain(|v| *v != own); live.insert(0, own); } _ => rng.shuffle(&mut live) }
            let deliver = |cx: &mut Cx, k: K, slot: u64, h: usize, v: usize| {
                let vote = poolkit::raw_vote(&nkeys, k, slot, h, v);
                let admissible = ValidatedVote::try_new(vote.clone(), &epoch).is_ok();
                let r = catch(|| rt.block_on(node.verif_handle_all2all_message(ConsensusMessage::Vote(vote))));
                cx.rec.oracle(r.is_ok() && admissible, "c09-node-handler-panics", || format!("node {own}: handler panicked on (or the harness built an inadmissible) {} vote for slot {slot} of validator {v}", k.name()));
                cx.rec.count(if v == own { "node-own-vote:own-vote-delivered" } else { "node-own-vote:other-vote-delivered" });
                if v == own {
                    // the pool remembers the vote: a second copy offered to it directly is a duplicate (or the slot is decided and pruned)
                    let vv = ValidatedVote::try_new(poolkit::raw_vote(&nkeys, k, slot, h, v), &epoch).expect("valid");
                    let again = rt.block_on(async { pool.write().await.add_vote(vv).await });
                    cx.rec.oracle(again.is_err(), "c02-own-vote-not-counted", || format!("node {own} of 5 equal validators received its own, validly signed {} vote for slot {slot} over all-to-all (the broadcast loops back; nothing else hands it to the pool) but the pool never saw it: a second copy given to the pool directly is accepted as new", k.name()));
                }
            };
            for &v in &live { deliver(&mut cx, K::Notar, 1, 1, v); }
            let fin = rt.block_on(async { pool.read().await.finalized_slot().inner() });
            cx.rec.oracle(fin == 1, "c02-own-vote-not-counted", || format!("node {own} of 5 equal validators ({crashed} crashed) received the notarization votes for slot 1 of validators {live:?} in this order over all-to-all - its own, validly signed vote among them: 80 % of the stake, one voting round - but its pool reports finalized slot {fin}, not 1 (fast finalization)"));
            let others: Vec<usize> = live.iter().copied().filter(|v| *v != own).take(2).collect();
            let mut trio = vec![own, others[0], others[1]];
            rng.shuffle(&mut trio);
            for &v in &trio { deliver(&mut cx, K::Notar, 2, 5, v); }
            for &v in &trio { deliver(&mut cx, K::Final, 2, 0, v); }
            let fin = rt.block_on(async { pool.read().await.finalized_slot().inner() });
            cx.rec.oracle(fin == 2, "c02-own-vote-not-counted", || format!("node {own} of 5 equal validators received notarization and finalization votes for slot 2 of validators {trio:?} (its own among them, 60 % of the stake) but its pool reports finalized slot {fin}, not 2"));
            cx.rec.end_case(0xC02 ^ ci as u64, true);
        }
        // (C08, second sentence: "certificates for slots that are not yet decided are still accepted"; C09: a sufficiently
        // backed certificate is admitted) The node learns that slot `top` is finalized while the slots below it are still
        // undecided (it missed their votes), then the deciding certificates of those gap slots arrive over all-to-all
        // (catch-up / standstill re-broadcast), in any order.  Each of them is for a slot at or above the watermark: it
        // must reach the pool (held afterwards, unless the call itself decided and pruned the slot), and once every slot
        // up to `top` is decided the watermark is `top`.
        let ngap = if args.thorough { 24 } else { 5 };
        for ci in 0..ngap {
            let n = rng.range(3, 7) as usize;
            let stakes: Vec<u64> = (0..n).map(|_| rng.range(1, 5)).collect();
            let total: u64 = stakes.iter().sum();
            let own = rng.below(n as u64) as usize;
            let top = rng.range(2, 6);
            cx.rec.begin_case(&format!("node-gap-certs n={n} top={top}"));
            let (node, epoch, validators) = mk_node(&stakes, own);
            let pool = node.get_pool();
            let mut signers = |rng: &mut Rng, num: u64| -> Vec<usize> {
                let mut order: Vec<usize> = (0..n).collect();
                rng.shuffle(&mut order);
                let (mut acc, mut out) = (0u64, Vec::new());
                for v in order { if poolkit::met(num, acc, total) && rng.chance(2, 3) { break; } out.push(v); acc += stakes[v]; }
                out.sort();
                out
            };
            // the deciding certificates of slot s (block id 4 s - 3): fast-final, or notarization + finalization
            let mut certs_of = |rng: &mut Rng, s: u64| -> Vec<(CK, Cert)> {
                let h = (4 * s - 3) as usize;
                if rng.chance(1, 2) { vec![(CK::Ff, poolkit::build_cert(&nkeys, CK::Ff, s, h, &signers(rng, 4), &[], &validators))] } else {
                    let mut v = vec![(CK::Notar, poolkit::build_cert(&nkeys, CK::Notar, s, h, &signers(rng, 3), &[], &validators)), (CK::Final, poolkit::build_cert(&nkeys, CK::Final, s, 0, &signers(rng, 3), &[], &validators))];
                    if rng.chance(1, 2) { v.swap(0, 1); }
                    v
                }
            };
            let mut seq: Vec<(u64, CK, Cert)> = certs_of(&mut rng, top).into_iter().map(|(k, c)| (top, k, c)).collect();
            let mut lower: Vec<(u64, CK, Cert)> = Vec::new();
            for s in 1..top { lower.extend(certs_of(&mut rng, s).into_iter().map(|(k, c)| (s, k, c))); }
            match rng.below(3) { 0 => {} 1 => lower.reverse(), _ => rng.shuffle(&mut lower) }
            seq.extend(lower);
            let mut ok_so_far = true;
            for (i, (s, k, c)) in seq.iter().enumerate() {
                let admissible = ValidatedCert::try_new(c.clone(), &epoch).is_ok();
                let hi0 = rt.block_on(async { pool.read().await.finalized_slot().inner() });
                let r = catch(|| rt.block_on(node.verif_handle_all2all_message(ConsensusMessage::Cert(c.clone()))));
                cx.rec.oracle(r.is_ok() && admissible, "c09-node-handler-panics", || format!("node-gap-certs: handler panicked on (or the harness built an inadmissible) {} certificate for slot {s}", k.name()));
                if *s < hi0 { cx.rec.count("node-gap-certs:cert-below-highest-finalized"); }
                // it reached the pool: a second copy offered to the pool directly is a duplicate (held) or out of bounds
                // (the slot got decided and pruned); `Ok` means the pool sees it for the first time
                let vc = ValidatedCert::try_new(c.clone(), &epoch).expect("valid");
                let again = rt.block_on(async { pool.write().await.add_cert(vc).await });
                cx.rec.count(&format!("node-gap-certs:second-copy-{}", match &again { Ok(()) => "accepted-as-new".to_string(), Err(e) => format!("{e:?}") }));
                ok_so_far &= again.is_err();
                cx.rec.oracle(again.is_err(), "c08-node-drops-undecided-slot-cert", || format!("node {own} (stakes {stakes:?}) with highest finalized slot {hi0} received a valid {} certificate for the still undecided slot {s} over all-to-all (message {i} of the case; sequence {:?}): it never reached the pool - a second copy given to the pool directly is accepted as new", k.name(), seq.iter().map(|(s, k, _)| format!("{}@{s}", k.name())).collect::<Vec<_>>()));
            }
            // every slot up to `top` is decided now: nothing below `top` is accepted any more, `top` is the finalized slot
            let hi = rt.block_on(async { pool.read().await.finalized_slot().inner() });
            let mut accepted_below: Vec<u64> = Vec::new();
            for s in 1..top {
                let all: Vec<usize> = (0..n).collect();
                let probe = ValidatedCert::try_new(poolkit::build_cert(&nkeys, CK::Nf, s, (4 * s - 3) as usize, &all, &[], &validators), &epoch).expect("valid");
                let r = rt.block_on(async { pool.write().await.add_cert(probe).await });
                if !matches!(r, Err(alpenglow::consensus::AddCertError::SlotOutOfBounds)) { accepted_below.push(s); }
            }
            cx.rec.oracle(!ok_so_far || (accepted_below.is_empty() && hi == top), "c08-node-watermark-behind", || format!("node {own} (stakes {stakes:?}) received the deciding certificates (fast-final, or notarization + finalization) of every slot 1..={top}, the ones of slot {top} first: highest finalized slot {hi} (should be {top}); a notar-fallback certificate is still admitted for the decided slots {accepted_below:?}"));
            cx.rec.end_case(0xC08 ^ (ci as u64) << 8 ^ top, true);
        }
    }
    let extra = serde_json::json!({ "max_validators": max_n, "rounds": rounds, "threshold_verdicts": per_ty, "kinds": KINDS });
    cx.rec.finish(&args, extra);
}
