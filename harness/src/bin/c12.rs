//! C12 — shreds are bound to leader, slot, slice and position; equivocation is detected.
//! Correspondence with `AgModel.Shred.validate` + the blockstore's equivocation gate, and the property
//! oracle on the real `ValidatedShred::try_new` / `BlockstoreImpl::add_shred_from_dissemination`.
//!
//! ops: see lean/Driver/C12.lean. Mutations are applied to the *wire image* of a shred (what a relay can do).
use ag_harness::*;
use alpenglow::consensus::{Blockstore, BlockstoreEvent, BlockstoreImpl};
use alpenglow::crypto::signature::{PublicKey, SecretKey};
use alpenglow::shredder::{RegularShredder, ShredIndex, ShredValidationError, Shredder, SliceCommitment, ValidatedShred};
use alpenglow::types::{Slice, SliceIndex, Slot};
use alpenglow::all2all::TrivialAll2All;
use alpenglow::consensus::{Alpenglow, ConsensusMessage, EpochInfo, ValidatorEpochInfo};
use alpenglow::crypto::aggsig;
use alpenglow::crypto::Hash;
use alpenglow::crypto::merkle::{SliceMerkleTree, SliceRoot};
use alpenglow::disseminator::TrivialDisseminator;
use alpenglow::network::{UdpNetwork, localhost_ip_sockaddr};
use alpenglow::repair::{RepairRequest, RepairResponse};
use alpenglow::shredder::Shred;
use alpenglow::{Stake, Transaction, ValidatorIndex, ValidatorInfo};
use std::sync::Arc;

type Node = Alpenglow<TrivialAll2All<UdpNetwork<ConsensusMessage, ConsensusMessage>>, TrivialDisseminator<UdpNetwork<Shred, Shred>>, UdpNetwork<Transaction, Transaction>>;

/// read-only observation of the node's blockstore for one slot: which of the slices 0..3 have a cached commitment,
/// and whether the disseminated block is complete (compared with the coarse blockstore model of the driver, which
/// is fed through the abstraction `Seam.absShred`: the seam between the two shred models)
fn node_obs(rt: &tokio::runtime::Runtime, bs: &alpenglow::consensus::SharedBlockstore, slot: u64) -> String {
    rt.block_on(async {
        let g = bs.read().await;
        let mut c = String::new();
        for i in 0..4u64 {
            let idx: SliceIndex = wincode::deserialize(&i.to_le_bytes()).expect("slice index");
            c.push(if g.cached_commitment(Slot::new(slot), idx).is_some() { '1' } else { '0' });
        }
        let blk = g.disseminated_block_hash(Slot::new(slot)).is_some();
        format!("c={c} blk={}", blk as u8)
    })
}

/// a real node (validator 0 of four; validator k holds signing key `sks[k]`), UDP sockets on localhost
fn make_node(sks: &[SecretKey], rng: &mut Rng) -> (Node, EpochInfo) {
    let a2a: UdpNetwork<ConsensusMessage, ConsensusMessage> = UdpNetwork::new_with_any_port();
    let dis: UdpNetwork<Shred, Shred> = UdpNetwork::new_with_any_port();
    let rq: UdpNetwork<RepairRequest, RepairResponse> = UdpNetwork::new_with_any_port();
    let rp: UdpNetwork<RepairResponse, RepairRequest> = UdpNetwork::new_with_any_port();
    let txs: UdpNetwork<Transaction, Transaction> = UdpNetwork::new_with_any_port();
    let vsks: Vec<aggsig::SecretKey> = (0..sks.len()).map(|_| aggsig::SecretKey::new(rng)).collect();
    let validators: Vec<ValidatorInfo> = (0..sks.len())
        .map(|k| ValidatorInfo {
            id: ValidatorIndex::new(k as u64),
            stake: Stake::new(1),
            pubkey: sks[k].to_pk(),
            voting_pubkey: vsks[k].to_pk(),
            // every address is the node's own (other validators do not exist; forwarded shreds come back to a socket nobody reads)
            all2all_address: localhost_ip_sockaddr(a2a.port()),
            disseminator_address: localhost_ip_sockaddr(dis.port()),
            repair_requester_address: localhost_ip_sockaddr(rq.port()),
            repair_responder_address: localhost_ip_sockaddr(rp.port()),
        })
        .collect();
    let epoch = EpochInfo::new(validators.clone());
    let vei = Arc::new(ValidatorEpochInfo::new(ValidatorIndex::new(0), epoch.clone()));
    let node = Alpenglow::new(sks[0].clone(), vsks[0].clone(), TrivialAll2All::new(validators.clone(), a2a), TrivialDisseminator::new(validators, dis), rq, rp, vei, txs);
    (node, epoch)
}

#[path = "../shredwire.rs"]
mod shredwire;
use shredwire::Wire;

fn gen_data(len: usize, a: u64, b: u64) -> Vec<u8> {
    (0..len as u64).map(|i| ((a * i + b + i / 251) % 256) as u8).collect()
}

#[derive(Clone, Debug)]
enum Mut {
    Slot(u64),
    Idx(u64),
    Last(u8),
    Tag(u32),
    Sidx(u64),
    Dat(usize),
    DlenM,
    DlenP,
    SigJunk,
    SigOf(usize, usize),
    PeJunk(usize, usize),
    PeOf(usize, usize, usize, usize),
    Plen(usize),
    Ppush(usize),
}

impl Mut {
    fn field(&self) -> u8 {
        match self {
            Mut::Slot(_) => 0,
            Mut::Idx(_) => 1,
            Mut::Last(_) => 2,
            Mut::Tag(_) => 3,
            Mut::Sidx(_) => 4,
            Mut::Dat(_) | Mut::DlenM | Mut::DlenP => 5,
            Mut::SigJunk | Mut::SigOf(..) => 6,
            Mut::PeJunk(..) | Mut::PeOf(..) | Mut::Plen(_) | Mut::Ppush(_) => 7,
        }
    }
    fn op(&self) -> String {
        match self {
            Mut::Slot(n) => format!("slot {n}"),
            Mut::Idx(n) => format!("idx {n}"),
            Mut::Last(n) => format!("last {n}"),
            Mut::Tag(n) => format!("tag {n}"),
            Mut::Sidx(n) => format!("sidx {n}"),
            Mut::Dat(p) => format!("dat {p}"),
            Mut::DlenM => "dlen m".into(),
            Mut::DlenP => "dlen p".into(),
            Mut::SigJunk => "sig junk".into(),
            Mut::SigOf(s, j) => format!("sig {s} {j}"),
            Mut::PeJunk(l, k) => format!("pe {l} junk {k}"),
            Mut::PeOf(l, s, j, l2) => format!("pe {l} {s} {j} {l2}"),
            Mut::Plen(n) => format!("plen {n}"),
            Mut::Ppush(k) => format!("ppush {k}"),
        }
    }
}

struct Set {
    key: usize,
    #[allow(dead_code)]
    shreds: Vec<ValidatedShred>,
    wires: Vec<Wire>,
    /// `None`: `try_new` (no cache) refused a shred of this validly signed set (only possible for `mkx` sets), so
    /// no `SliceCommitment` value can be obtained through the public API
    commitment: Option<SliceCommitment>,
    /// the commitment bytes as laid out by `SliceCommitment::new`: slot | slice index | last flag | root
    cbytes: Vec<u8>,
    /// every leaf of the signed Merkle tree (also the ones no shred of the set carries) with the proof the tree creates for it
    leaves: Vec<(Vec<u8>, Vec<[u8; 32]>)>,
}

struct Ctx {
    rec: Recorder,
    sks: Vec<SecretKey>,
    pks: Vec<PublicKey>,
    sets: Vec<Set>,
    junk: Vec<[u8; 32]>,
    rt: tokio::runtime::Runtime,
    bs: Option<(BlockstoreImpl, tokio::sync::mpsc::Receiver<BlockstoreEvent>)>,
    flagged: bool,
    class: u64,
}

#[derive(Clone, Copy, PartialEq, Eq, Debug)]
enum Verdict {
    Ok,
    InvalidSignature,
    Equivocation,
    Undecodable,
}

impl Ctx {
    fn mk(&mut self, key: usize, slot: u64, idx: usize, last: bool, parent: Option<(u64, u64)>, len: usize, a: u64, b: u64) -> usize {
        let slice_index: SliceIndex = wincode::deserialize(&(idx as u64).to_le_bytes()).expect("slice index");
        let par = parent.map(|(ps, hs)| {
            let hb: Vec<u8> = (0..32u64).map(|j| ((hs + 7 * j) % 256) as u8).collect();
            (Slot::new(ps), wincode::deserialize(&hb).expect("hash"))
        });
        let slice = Slice { slot: Slot::new(slot), slice_index, is_last: last, parent: par, data: gen_data(len, a, b) };
        let shreds = RegularShredder::default().shred(&slice, &self.sks[key]).expect("fits").to_vec();
        let set = self.sets.len();
        let (hp, ps, hs) = parent.map(|(p, h)| (1, p, h)).unwrap_or((0, 0, 0));
        self.rec.step(&format!("mk {set} {key} {slot} {idx} {} {hp} {ps} {hs} {len} {a} {b}", last as u8), "ok");
        let wires: Vec<Wire> = shreds.iter().map(|s| Wire::of(s.as_shred())).collect();
        let commitment = shreds[0].commitment();
        let cbytes = commitment.as_ref().to_vec();
        let leaves = wires.iter().map(|w: &Wire| (w.data.clone(), w.path.clone())).collect();
        self.sets.push(Set { key, shreds, wires, commitment: Some(commitment), cbytes, leaves });
        set
    }

    /// What a Byzantine leader holding key `key` can sign for a slice besides the regular shredder's output: a
    /// commitment to a Merkle tree of *another shape* - the first `keep` of the slice's 64 shards followed by `extra`
    /// further leaves (`elen` generated bytes each). 65..=128 leaves give 7-hash paths, more give 8, `keep` <= 32
    /// without extras gives paths shorter than 6 (a single leaf: the empty path); the set has the shreds 0..keep.
    /// Built with the crate's public Merkle tree and `SecretKey::sign_bytes`; the wire images are those of the
    /// regular shreds with signature and path replaced.
    fn mkx(&mut self, key: usize, slot: u64, idx: usize, last: bool, parent: Option<(u64, u64)>, len: usize, a: u64, b: u64, keep: usize, extra: usize, elen: usize) -> usize {
        assert!(1 <= keep && keep <= 64 && (keep, extra) != (64, 0));
        let slice_index: SliceIndex = wincode::deserialize(&(idx as u64).to_le_bytes()).expect("slice index");
        let par = parent.map(|(ps, hs)| {
            let hb: Vec<u8> = (0..32u64).map(|j| ((hs + 7 * j) % 256) as u8).collect();
            (Slot::new(ps), wincode::deserialize(&hb).expect("hash"))
        });
        let slice = Slice { slot: Slot::new(slot), slice_index, is_last: last, parent: par, data: gen_data(len, a, b) };
        let base = RegularShredder::default().shred(&slice, &self.sks[key]).expect("fits").to_vec();
        let base: Vec<Wire> = base.iter().map(|s| Wire::of(s.as_shred())).collect();
        let mut leaves: Vec<Vec<u8>> = base.iter().take(keep).map(|w| w.data.clone()).collect();
        for j in 0..extra as u64 {
            leaves.push(gen_data(elen, a + j + 1, b));
        }
        let tree = SliceMerkleTree::new(&leaves);
        let root = tree.get_root();
        let mut cbytes = Vec::new();
        cbytes.extend_from_slice(&slot.to_le_bytes());
        cbytes.extend_from_slice(&(idx as u64).to_le_bytes());
        cbytes.push(last as u8);
        cbytes.extend_from_slice(root.as_ref());
        let sig = self.sks[key].sign_bytes(&cbytes);
        let sig: Vec<u8> = wincode::serialize(&sig).expect("serialize signature");
        assert_eq!(sig.len(), 64);
        let wires: Vec<Wire> = (0..keep)
            .map(|i| {
                let mut w = base[i].clone();
                w.sig = sig.clone();
                let proof = tree.create_proof(i);
                w.path = proof.as_ref().iter().map(|h| h.as_ref().try_into().expect("32 bytes")).collect();
                w
            })
            .collect();
        let set = self.sets.len();
        let (hp, ps, hs) = parent.map(|(p, h)| (1, p, h)).unwrap_or((0, 0, 0));
        self.rec.step(&format!("mkx {set} {key} {slot} {idx} {} {hp} {ps} {hs} {len} {a} {b} {keep} {extra} {elen}", last as u8), "ok");
        // the `SliceCommitment` value (needed to present this commitment as the cached one) only comes out of a
        // successful validation
        let pk = self.pks[key];
        let commitment = wires[0].decode().and_then(|sh| catch(|| ValidatedShred::try_new(sh, None, &pk)).ok()).and_then(|r| r.ok()).map(|v| v.commitment());
        if let Some(c) = &commitment {
            self.rec.count(&format!("mkx:commitment-bytes-as-documented={}", c.as_ref() == &cbytes[..]));
        }
        self.rec.count(&format!("mkx:path-len={}", wires[0].path.len()));
        let leaves = leaves.iter().enumerate().map(|(i, d)| (d.clone(), tree.create_proof(i).as_ref().iter().map(|h| h.as_ref().try_into().expect("32 bytes")).collect())).collect();
        self.sets.push(Set { key, shreds: vec![], wires, commitment, cbytes, leaves });
        set
    }

    fn junk(&mut self, k: usize, rng: &mut Rng) -> [u8; 32] {
        while self.junk.len() <= k {
            let b = rng.bytes(32);
            self.junk.push(b.try_into().expect("32"));
        }
        self.junk[k]
    }

    /// applies the mutations to the wire image; returns the image and whether anything the commitment or the
    /// Merkle derivation depends on really changed (tag and signature changes are tracked separately)
    fn mutate(&mut self, set: usize, i: usize, muts: &[Mut], rng: &mut Rng) -> (Wire, bool, bool) {
        let orig = self.sets[set].wires[i].clone();
        let mut w = orig.clone();
        for m in muts {
            match m {
                Mut::Slot(n) => w.slot = *n,
                Mut::Idx(n) => w.slice_index = *n,
                Mut::Last(n) => w.is_last = *n,
                Mut::Tag(n) => w.tag = *n,
                Mut::Sidx(n) => w.shred_index = *n,
                Mut::Dat(p) => {
                    if *p < w.data.len() {
                        w.data[*p] ^= 1
                    }
                }
                Mut::DlenM => {
                    w.data.pop();
                }
                Mut::DlenP => w.data.push(0),
                Mut::SigJunk => {
                    w.sig = rng.bytes(64);
                }
                Mut::SigOf(s, j) => w.sig = self.sets[*s].wires[*j].sig.clone(),
                Mut::PeJunk(l, k) => {
                    let h = self.junk(*k, rng);
                    if *l < w.path.len() {
                        w.path[*l] = h
                    }
                }
                Mut::PeOf(l, s, j, l2) => {
                    let h = self.sets[*s].wires[*j].path[*l2];
                    if *l < w.path.len() {
                        w.path[*l] = h
                    }
                }
                Mut::Plen(n) => w.path.truncate(*n),
                Mut::Ppush(k) => {
                    let h = self.junk(*k, rng);
                    w.path.push(h)
                }
            }
        }
        // "altered" = not (up to the tag and the signature) a shred some leader of this case produced, at the index
        // and under the header it now claims (zero-padding shards of one slice are byte-identical, and two slices
        // with equal payloads have equal shreds: relabelling then yields a genuine shred)
        let content_changed = self.genuine_set(&w).is_none();
        let sig_changed = w.sig != orig.sig;
        (w, content_changed, sig_changed)
    }

    /// the (first) set one of whose shreds `w` is, up to tag and signature
    fn genuine_set(&self, w: &Wire) -> Option<usize> {
        self.genuine_sets(w).first().copied()
    }

    /// all sets one of whose shreds `w` is, up to tag and signature (they have the same commitment bytes)
    fn genuine_sets(&self, w: &Wire) -> Vec<usize> {
        (0..self.sets.len())
            .filter(|&k| match self.sets[k].wires.get(w.shred_index as usize) {
                Some(g) => w.slot == g.slot && w.slice_index == g.slice_index && w.is_last == g.is_last && w.data == g.data && w.path == g.path,
                None => false,
            })
            .collect()
    }

    fn validate(&self, w: &Wire, cached: Option<&SliceCommitment>, pk: usize) -> (Verdict, Option<ValidatedShred>) {
        match w.decode() {
            None => (Verdict::Undecodable, None),
            Some(shred) => match catch(|| ValidatedShred::try_new(shred, cached, &self.pks[pk])) {
                Ok(Ok(v)) => (Verdict::Ok, Some(v)),
                Ok(Err(ShredValidationError::InvalidSignature)) => (Verdict::InvalidSignature, None),
                Ok(Err(ShredValidationError::Equivocation)) => (Verdict::Equivocation, None),
                Err(_) => (Verdict::Undecodable, None),
            },
        }
    }

    /// what the property demands for this (mutation, cache, key) combination
    fn expected(&self, set: usize, w: &Wire, content_changed: bool, sig_changed: bool, cache: Option<usize>, pk: usize) -> Verdict {
        if w.tag > 1 || w.is_last > 1 || w.shred_index >= 64 || w.slice_index >= 1024 {
            return Verdict::Undecodable;
        }
        let _ = (set, sig_changed);
        let Some(g) = self.genuine_set(w) else {
            // claims a commitment nobody signed and nobody cached
            return Verdict::InvalidSignature;
        };
        let _ = content_changed;
        // two sets can have the very same content (an empty payload without parent and marker for the same slot and
        // slice index, signed by two keys: same commitment bytes, different signatures): the signature is valid if it is
        // the one of ANY set with this content, made by the key it is checked against
        let sig_valid = self.genuine_sets(w).iter().any(|&g| w.sig == self.sets[g].wires[0].sig && pk == self.sets[g].key);
        let cache_is_own = cache.map(|c| self.sets[c].cbytes == self.sets[g].cbytes);
        match cache_is_own {
            // the identical commitment is cached: the check of the signature may be skipped - for the very signature
            // that was verified when the cache was seeded (`ValidatedShred::commitment()` of a shred of set `c`), not
            // for other bytes in its place (D34); another valid signature of the key is verified in full
            Some(true) => {
                let verified = cache.is_some_and(|c| w.sig == self.sets[c].wires[0].sig);
                if verified || sig_valid {
                    Verdict::Ok
                } else {
                    Verdict::InvalidSignature
                }
            }
            Some(false) => {
                if sig_valid {
                    Verdict::Equivocation
                } else {
                    Verdict::InvalidSignature
                }
            }
            None => {
                if sig_valid {
                    Verdict::Ok
                } else {
                    Verdict::InvalidSignature
                }
            }
        }
    }

    fn val(&mut self, set: usize, i: usize, cache: Option<usize>, pk: usize, muts: &[Mut], rng: &mut Rng) {
        let (w, cc, sc) = self.mutate(set, i, muts, rng);
        let cached = match cache {
            None => None,
            Some(c) => match self.sets[c].commitment {
                Some(cm) => Some(cm),
                // no `SliceCommitment` value for that set (its shreds were refused; `mkx` sets only, reported by the
                // uncached validation of the set): the op cannot be executed
                None => return,
            },
        };
        let (got, _) = self.validate(&w, cached.as_ref(), pk);
        let ms = muts.iter().map(Mut::op).collect::<Vec<_>>().join(" ");
        let op = format!("val {set} {i} {} {pk} {ms}", cache.map(|c| c.to_string()).unwrap_or("-".into())).trim_end().to_string();
        let out = match got {
            Verdict::Ok => "ok",
            Verdict::InvalidSignature => "InvalidSignature",
            Verdict::Equivocation => "Equivocation",
            Verdict::Undecodable => "undecodable",
        };
        self.rec.step(&op, out);
        self.rec.count(&format!("val:{out}"));
        self.class = fnv(self.class, out);
        let exp = self.expected(set, &w, cc, sc, cache, pk);
        let genuine_but_sig = self.genuine_set(&w).is_some() && cache.is_some();
        let key = match (exp, got) {
            (Verdict::InvalidSignature, Verdict::Ok) if genuine_but_sig => "unverified-signature-accepted-on-cache-hit",
            (Verdict::Ok, _) => "valid-shred-rejected",
            (_, Verdict::Ok) => "altered-or-unsigned-shred-accepted",
            (Verdict::Equivocation, _) => "conflicting-commitment-not-reported",
            (_, Verdict::Equivocation) => "equivocation-reported-for-correct-leader",
            _ => "wrong-rejection-kind",
        };
        self.rec.oracle(got == exp, key, || format!("{op}: try_new gave {got:?}, the property demands {exp:?} (set {set} signed by key {}, slot {} slice {})", self.sets[set].key, self.sets[set].wires[0].slot, self.sets[set].wires[0].slice_index));
    }

    /// Shred `i` of a set whose signed tree has height h < 6, relabelled by a relay as `n` = i + k * 2^h (same payload,
    /// same path, hence the same derived root): not a shred of that slice - it must be refused (`InvalidSignature`:
    /// nothing the leader can be blamed for), also when the slice's own commitment is cached (the cache shortcut only
    /// compares the derived root). Defect D32 of the pinned snapshot (`derive_root` ignores the index bits above the
    /// path length).
    fn val_alias(&mut self, set: usize, i: usize, n: usize, pk: usize, rng: &mut Rng) {
        for cache in [None, Some(set)] {
            let cached = match cache {
                None => None,
                Some(c) => match self.sets[c].commitment { Some(cm) => Some(cm), None => continue },
            };
            let muts = [Mut::Sidx(n as u64)];
            let (w, _, _) = self.mutate(set, i, &muts, rng);
            let (got, _) = self.validate(&w, cached.as_ref(), pk);
            let out = match got {
                Verdict::Ok => "ok",
                Verdict::InvalidSignature => "InvalidSignature",
                Verdict::Equivocation => "Equivocation",
                Verdict::Undecodable => "undecodable",
            };
            let op = format!("val {set} {i} {} {pk} {}", cache.map(|c| c.to_string()).unwrap_or("-".into()), muts[0].op());
            self.rec.step(&op, out);
            self.rec.count(&format!("short-tree-index-alias:{out}"));
            self.class = fnv(self.class, out);
            let plen = w.path.len();
            self.rec.oracle(got == Verdict::InvalidSignature, "short-tree-index-alias-accepted", || format!("{op}: shred {i} of a slice whose signed Merkle tree has height {plen} ({plen}-hash paths; slot {}, slice {}, signed by key {}), relabelled as index {n} = {i} + k * 2^{plen} (payload, path and derived root unchanged): try_new gave {got:?}, a shred is authentic only at the index its path proves", w.slot, w.slice_index, self.sets[set].key));
        }
    }

    /// `Shred::verify_path_only(root)` (public API; the caller-level Merkle verification that trusts the shred index) on
    /// the mutated wire image of shred `i` of `set`, against the signed root of set `rs` with `rmask` XORed into it.
    /// Oracle only (not in the compared stream). The property (C15, first sentence, for the caller in shredder.rs): it
    /// verifies exactly if the payload is the leaf at the claimed shred index of the tree with that root and the path is
    /// the proof of that position - whatever the height of the signed tree; the header and the signature take no part.
    fn vpo(&mut self, set: usize, i: usize, muts: &[Mut], rs: usize, rmask: Option<&[u8; 32]>, why: &str, rng: &mut Rng) {
        let (w, _, _) = self.mutate(set, i, muts, rng);
        let Some(shred) = w.decode() else { return };
        let mut rb: Vec<u8> = self.sets[rs].cbytes[17..49].to_vec();
        if let Some(m) = rmask { for (b, x) in rb.iter_mut().zip(m) { *b ^= x; } }
        let root_genuine = rb[..] == self.sets[rs].cbytes[17..49];
        let root: SliceRoot = wincode::deserialize::<Hash>(&rb).expect("32 bytes are a Hash").into();
        let got = catch(|| shred.verify_path_only(&root));
        let exp = root_genuine && self.sets[rs].leaves.get(w.shred_index as usize).is_some_and(|(d, p)| *d == w.data && *p == w.path);
        self.rec.count(&format!("verify-path-only:{}:{}", if exp { "valid" } else { "invalid" }, match &got { Ok(b) => b.to_string(), Err(_) => "panic".into() }));
        let ms = muts.iter().map(Mut::op).collect::<Vec<_>>().join(" ");
        let key = if exp { "verify-path-only-rejects-valid" } else { "verify-path-only-unsound" };
        let (nl, plen) = (self.sets[rs].leaves.len(), w.path.len());
        self.rec.oracle(got == Ok(exp), key, || format!("shred {i} of set {set} [{ms}] (claimed shred index {}, {plen}-hash path).verify_path_only(root signed in set {rs}: {nl} leaves{}) gave {got:?}, the property demands {exp} ({why})", w.shred_index, if root_genuine { "" } else { ", with a mask XORed into the root" }));
    }

    /// the `verify_path_only` clauses for shred `i` of `set` (any tree shape): the genuine shred verifies under its own
    /// root and only there; any change of index (incl. aliases i + k * 2^h, also beyond a short tree's width), payload,
    /// path element, path length or root makes it fail
    fn vpo_round(&mut self, set: usize, other: usize, rng: &mut Rng) {
        let nsh = self.sets[set].wires.len();
        let h = self.sets[set].wires[0].path.len();
        let i = rng.below(nsh as u64) as usize;
        self.vpo(set, i, &[], set, None, "genuine shred, own root", rng);
        self.vpo(set, nsh - 1, &[], set, None, "genuine shred, own root", rng);
        // the header and the signature are not part of the Merkle claim
        self.vpo(set, i, &[Mut::Slot(1 + rng.below(1000)), Mut::SigJunk], set, None, "genuine payload, index and path (header / signature changed)", rng);
        self.vpo(set, i, &[], other, None, "root of another slice", rng);
        // the root with a mask XORed into one, two or four of its 8-byte words
        for nw in [1usize, 2, 4] {
            let mut m = [0u8; 32];
            let (o, x) = (rng.below(8) as usize, 1 + rng.below(255) as u8);
            let mut ws = [0usize, 1, 2, 3];
            rng.shuffle(&mut ws);
            for &wd in &ws[..nw] { m[8 * wd + o] = x; }
            self.vpo(set, i, &[], set, Some(&m), "changed root", rng);
        }
        // claimed index: neighbour, any other, aliases modulo the tree width (h < 6: still a decodable index)
        self.vpo(set, i, &[Mut::Sidx((i as u64) ^ 1)], set, None, "wrong index", rng);
        self.vpo(set, i, &[Mut::Sidx((i as u64 + 1 + rng.below(63)) % 64)], set, None, "wrong index", rng);
        if h < 6 {
            for k in [1usize, (64 >> h) - 1, 1 + rng.below((64 >> h) as u64 - 1) as usize] {
                self.vpo(set, i, &[Mut::Sidx((i + (k << h)) as u64)], set, None, "index alias i + k * 2^height of a short tree", rng);
            }
        }
        // payload, path element, path length
        let dl = self.sets[set].wires[i].data.len();
        if dl > 0 { self.vpo(set, i, &[Mut::Dat(rng.below(dl as u64) as usize)], set, None, "payload bit flipped", rng); }
        self.vpo(set, i, &[if rng.chance(1, 2) { Mut::DlenP } else { Mut::DlenM }], set, None, "payload length changed", rng);
        if h > 0 {
            self.vpo(set, i, &[Mut::PeJunk(rng.below(h as u64) as usize, rng.below(4) as usize)], set, None, "path element replaced", rng);
            self.vpo(set, i, &[Mut::Plen(rng.below(h as u64) as usize)], set, None, "path truncated", rng);
            self.vpo(set, i, &[Mut::Plen(h - 1)], set, None, "path truncated", rng);
        }
        self.vpo(set, i, &[Mut::Ppush(rng.below(4) as usize)], set, None, "path extended", rng);
        // another shred's path / payload
        if nsh > 1 {
            let j = (i + 1 + rng.below(nsh as u64 - 1) as usize) % nsh;
            self.vpo(set, j, &[Mut::Sidx(i as u64)], set, None, "another shred of the slice under this index", rng);
        }
    }

    fn bs_new(&mut self) {
        let (tx, rx) = tokio::sync::mpsc::channel(4096);
        self.bs = Some((BlockstoreImpl::new(tx), rx));
        self.flagged = false;
        self.rec.step("bs_new", "ok");
    }

    /// feeds one (possibly mutated) shred through validation and `add_shred_from_dissemination`;
    /// returns the canonical output
    fn bs_feed(&mut self, set: usize, i: usize, use_cache: bool, pk: usize, muts: &[Mut], rng: &mut Rng) -> String {
        let (w, _, _) = self.mutate(set, i, muts, rng);
        let (bs, rx) = self.bs.as_mut().expect("bs_new first");
        let cached = if use_cache {
            let idx: SliceIndex = wincode::deserialize(&w.slice_index.to_le_bytes()).expect("slice index");
            bs.cached_commitment(Slot::new(w.slot), idx)
        } else {
            None
        };
        let pkk = self.pks[pk];
        let out = match w.decode() {
            None => "rej undecodable".to_string(),
            Some(shred) => match ValidatedShred::try_new(shred, cached.as_ref(), &pkk) {
                Err(ShredValidationError::InvalidSignature) => "rej InvalidSignature".to_string(),
                Err(ShredValidationError::Equivocation) => "rej Equivocation".to_string(),
                Ok(v) => {
                    let res = catch(|| self.rt.block_on(bs.add_shred_from_dissemination(v)));
                    while let Ok(ev) = rx.try_recv() {
                        if matches!(ev, BlockstoreEvent::InvalidBlock(_)) {
                            self.flagged = true;
                        }
                    }
                    let f = self.flagged as u8;
                    match res {
                        Err(_) => "panic".to_string(),
                        Ok(Ok(_)) => format!("pass flag {f}"),
                        Ok(Err(e)) => match format!("{e:?}").as_str() {
                            "Duplicate" => format!("pass flag {f}"),
                            k => format!("{k} flag {f}"),
                        },
                    }
                }
            },
        };
        out
    }

    fn bs_add(&mut self, set: usize, i: usize, use_cache: bool, pk: usize, muts: &[Mut], rng: &mut Rng) -> String {
        let ms = muts.iter().map(Mut::op).collect::<Vec<_>>().join(" ");
        let op = format!("bs_add {set} {i} {} {pk} {ms}", if use_cache { "c" } else { "n" }).trim_end().to_string();
        let out = self.bs_feed(set, i, use_cache, pk, muts, rng);
        self.rec.step(&op, &out);
        self.rec.count(&format!("bs:{}", out.split(' ').next().unwrap_or("")));
        self.class = fnv(self.class, &out);
        out
    }
}

/// shape of the tree a Byzantine leader commits to instead of the regular 64-leaf one: (kept shards, extra leaves,
/// bytes per extra leaf); never (64, 0) = the regular tree
fn alt_shape(rng: &mut Rng, k: u64) -> (usize, usize, usize) {
    let (keep, extra) = match k % 6 {
        0 => (64, 1),                                            // 65 leaves: 7-hash paths
        1 => (64, 1 + rng.below(64) as usize),                   // 65..=128 leaves: 7
        2 => (64, 65 + rng.below(40) as usize),                  // > 128 leaves: 8
        3 => {
            // <= 32 leaves, every height 0..=5 equally often (height 0: one leaf, the empty path)
            let h = rng.below(6);
            let lo = if h == 0 { 1 } else { (1u64 << (h - 1)) + 1 };
            ((lo + rng.below((1 << h) - lo + 1)) as usize, 0)
        }
        4 => (33 + rng.below(31) as usize, rng.below(3) as usize), // mostly 6 again (another root of the same height)
        _ => (1 + rng.below(64) as usize, rng.below(70) as usize),
    };
    let extra = if (keep, extra) == (64, 0) { 1 } else { extra };
    (keep, extra, if rng.chance(1, 5) { 0 } else { 2 * rng.below(100) as usize })
}

fn random_mut(rng: &mut Rng, cx: &Ctx, set: usize, i: usize, other: usize) -> Mut {
    let w = &cx.sets[set].wires[i];
    match rng.below(18) {
        0 => Mut::Slot(w.slot + 1 + rng.below(3)),
        1 => Mut::Slot(cx.sets[other].wires[0].slot),
        2 => if rng.chance(1, 2) { Mut::Idx((w.slice_index + 1 + rng.below(5)) % 1024) } else {
            // replay under a slice index that differs in one high bit only (a commitment that packs or truncates the
            // index would not notice)
            Mut::Idx(w.slice_index ^ *rng.pick(&[256u64, 512, 768, 128, 64]))
        },
        3 => Mut::Idx(1024 + rng.below(3)),
        4 => Mut::Last(1 - w.is_last),
        5 => Mut::Last(2),
        6 => Mut::Tag(1 - w.tag),
        7 => Mut::Tag(2 + rng.below(2) as u32),
        8 => Mut::Sidx((w.shred_index + 1 + rng.below(62)) % 64),
        9 => Mut::Sidx(64 + rng.below(3) * 64 + w.shred_index),
        10 => Mut::Dat(rng.below(w.data.len() as u64) as usize),
        11 => {
            if rng.chance(1, 2) {
                Mut::DlenM
            } else {
                Mut::DlenP
            }
        }
        12 => Mut::SigJunk,
        13 => Mut::SigOf(other, rng.below(64) as usize),
        14 => Mut::PeJunk(rng.below(6) as usize, rng.below(4) as usize),
        15 => Mut::PeOf(rng.below(6) as usize, other, rng.below(64) as usize, rng.below(6) as usize),
        16 => Mut::Plen(rng.below(6) as usize),
        _ => Mut::Ppush(rng.below(4) as usize),
    }
}

fn main() {
    let args = Args::parse();
    if std::env::var("VERIF_LOUD").is_err() {
        quiet_panics();
    }
    let mut rng = Rng::new(args.seed);
    let sks: Vec<SecretKey> = (0..4).map(|_| SecretKey::new(&mut rng)).collect();
    let pks: Vec<PublicKey> = sks.iter().map(|s| s.to_pk()).collect();
    let rt = tokio::runtime::Builder::new_current_thread().enable_all().build().expect("tokio runtime");
    let mut cx = Ctx { rec: Recorder::new(), sks, pks, sets: vec![], junk: vec![], rt, bs: None, flagged: false, class: 0 };

    // ---- A: mutation stream on `try_new`
    let n_cases = if args.thorough { 1500 } else { 120 };
    for c in 0..n_cases {
        cx.sets.clear();
        cx.class = 0;
        cx.rec.begin_case("mutations");
        let slot = 1 + rng.below(1 << 30);
        let idx = rng.below(1000) as usize;
        let len = rng.below(if c % 10 == 0 { 3000 } else { 300 }) as usize;
        // set 0: the slice under test (leader key 1); set 1: a conflicting slice for the same slot and index,
        // same leader; set 2: another slot's slice of the same leader; set 3: same slot/index signed by key 2
        let parent = if rng.chance(1, 2) { Some((slot - 1, rng.below(256))) } else { None };
        let (last0, a0, b0) = (rng.chance(1, 2), rng.below(256), rng.below(256));
        cx.mk(1, slot, idx, last0, parent, len, a0, b0);
        cx.mk(1, slot, idx, rng.chance(1, 2), None, len + 1 + rng.below(5) as usize, rng.below(256), rng.below(256));
        cx.mk(1, slot + 1 + rng.below(4), rng.below(1000) as usize, false, None, len, rng.below(256), rng.below(256));
        cx.mk(2, slot, idx, false, None, len, rng.below(256), rng.below(256));
        let per = if args.thorough { 40 } else { 25 };
        for k in 0..per {
            let i = rng.below(64) as usize;
            let nm = match k % 5 {
                0 => 0,
                4 => 2 + rng.below(2) as usize,
                _ => 1,
            };
            let other = 1 + rng.below(3) as usize;
            // combined mutations touch distinct fields (a second write to the same field would undo / override the first)
            let mut muts: Vec<Mut> = Vec::new();
            for _ in 0..nm {
                let m = random_mut(&mut rng, &cx, 0, i, other);
                if !muts.iter().any(|x| std::mem::discriminant(x) == std::mem::discriminant(&m) || (x.field() == m.field())) {
                    muts.push(m);
                }
            }
            let cache = match rng.below(4) {
                0 => Some(0),
                1 => Some(1 + rng.below(3) as usize),
                _ => None,
            };
            let pk = match rng.below(6) {
                0 => 2,
                1 => 3,
                _ => 1,
            };
            cx.val(0, i, cache, pk, &muts, &mut rng);
        }
        // cross-slot / cross-slice / cross-position replays of whole shreds: a shred of set 2 presented with the
        // header of set 0 (and vice versa), and the payload+path of one index under another index
        let i = rng.below(64) as usize;
        let (s0, x0, l0) = (cx.sets[0].wires[0].slot, cx.sets[0].wires[0].slice_index, cx.sets[0].wires[0].is_last);
        cx.val(2, i, None, 1, &[Mut::Slot(s0), Mut::Idx(x0), Mut::Last(l0)], &mut rng);
        cx.val(2, i, Some(0), 1, &[Mut::Slot(s0), Mut::Idx(x0), Mut::Last(l0)], &mut rng);
        cx.val(0, i, Some(0), 1, &[Mut::Sidx((i as u64 + 1) % 64)], &mut rng);
        // the conflicting slice of the same leader: valid on its own, equivocation against the cached one
        cx.val(1, i, None, 1, &[], &mut rng);
        cx.val(1, i, Some(0), 1, &[], &mut rng);
        cx.val(0, i, Some(1), 1, &[], &mut rng);
        // same slot/index signed by another key: not equivocation of leader 1
        cx.val(3, i, Some(0), 1, &[], &mut rng);
        cx.val(3, i, Some(0), 2, &[], &mut rng);
        // D34: the slice's own commitment is cached and a relay replaced the signature bytes of a genuine shred - by
        // garbage, by the leader's valid signature for another slice (set 2), by another key's signature (set 3): never
        // accepted (the repair peers of this node would refuse the shred), never an equivocation; the untouched shred
        // takes the shortcut under any key
        let j = rng.below(64) as usize;
        cx.val(0, j, Some(0), 1, &[Mut::SigJunk], &mut rng);
        cx.val(0, j, Some(0), 2, &[Mut::SigJunk], &mut rng);
        cx.val(0, j, Some(0), 1, &[Mut::SigOf(2, rng.below(64) as usize)], &mut rng);
        cx.val(0, j, Some(0), 1, &[Mut::SigOf(3, rng.below(64) as usize)], &mut rng);
        cx.val(0, j, Some(0), 2, &[Mut::SigOf(3, rng.below(64) as usize)], &mut rng);
        cx.val(0, j, Some(0), 3, &[], &mut rng);
        // set 4: the same leader signs, for the same slot and slice index, a commitment to a tree of another shape
        // (other height: paths of 0..=5, 7 or 8 hashes; or 64 leaves again but other content); every second time over
        // the very shards of set 0. Each of its shreds is valid on its own and a conflicting commitment against 0 / 1.
        let (keep, extra, elen) = alt_shape(&mut rng, c as u64);
        let x = if c % 2 == 0 { cx.mkx(1, slot, idx, last0, parent, len, a0, b0, keep, extra, elen) } else { cx.mkx(1, slot, idx, rng.chance(1, 2), None, rng.below(300) as usize, rng.below(256), rng.below(256), keep, extra, elen) };
        let plen = cx.sets[x].wires[0].path.len();
        let j = rng.below(keep as u64) as usize;
        cx.val(x, j, None, 1, &[], &mut rng);
        cx.val(x, j, Some(0), 1, &[], &mut rng);
        cx.val(x, rng.below(keep as u64) as usize, Some(1), 1, &[], &mut rng);
        cx.val(0, i, Some(x), 1, &[], &mut rng);
        cx.val(x, keep - 1, Some(x), 1, &[], &mut rng);
        cx.val(x, j, Some(0), 2, &[], &mut rng); // not signed by key 2: no equivocation of that key
        cx.val(x, j, None, 2, &[], &mut rng);
        cx.val(x, j, Some(3), 1, &[], &mut rng);
        cx.val(x, j, Some(x), 1, &[Mut::SigJunk], &mut rng);
        for _ in 0..4 {
            let j = rng.below(keep as u64) as usize;
            let mut muts: Vec<Mut> = Vec::new();
            for _ in 0..(1 + rng.below(2)) {
                let m = match rng.below(4) {
                    // the hashes beyond the sixth are as binding as the first six
                    0 if plen > 0 => Mut::PeJunk(rng.below(plen as u64) as usize, rng.below(4) as usize),
                    1 if plen > 0 => Mut::Plen(rng.below(plen as u64) as usize),
                    _ => {
                        let other = 1 + rng.below(3) as usize;
                        random_mut(&mut rng, &cx, x, j, other)
                    }
                };
                // (an index relabel j + k * 2^h under a signed tree of height h < 6 keeps the derived root: it must be
                // refused all the same - `expected` asks whether the image is a produced shred *at the index it claims*)
                if !muts.iter().any(|y| y.field() == m.field()) {
                    muts.push(m);
                }
            }
            let cache = match rng.below(3) { 0 => Some(0), 1 => Some(x), _ => None };
            cx.val(x, j, cache, 1, &muts, &mut rng);
        }
        if plen < 6 {
            let n = (j + (1 << plen) * (1 + rng.below((64 >> plen) as u64 - 1) as usize)) % 64;
            if n != j {
                cx.val_alias(x, j, n, 1, &mut rng);
                cx.vpo(x, j, &[Mut::Sidx(n as u64)], x, None, "index alias i + k * 2^height of a short tree", &mut rng);
            }
        }
        // `Shred::verify_path_only` on the regular 64-leaf slice, the conflicting one and the tree of another shape
        cx.vpo_round(0, 1, &mut rng);
        cx.vpo_round(1, x, &mut rng);
        cx.vpo_round(x, 0, &mut rng);
        let class = cx.class;
        cx.rec.end_case(class, true);
    }

    // ---- B: the blockstore's gate: one consistent block in random arrival order (never flagged), then a conflict
    let n_gate = if args.thorough { 600 } else { 60 };
    for c in 0..n_gate {
        cx.sets.clear();
        cx.class = 0;
        cx.rec.begin_case("gate");
        let slot = 1 + rng.below(1 << 20);
        let nslices = 2 + rng.below(4) as usize;
        let has_last = rng.chance(2, 3);
        // honest block: slices 1..=nslices (index 0 is left out: no block reconstruction in this check), last flag on the last
        let mut first = (0usize, 0u64, 0u64);
        for j in 0..nslices {
            let last = has_last && j + 1 == nslices;
            let (len, a, b) = (rng.below(200) as usize, rng.below(256), rng.below(256));
            if j == 0 { first = (len, a, b); }
            cx.mk(1, slot, 1 + j, last, None, len, a, b);
        }
        // conflicting material signed by the same leader: other content for slice 1; a second "last" slice;
        // a slice beyond the last one
        // every fourth case the second commitment for slice 1 is one to a Merkle tree of another shape / height
        // (`mkx`), alternately over other data and over the very shards of the honest slice 1
        let tall_conflict = c % 4 == 3;
        let conflict_content = if tall_conflict {
            let (keep, extra, elen) = alt_shape(&mut rng, (c / 4) as u64);
            if (c / 4) % 2 == 0 { cx.mkx(1, slot, 1, false, None, first.0, first.1, first.2, keep, extra, elen) } else { cx.mkx(1, slot, 1, false, None, 201 + rng.below(50) as usize, rng.below(256), rng.below(256), keep, extra, elen) }
        } else {
            cx.mk(1, slot, 1, false, None, 201 + rng.below(50) as usize, rng.below(256), rng.below(256))
        };
        let conflict_last = cx.mk(1, slot, nslices + 1, true, None, rng.below(200) as usize, rng.below(256), rng.below(256));
        let beyond = cx.mk(1, slot, nslices + 2, false, None, rng.below(200) as usize, rng.below(256), rng.below(256));
        cx.bs_new();
        // honest phase: up to 20 shreds per slice (never 32: reconstruction is C13), random order, some duplicates
        let mut feed: Vec<(usize, usize)> = Vec::new();
        for j in 0..nslices {
            for _ in 0..(3 + rng.below(17)) {
                feed.push((j, rng.below(20) as usize));
            }
        }
        rng.shuffle(&mut feed);
        let honest_first = c % 3 != 0;
        let mut flagged_in_honest = false;
        if honest_first {
            for &(s, i) in &feed {
                let out = cx.bs_add(s, i, rng.chance(3, 4), 1, &[], &mut rng);
                flagged_in_honest |= !out.starts_with("pass flag 0");
            }
            // a genuine shred of slice 1 whose signature a relay replaced, validated as the node does (cached commitment)
            let junk = cx.bs_add(0, 41 + rng.below(20) as usize, true, 1, &[Mut::SigJunk], &mut rng);
            cx.rec.oracle(junk == "rej InvalidSignature", "unverified-signature-accepted-on-cache-hit", || format!("gate case {c}: a shred of the cached slice 1 of slot {slot} carrying garbage instead of the leader's signature, validated with the blockstore's cached commitment, was answered `{junk}`"));
            let ops = feed.len();
            cx.rec.oracle(!flagged_in_honest, "honest-leader-flagged", || format!("gate case {c}: {ops} validated shreds of one consistent block (slot {slot}, {nslices} slices) made the blockstore reject a shred or flag the leader"));
        }
        // conflict phase, both arrival orders (conflict first when !honest_first)
        let which = if tall_conflict { 0 } else { rng.below(3) };
        let (cs, label) = match which {
            0 => (conflict_content, "two contents for one slice"),
            1 if has_last => (conflict_last, "two last slices"),
            _ if has_last => (beyond, "slice beyond the last"),
            _ => (conflict_content, "two contents for one slice"),
        };
        let use_cache = rng.chance(1, 2);
        let ncs = cx.sets[cs].wires.len() as u64;
        let o1 = cx.bs_add(cs, rng.below(ncs) as usize, use_cache, 1, &[], &mut rng);
        // reported = answered `Equivocation` by `try_new` or by the blockstore (a refusal as `InvalidSignature` of a
        // validly signed shred is not a report)
        let mut reported = o1.contains("Equivocation");
        if !honest_first || o1.starts_with("pass") {
            // the other side of the conflict: 40 shreds of the honest block, a shred of its slice 1 (set 0) among them
            let mut rest: Vec<(usize, usize)> = feed.iter().take(40).cloned().collect();
            if !rest.iter().any(|&(s, _)| s == 0) {
                rest.push(*feed.iter().find(|&&(s, _)| s == 0).expect("every slice is in the feed"));
            }
            for &(s, i) in &rest {
                let out = cx.bs_add(s, i, use_cache, 1, &[], &mut rng);
                reported |= out.contains("Equivocation");
            }
        }
        // after the conflict every further dissemination shred of the slot is refused
        let o3 = cx.bs_add(0, 40, false, 1, &[], &mut rng);
        let flagged = cx.flagged;
        // with the cache the node's `try_new` reports `Equivocation` (and the blockstore never sees the shred):
        // reported = rejected with Equivocation, or flagged by the blockstore
        // the property speaks of two commitments for the *same* slot and slice index; conflicting last-slice markers
        // and slices beyond the last one are compared with the model only (their order dependence is C13 / D2)
        let same_index_conflict = cs == conflict_content;
        cx.rec.oracle(reported || !same_index_conflict, "conflicting-commitment-not-reported", || format!("gate case {c} ({label}, cache={use_cache}, second commitment with {}-hash paths): two conflicting validly signed slices for slot {slot} were both accepted silently (first conflict verdict `{o1}`, later `{o3}`, flagged={flagged})", cx.sets[cs].wires[0].path.len()));
        let class = cx.class;
        cx.rec.end_case(class, true);
    }

    // ---- B2: the same gate after the block has been reconstructed completely: a conflicting validly signed slice
    // arriving *after* completion is still equivocation (slices carry an empty transaction list: 8 zero bytes)
    let n_done = if args.thorough { 200 } else { 20 };
    for c in 0..n_done {
        cx.sets.clear();
        cx.class = 0;
        cx.rec.begin_case("gate-complete");
        let slot = 2 + rng.below(1 << 20);
        let nslices = 1 + rng.below(3) as usize;
        for j in 0..nslices {
            let parent = if j == 0 { Some((slot - 1, rng.below(200))) } else { None };
            cx.mk(1, slot, j, j + 1 == nslices, parent, 8, 0, 0);
        }
        let target = rng.below(nslices as u64) as usize;
        let tparent = if target == 0 { Some((slot - 1, 201 + rng.below(50))) } else { None };
        let conflict = if c % 3 == 2 {
            let (keep, extra, elen) = alt_shape(&mut rng, (c / 3) as u64);
            cx.mkx(1, slot, target, target + 1 == nslices, tparent, 8, 0, 0 + (target != 0) as u64, keep, extra, elen)
        } else {
            cx.mk(1, slot, target, target + 1 == nslices, tparent, 8, 0, 0 + (target != 0) as u64)
        };
        cx.bs_new();
        let mut feed: Vec<(usize, usize)> = Vec::new();
        for j in 0..nslices {
            let mut idx: Vec<usize> = (0..64).collect();
            rng.shuffle(&mut idx);
            // every second case the slice the conflict is about receives exactly the 32 shreds that reconstruct it: no
            // genuine shred of it arrives between its reconstruction and the conflicting shred (the equivocation record
            // must survive reconstruction on its own)
            let extra = rng.below(20) as usize;
            let extra = if c % 2 == 0 && j == target { 0 } else { extra };
            for &i in idx.iter().take(32 + extra) { feed.push((j, i)); }
        }
        rng.shuffle(&mut feed);
        // per slice one victim: the lowest-index shred of the feed that is not the first of its slice to arrive. Just
        // before it arrives, a copy with garbage instead of the leader's signature arrives (D34): with the slice's
        // commitment cached it must be refused; were it stored, `deshred` would copy its signature into every
        // regenerated shred (it takes header and signature from the lowest index present)
        let victims: Vec<(usize, usize)> = (0..nslices)
            .filter_map(|j| {
                let first = feed.iter().find(|e| e.0 == j).copied();
                feed.iter().filter(|e| e.0 == j && Some(**e) != first).map(|e| e.1).min().map(|i| (j, i))
            })
            .collect();
        let mut flagged_in_honest = false;
        for &(sidx, i) in &feed {
            if victims.contains(&(sidx, i)) {
                let junk = cx.bs_add(sidx, i, true, 1, &[Mut::SigJunk], &mut rng);
                cx.rec.oracle(junk == "rej InvalidSignature", "unverified-signature-accepted-on-cache-hit", || format!("gate-complete case {c}: shred {i} of slice {sidx} of slot {slot} carrying garbage instead of the leader's signature, validated with the blockstore's cached commitment of that slice, was answered `{junk}`"));
            }
            let out = cx.bs_add(sidx, i, rng.chance(1, 2), 1, &[], &mut rng);
            flagged_in_honest |= !out.starts_with("pass flag 0");
        }
        cx.rec.oracle(!flagged_in_honest, "honest-leader-flagged", || format!("gate-complete case {c}: the shreds of one consistent complete block (slot {slot}, {nslices} slices) made the blockstore reject a shred or flag the leader"));
        let complete = { let (bs, _) = cx.bs.as_ref().expect("bs"); bs.disseminated_block_hash(Slot::new(slot)).is_some() };
        cx.rec.count(&format!("gate-complete:block-reconstructed={complete}"));
        // every shred the node now serves (stored or regenerated) is one a repair peer accepts: `try_new(_, None, leader)`
        if complete {
            let (bs, _) = cx.bs.as_ref().expect("bs");
            let hash = bs.disseminated_block_hash(Slot::new(slot)).expect("complete").clone();
            let mut bad: Vec<(usize, usize)> = Vec::new();
            let mut served = 0;
            for j in 0..nslices {
                let sl: SliceIndex = wincode::deserialize(&(j as u64).to_le_bytes()).expect("slice index");
                for i in 0..64 {
                    if let Some(sh) = bs.get_shred(&(Slot::new(slot), hash.clone()), sl, ShredIndex::new(i).expect("index")) {
                        served += 1;
                        if ValidatedShred::try_new(sh.as_shred().clone(), None, &cx.pks[1]).is_err() {
                            bad.push((j, i));
                        }
                    }
                }
            }
            cx.rec.count(&format!("gate-complete:all-shreds-served={}", served == 64 * nslices));
            cx.rec.oracle(bad.is_empty(), "served-shred-does-not-validate", || format!("gate-complete case {c}: after slot {slot} ({nslices} slices) was reconstructed from shreds that all passed try_new, {} of the {served} shreds get_shred serves are refused by try_new(_, None, leader key), e.g. (slice, index) {:?}", bad.len(), &bad[..bad.len().min(6)]));
        }
        // the conflicting slice, straight to the blockstore (no cached commitment handed to try_new)
        let ncs = cx.sets[conflict].wires.len() as u64;
        let o1 = cx.bs_add(conflict, rng.below(ncs) as usize, false, 1, &[], &mut rng);
        let o2 = cx.bs_add(0, 63, false, 1, &[], &mut rng);
        let flagged = cx.flagged;
        cx.rec.oracle(!o1.starts_with("pass") && flagged, "conflicting-commitment-not-reported", || format!("gate-complete case {c}: after slot {slot} was reconstructed ({nslices} slices, complete={complete}) a different validly signed slice {target} of the same leader was answered `{o1}` (next shred `{o2}`), InvalidBlock emitted: {flagged}"));
        let class = cx.class;
        cx.rec.end_case(class, true);
    }

    // ---- C (oracle only): a relay flips the unauthenticated data/coding tag of one shred of a correct leader
    let n_flip = if args.thorough { 60 } else { 8 };
    for c in 0..n_flip {
        cx.sets.clear();
        let slot = 1 + rng.below(1 << 20);
        let (tx, rx) = tokio::sync::mpsc::channel(4096);
        cx.bs = Some((BlockstoreImpl::new(tx), rx));
        cx.flagged = false;
        let mut recq = Recorder::new();
        std::mem::swap(&mut recq, &mut cx.rec); // `mk` records a step; keep this scenario out of the compared stream
        let set = cx.mk(1, slot, 1, false, None, 100 + rng.below(500) as usize, rng.below(256), rng.below(256));
        std::mem::swap(&mut recq, &mut cx.rec);
        // which 32 of the 64 shreds arrive: data only, a window over the data/coding boundary, or coding only;
        // the victim is anywhere in it, the boundary indices 31 / 32 are always tried
        let start = [0usize, 1, 16, 31, 32][c % 5].min(32);
        let victim = match c % 4 { 0 => 31usize.clamp(start, start + 31), 1 => 32usize.clamp(start, start + 31), _ => start + rng.below(32) as usize };
        let tag = 1 - cx.sets[set].wires[victim].tag;
        let mut outs = Vec::new();
        for i in start..start + 32 {
            let muts = if i == victim { vec![Mut::Tag(tag)] } else { vec![] };
            outs.push(cx.bs_feed(set, i, true, 1, &muts, &mut rng));
        }
        let panicked = outs.iter().any(|o| o == "panic");
        cx.rec.oracle(!panicked, "tagflip-panics", || format!("tag flip: shreds {start}..{} of a correct leader's slice (slot {slot}), shred {victim} with its data/coding tag flipped by a relay: the blockstore panicked while reconstructing", start + 32));
        let flagged = cx.flagged;
        cx.rec.count(if flagged { "tagflip:leader-flagged" } else { "tagflip:harmless" });
        cx.rec.oracle(!flagged, "honest-leader-flagged", || {
            format!("tag flip: 32 shreds of a correct leader's slice (slot {slot}, slice 1, regular shredder), all passing ValidatedShred::try_new, one of them (index {victim}) with its data/coding tag flipped on the wire by a relay: blockstore answered `{}` and emitted InvalidBlock (scenario {c})", outs.last().cloned().unwrap_or_default())
        });
    }

    // ---- D: the real node glue (`Alpenglow::handle_disseminator_shred`, single-stepped through a verif hook):
    // shreds of a consistent block and invalid shreds never flag the leader; a conflicting signed slice does
    let n_node = if args.thorough { 12 } else { 5 };
    for c in 0..n_node {
        cx.sets.clear();
        cx.class = 0;
        cx.rec.begin_case("node");
        let (node, epoch) = {
            let _g = cx.rt.enter();
            make_node(&cx.sks, &mut rng)
        };
        // a slot led by somebody else
        let mut slot = 1 + rng.below(1 << 20);
        while epoch.leader(Slot::new(slot)).id == ValidatorIndex::new(0) {
            slot += 1;
        }
        let leader = (0..4).find(|&k| epoch.leader(Slot::new(slot)).id == ValidatorIndex::new(k as u64)).expect("leader is one of the four");
        let other_key = (1..4).find(|&k| k != leader).expect("another key");
        let s1 = cx.mk(leader, slot, 1, false, None, rng.below(300) as usize, rng.below(256), rng.below(256));
        let s2 = cx.mk(leader, slot, 2, false, None, rng.below(300) as usize, rng.below(256), rng.below(256));
        // every second case the conflicting commitment is one to a tree of another shape / height
        let conflict = if c % 2 == 1 {
            let (keep, extra, elen) = alt_shape(&mut rng, (c / 2) as u64);
            cx.mkx(leader, slot, 1, false, None, 301 + rng.below(50) as usize, rng.below(256), rng.below(256), keep, extra, elen)
        } else {
            cx.mk(leader, slot, 1, false, None, 301 + rng.below(50) as usize, rng.below(256), rng.below(256))
        };
        let foreign = cx.mk(other_key, slot, 1, false, None, 400 + rng.below(50) as usize, rng.below(256), rng.below(256));
        cx.rec.step(&format!("node_new {slot}"), "ok");
        let bs = node.verif_blockstore();
        let feed = |cx: &mut Ctx, set: usize, i: usize, muts: &[Mut], rng: &mut Rng| {
            let (w, _, _) = cx.mutate(set, i, muts, rng);
            let ms = muts.iter().map(Mut::op).collect::<Vec<_>>().join(" ");
            let op = format!("node {set} {i} {leader} {ms}").trim_end().to_string();
            let out = match w.decode() {
                None => "undecodable",
                Some(sh) => {
                    let r = catch(|| cx.rt.block_on(node.verif_handle_disseminator_shred(sh)));
                    if matches!(r, Ok(Ok(()))) { "done" } else { "panic" }
                }
            };
            cx.rec.step(&op, out);
            // the seam: the same observation on the coarse blockstore model driven through the abstraction
            let obs = node_obs(&cx.rt, &bs, slot);
            cx.rec.step("nobs", &obs);
        };
        let probe = |cx: &mut Ctx, set: usize, i: usize| -> String {
            let v = cx.sets[set].shreds[i].clone();
            let r = cx.rt.block_on(async { bs.write().await.add_shred_from_dissemination(v).await });
            let out = match r {
                Ok(_) => "pass".to_string(),
                Err(e) => match format!("{e:?}").as_str() {
                    "Duplicate" => "pass".to_string(),
                    k => k.to_string(),
                },
            };
            cx.rec.step(&format!("probe {set} {i}"), &out);
            cx.class = fnv(cx.class, &out);
            out
        };
        // honest + invalid phase (at least one shred of slice 1, so that the later conflict is a conflict)
        feed(&mut cx, s1, 20 + rng.below(10) as usize, &[], &mut rng);
        for _ in 0..(4 + rng.below(8)) {
            let set = if rng.chance(1, 2) { s1 } else { s2 };
            feed(&mut cx, set, rng.below(20) as usize, &[], &mut rng);
        }
        feed(&mut cx, s1, 21, &[Mut::SigJunk, Mut::Dat(0)], &mut rng);
        feed(&mut cx, s1, 22, &[Mut::Slot(slot + 4)], &mut rng);
        feed(&mut cx, foreign, 23, &[], &mut rng); // same slot / slice, signed by a key that is not the leader's
        feed(&mut cx, s2, 24, &[Mut::Sidx(25)], &mut rng);
        let p1 = probe(&mut cx, s2, 30);
        cx.rec.oracle(p1 == "pass", "honest-leader-flagged", || format!("node case {c}: shreds of one consistent block and shreds with invalid signatures made the node flag the leader of slot {slot} (probe `{p1}`)"));
        // the conflict: a second validly signed commitment for slice 1
        let first_conflict_shred = rng.below(cx.sets[conflict].wires.len() as u64) as usize;
        let cplen = cx.sets[conflict].wires[0].path.len();
        feed(&mut cx, conflict, first_conflict_shred, &[], &mut rng);
        let p2 = probe(&mut cx, s2, 31);
        cx.rec.oracle(p2 == "InvalidShred", "conflicting-commitment-not-reported", || {
            format!("node: Alpenglow::handle_disseminator_shred received shreds of slice 1 of slot {slot} from its leader (validator {leader}) and then shred {first_conflict_shred} of a different, validly signed slice 1 of the same slot ({cplen}-hash Merkle paths); the leader was not flagged (a further shred of the slot is answered `{p2}` by the blockstore, no InvalidBlock)")
        });
        let class = cx.class;
        cx.rec.end_case(class, true);
    }

    // ---- D2: the node glue again, conflict arriving only *after* the slot's block was reconstructed completely
    for c in 0..(if args.thorough { 8 } else { 3 }) {
        cx.sets.clear();
        cx.class = 0;
        cx.rec.begin_case("node-complete");
        let (node, epoch) = {
            let _g = cx.rt.enter();
            make_node(&cx.sks, &mut rng)
        };
        let mut slot = 5 + rng.below(1 << 20);
        while epoch.leader(Slot::new(slot)).id == ValidatorIndex::new(0) {
            slot += 1;
        }
        let leader = (0..4).find(|&k| epoch.leader(Slot::new(slot)).id == ValidatorIndex::new(k as u64)).expect("leader is one of the four");
        let nslices = 1 + rng.below(2) as usize;
        for j in 0..nslices {
            let parent = if j == 0 { Some((slot - 1, rng.below(200))) } else { None };
            cx.mk(leader, slot, j, j + 1 == nslices, parent, 8, 0, 0);
        }
        let target = rng.below(nslices as u64) as usize;
        let tparent = if target == 0 { Some((slot - 1, 201 + rng.below(50))) } else { None };
        let conflict = if c % 3 == 1 {
            let (keep, extra, elen) = alt_shape(&mut rng, (c / 3) as u64);
            cx.mkx(leader, slot, target, target + 1 == nslices, tparent, 8, 0, (target != 0) as u64, keep, extra, elen)
        } else {
            cx.mk(leader, slot, target, target + 1 == nslices, tparent, 8, 0, (target != 0) as u64)
        };
        cx.rec.step(&format!("node_new {slot}"), "ok");
        let bs = node.verif_blockstore();
        for j in 0..nslices {
            let mut idx: Vec<usize> = (0..64).collect();
            rng.shuffle(&mut idx);
            for &i in idx.iter().take(34 + rng.below(10) as usize) {
                let sh = cx.sets[j].shreds[i].as_shred().clone();
                let r = catch(|| cx.rt.block_on(node.verif_handle_disseminator_shred(sh)));
                cx.rec.step(&format!("node {j} {i} {leader}"), if matches!(r, Ok(Ok(()))) { "done" } else { "panic" });
                let obs = node_obs(&cx.rt, &bs, slot);
                cx.rec.step("nobs", &obs);
            }
        }
        let complete = cx.rt.block_on(async { bs.read().await.disseminated_block_hash(Slot::new(slot)).is_some() });
        cx.rec.count(&format!("node-complete:block-reconstructed={complete}"));
        let first_conflict_shred = rng.below(cx.sets[conflict].wires.len() as u64) as usize;
        let sh = cx.sets[conflict].wires[first_conflict_shred].decode().expect("decodable");
        let r = catch(|| cx.rt.block_on(node.verif_handle_disseminator_shred(sh)));
        cx.rec.step(&format!("node {conflict} {first_conflict_shred} {leader}"), if matches!(r, Ok(Ok(()))) { "done" } else { "panic" });
        let obs = node_obs(&cx.rt, &bs, slot);
        cx.rec.step("nobs", &obs);
        // flagged? a further genuine shred is then refused by the blockstore
        let v = cx.sets[0].shreds[63].clone();
        let r = cx.rt.block_on(async { bs.write().await.add_shred_from_dissemination(v).await });
        let p2 = match r { Ok(_) => "pass".to_string(), Err(e) => match format!("{e:?}").as_str() { "Duplicate" => "pass".to_string(), k => k.to_string() } };
        cx.rec.step(&format!("probe 0 63"), &p2);
        cx.rec.oracle(p2 == "InvalidShred", "conflicting-commitment-not-reported", || {
            format!("node-complete case {c}: after the node reconstructed the block of slot {slot} ({nslices} slices, complete={complete}) it received shred {first_conflict_shred} of a different, validly signed slice {target} of the same leader; the leader was not flagged (a further shred is answered `{p2}`)")
        });
        let class = cx.class;
        cx.rec.end_case(class, true);
    }

    let extra = serde_json::json!({});
    cx.rec.finish(&args, extra);
}
