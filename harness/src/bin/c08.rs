//! C08 — finality tracking and pruning: correspondence with `AgModel.Finality` (direct tracker ops) and
//! `AgModel.PoolTrack` (pool ops) + property oracle on the real code.
//!
//! direct ops (one per line) -> `F=.. IF=.. IS=.. hi=<highest> fu=<first unpruned> st=<statuses> par=<links>` | `panic`
//!   fp s h ps ph    FinalityTracker::add_parent((s,h),(ps,ph))
//!   fff s h         mark_fast_finalized((s,h))
//!   fn s h          mark_notarized((s,h))
//!   ffi s           mark_finalized(s)
//! pool ops: see `trackkit.rs` (`c*` lines).
#[path = "../trackkit.rs"]
mod trackkit;
use std::collections::{BTreeMap, BTreeSet};

use ag_harness::*;
use alpenglow::consensus::pool_verif::VerifFinalityTracker;
use alpenglow::consensus::Pool as _;
use alpenglow::types::Slot;
use trackkit::*;

/// Direct driving of the real `FinalityTracker` with the property oracle evaluated after every step.
struct FinCase {
    t: VerifFinalityTracker,
    spec: Spec,
    cum_fin: Vec<B>,
    cum_ifin: Vec<B>,
    cum_iskip: Vec<u64>,
    last_hi: u64,
    last_fu: u64,
    dead: bool,
    class: u64,
    conflict: bool,
}

/// order-independent abstraction of the retained statuses (Finalized / ImplicitlyFinalized merged)
fn abstract_status(t: &VerifFinalityTracker) -> Vec<String> {
    t.status()
        .iter()
        .map(|(s, tag, h)| {
            let k = ["N", "P", "D", "D", "S"][*tag as usize];
            format!("{}:{}:{}", s.inner(), k, h.as_ref().map(hid).map(|x| x.to_string()).unwrap_or_default())
        })
        .collect()
}

impl FinCase {
    fn new() -> Self {
        Self {
            t: VerifFinalityTracker::default(),
            spec: Spec::default(),
            cum_fin: vec![],
            cum_ifin: vec![],
            cum_iskip: vec![],
            last_hi: 0,
            last_fu: 0,
            dead: false,
            class: 0,
            conflict: false,
        }
    }

    /// what the property demands of the retained statuses at or above the watermark
    fn expected_status(&self, v: &SpecView) -> Vec<String> {
        let mut out = Vec::new();
        let mut slots: BTreeSet<u64> = BTreeSet::new();
        slots.insert(0);
        for b in self.spec.notar.iter().chain(self.spec.ff.iter()).chain(v.final_star.iter()) {
            slots.insert(b.0);
        }
        slots.extend(self.spec.fin.iter().copied());
        slots.extend(v.impl_skipped.iter().copied());
        let fin_by_slot: BTreeMap<u64, u64> = v.final_star.iter().map(|b| (b.0, b.1)).collect();
        let notar_by_slot: BTreeMap<u64, u64> = self.spec.notar.iter().map(|b| (b.0, b.1)).collect();
        for s in slots {
            if s < v.watermark {
                continue;
            }
            if s == 0 {
                // genesis: `Notarized(GENESIS)` until (optionally) reached by an ancestor walk
                out.push(if fin_by_slot.contains_key(&0) { "0:D:0".to_string() } else { "0:N:0".to_string() });
            } else if let Some(h) = fin_by_slot.get(&s) {
                out.push(format!("{s}:D:{h}"));
            } else if v.impl_skipped.contains(&s) {
                out.push(format!("{s}:S:"));
            } else if let Some(h) = notar_by_slot.get(&s) {
                out.push(format!("{s}:N:{h}"));
            } else if self.spec.fin.contains(&s) {
                out.push(format!("{s}:P:"));
            }
        }
        out
    }

    /// `force`: call the mutators even below the watermark (the pool never does: bounds check;
    /// `debug_assert!` fires)
    fn apply(&mut self, rec: &mut Recorder, op: &FOp, force: bool) {
        if self.dead {
            return;
        }
        let line = op.line();
        let below = op.slot() < self.t.first_unpruned_slot().inner();
        if below && !force && !matches!(op, FOp::Parent(..)) {
            rec.count("fin:skipped-below-watermark");
            return;
        }
        if let FOp::Parent(b, p) = op {
            if p.0 >= b.0 {
                self.conflict = true;
            }
        }
        if let FOp::Parent(b, p) = op {
            if let Some(q) = self.spec.parent.get(b) {
                if q != p {
                    self.conflict = true;
                }
            }
        }
        // below the watermark the mutators are never called by the pool (bounds check); the spec keeps
        // ignoring such certificates as well ("neither retains nor accepts anything older")
        let ignored_below = below && !matches!(op, FOp::Parent(..));
        if !below {
            self.spec.add(op);
        }
        let res = catch(|| match op {
            FOp::Parent(b, p) => self.t.add_parent(bid(*b), bid(*p)),
            FOp::FastFinal(b) => self.t.mark_fast_finalized(bid(*b)),
            FOp::Notar(b) => self.t.mark_notarized(bid(*b)),
            FOp::Final(s) => self.t.mark_finalized(Slot::new(*s)),
        });
        let consistent = self.spec.consistent() && !self.conflict;
        match res {
            Err(msg) => {
                rec.step(&line, "panic");
                rec.count("fin:panic");
                self.dead = true;
                self.class = fnv(self.class, "panic");
                rec.oracle(!consistent || ignored_below, "fin-panic-on-consistent-input", || {
                    format!("{line}: tracker panicked ({msg}) although the delivered certificates/links are consistent: {:?}", self.spec)
                });
            }
            Ok(ev) => {
                let ev = ev_plain(&ev);
                rec.step(&line, &format!("{} {}", fmt_event(&ev), fmt_fin_tracker(&self.t)));
                let kind = format!("{}{}{}", ev.fin.is_some() as u8, ev.ifin.len().min(3), ev.iskip.len().min(3));
                self.class = fnv(self.class, &kind);
                rec.count(&format!("fin:ev:{kind}"));
                if let Some(b) = ev.fin {
                    self.cum_fin.push(b);
                }
                self.cum_ifin.extend(ev.ifin.iter().copied());
                self.cum_iskip.extend(ev.iskip.iter().copied());
                // D27 coverage: a block implicitly finalized next to a notarized sibling, both arrival orders
                for b in &ev.ifin {
                    if self.spec.notar.iter().any(|n| n.0 == b.0 && n.1 != b.1) {
                        rec.count("fin:ifin-with-notarized-sibling:notar-first");
                    }
                }
                if let FOp::Notar(b) = op {
                    if !below && self.cum_ifin.iter().any(|f| f.0 == b.0 && f.1 != b.1) {
                        rec.count("fin:ifin-with-notarized-sibling:notar-late");
                    }
                }
                let hi = self.t.highest_finalized_slot().inner();
                let fu = self.t.first_unpruned_slot().inner();
                rec.oracle(hi >= self.last_hi, "fin-highest-decreased", || format!("{line}: highest finalized slot went {} -> {hi}", self.last_hi));
                rec.oracle(fu >= self.last_fu && fu <= hi, "fin-watermark-order", || format!("{line}: watermark {} -> {fu}, highest {hi}", self.last_fu));
                self.last_hi = hi;
                self.last_fu = fu;
                let ret_ok = self.t.status().iter().all(|e| e.0.inner() >= fu) && self.t.parents().iter().all(|e| e.0.0.inner() >= fu);
                rec.oracle(ret_ok, "fin-retained-below-watermark", || format!("{line}: tracker retains state below its watermark {fu}: {}", fmt_fin_tracker(&self.t)));
                if consistent {
                    let v = self.spec.view();
                    let mut rep: Vec<B> = self.cum_fin.iter().chain(self.cum_ifin.iter()).copied().collect();
                    let n_rep = rep.len();
                    rep.sort();
                    rep.dedup();
                    rec.oracle(rep.len() == n_rep, "fin-reported-twice", || {
                        format!("{line}: a block was reported finalized more than once: finalized={:?} implicitly={:?}", self.cum_fin, self.cum_ifin)
                    });
                    let mut sk = self.cum_iskip.clone();
                    sk.sort();
                    sk.dedup();
                    rec.oracle(sk.len() == self.cum_iskip.len(), "fin-skip-reported-twice", || format!("{line}: implicit skips reported: {:?}", self.cum_iskip));
                    let direct_ok = self.cum_fin.iter().all(|b| v.direct.contains(b));
                    rec.oracle(direct_ok, "fin-unjustified-finalization", || {
                        format!("{line}: reported finalized {:?} but certificates justify only {:?}", self.cum_fin, v.direct)
                    });
                    let repset: BTreeSet<B> = rep.iter().copied().filter(|b| *b != (0, 0)).collect();
                    let want: BTreeSet<B> = v.final_star.iter().copied().filter(|b| *b != (0, 0)).collect();
                    rec.oracle(repset == want, "fin-reports-not-exact", || {
                        format!("{line}: cumulative finalized reports {repset:?} differ from what the certificates and known parent links imply {want:?}; sets: {:?}", self.spec)
                    });
                    let skset: BTreeSet<u64> = sk.iter().copied().collect();
                    rec.oracle(skset == v.impl_skipped, "fin-skips-not-exact", || {
                        format!("{line}: cumulative implicit skips {skset:?} differ from {:?}; sets: {:?}", v.impl_skipped, self.spec)
                    });
                    rec.oracle(hi == v.highest, "fin-highest-wrong", || format!("{line}: highest finalized {hi}, certificates say {}", v.highest));
                    rec.oracle(fu == v.watermark, "fin-watermark-wrong", || {
                        format!("{line}: watermark {fu} but the decided prefix ends at {} (sets: {:?})", v.watermark, self.spec)
                    });
                    let got = abstract_status(&self.t);
                    let want = self.expected_status(&v);
                    rec.oracle(got == want, "fin-status-not-function-of-sets", || format!("{line}: retained statuses {got:?}, expected {want:?}; sets: {:?}", self.spec));
                }
            }
        }
    }
}

/// Pool-level case: the same worlds delivered as certificates / `add_block` to a real `PoolImpl`.
struct PoolRun {
    c: PoolCase,
    spec: Spec,
    /// accepted certificates (kind, slot, hash)
    accepted: BTreeSet<(CK, u64, u64)>,
    cum_fin: Vec<B>,
    cum_ifin: Vec<B>,
    cum_iskip: Vec<u64>,
    class: u64,
    max_slot: u64,
}

impl PoolRun {
    fn new(f: &CertFactory) -> Self {
        Self { c: PoolCase::new(f), spec: Spec::default(), accepted: BTreeSet::new(), cum_fin: vec![], cum_ifin: vec![], cum_iskip: vec![], class: 0, max_slot: 0 }
    }

    fn apply(&mut self, rec: &mut Recorder, rt: &tokio::runtime::Runtime, f: &mut CertFactory, op: &POp) {
        if self.c.dead {
            return;
        }
        let line = op.line();
        let before = self.spec.view();
        let hi_before = self.c.pool.finalized_slot().inner();
        let out = self.c.apply(rt, f, op);
        rec.step(&line, &out.line);
        rec.count(&format!("pool:{}", out.verdict));
        self.class = fnv(self.class, &format!("{}{}{}", out.verdict, out.announced.len(), out.fin_events.len()));
        if out.verdict == "panic" {
            rec.oracle(false, "pool-panic", || format!("{line}: the pool panicked on a consistent certificate set: {:?}", self.spec));
            return;
        }
        match op {
            POp::Cert(k, s, h) => {
                self.max_slot = self.max_slot.max(*s);
                let far = hi_before + 2 * 18000;
                let want_oob = *s < before.watermark || *s >= far;
                rec.oracle((out.verdict == "oob") == want_oob, "pool-bounds-wrong", || {
                    format!("{line}: verdict {} but the decided prefix ends at {} (highest finalized {hi_before}): a certificate must be refused exactly when its slot is below the decided prefix (or >= 2 epochs ahead)", out.verdict, before.watermark)
                });
                if out.verdict != "oob" {
                    let had = match k {
                        CK::NF => self.accepted.contains(&(*k, *s, *h)),
                        _ => self.accepted.iter().any(|(k2, s2, _)| k2 == k && s2 == s),
                    };
                    rec.oracle((out.verdict == "dup") == had, "pool-duplicate-wrong", || format!("{line}: verdict {} but certificate held before: {had}", out.verdict));
                }
                if out.verdict == "ok" {
                    self.accepted.insert((*k, *s, *h));
                    match k {
                        CK::N => self.spec.add(&FOp::Notar((*s, *h))),
                        CK::F => self.spec.add(&FOp::Final(*s)),
                        CK::FF => self.spec.add(&FOp::FastFinal((*s, *h))),
                        _ => {}
                    }
                }
            }
            POp::Block(b, p) => {
                self.max_slot = self.max_slot.max(b.0);
                if b.0 >= before.watermark {
                    self.spec.add(&FOp::Parent(*b, *p));
                }
            }
            _ => {}
        }
        for ev in &out.fin_events {
            if let Some(b) = ev.fin {
                self.cum_fin.push(b);
            }
            self.cum_ifin.extend(ev.ifin.iter().copied());
            self.cum_iskip.extend(ev.iskip.iter().copied());
        }
        let v = self.spec.view();
        let hi = self.c.pool.finalized_slot().inner();
        let fu = self.c.pool.verif_first_unpruned_slot().inner();
        rec.oracle(hi == v.highest, "pool-highest-wrong", || format!("{line}: finalized_slot() = {hi}, certificates say {}", v.highest));
        rec.oracle(fu == v.watermark, "pool-watermark-wrong", || format!("{line}: watermark {fu}, decided prefix ends at {} ({:?})", v.watermark, self.spec));
        // retained state: nothing below the watermark, nothing beyond the slots ever mentioned (+1)
        let ret = self.c.pool.verif_retained_slots();
        let (root, prs) = self.c.pool.verif_parent_ready_states();
        let s2n = self.c.pool.verif_s2n_waiting();
        let (fst, fpar) = self.c.pool.verif_finality_state();
        let low = ret.iter().map(|s| s.inner()).chain(prs.iter().map(|e| e.0.inner())).chain(s2n.iter().map(|e| e.1.0.inner())).chain(fst.iter().map(|e| e.0.inner())).chain(fpar.iter().map(|e| e.0.0.inner())).min();
        let high = ret.iter().map(|s| s.inner()).chain(prs.iter().map(|e| e.0.inner())).max();
        rec.oracle(low.is_none_or(|l| l >= fu) && root.inner() == fu, "pool-retains-below-watermark", || {
            format!("{line}: state retained for slot {low:?} (parent-ready root {}) although everything below {fu} is decided: {}", root.inner(), self.c.dump())
        });
        rec.oracle(high.is_none_or(|h| h <= self.max_slot + 1), "pool-retains-unmentioned", || format!("{line}: state for slot {high:?} beyond the highest slot mentioned {}", self.max_slot));
        let n_ret = ret.len() + prs.len() + s2n.len() + fst.len() + fpar.len();
        let suffix = (self.max_slot + 2).saturating_sub(fu) as usize;
        let nblocks = self.spec.parent.len() + 8;
        rec.oracle(n_ret <= 3 * suffix + 2 * nblocks, "pool-retained-not-proportional", || format!("{line}: {n_ret} retained entries for an undecided suffix of {suffix} slots"));
        // reports: exact, once
        let mut rep: Vec<B> = self.cum_fin.iter().chain(self.cum_ifin.iter()).copied().collect();
        let n_rep = rep.len();
        rep.sort();
        rep.dedup();
        rec.oracle(rep.len() == n_rep, "pool-reported-twice", || format!("{line}: finalized={:?} implicitly={:?}", self.cum_fin, self.cum_ifin));
        rec.oracle(self.cum_fin.iter().all(|b| v.direct.contains(b)), "pool-unjustified-finalization", || format!("{line}: reported {:?}, justified {:?}", self.cum_fin, v.direct));
        let repset: BTreeSet<B> = rep.iter().copied().filter(|b| *b != (0, 0)).collect();
        let want: BTreeSet<B> = v.final_star.iter().copied().filter(|b| *b != (0, 0)).collect();
        rec.oracle(repset == want, "pool-reports-not-exact", || format!("{line}: cumulative reports {repset:?}, implied by certificates and links {want:?} ({:?})", self.spec));
        let skset: BTreeSet<u64> = self.cum_iskip.iter().copied().collect();
        rec.oracle(skset == v.impl_skipped && skset.len() == self.cum_iskip.len(), "pool-skips-not-exact", || format!("{line}: implicit skips {:?}, expected {:?}", self.cum_iskip, v.impl_skipped));
        // queries about retained slots agree with the accepted certificates
        for s in fu..=self.max_slot {
            let sl = Slot::new(s);
            let want_final = self.accepted.iter().any(|(k, s2, _)| *s2 == s && matches!(k, CK::F | CK::FF));
            let want_notar = self.accepted.iter().find(|(k, s2, _)| *s2 == s && *k == CK::N).map(|e| e.2);
            let got_notar = self.c.pool.get_notarized_block(sl).map(hid);
            rec.oracle(
                self.c.pool.has_final_cert(sl) == want_final && got_notar == want_notar && self.c.pool.has_notar_cert(sl) == want_notar.is_some(),
                "pool-query-changed",
                || format!("{line}: slot {s}: has_final_cert={} (held: {want_final}), notarized block {got_notar:?} (held: {want_notar:?})", self.c.pool.has_final_cert(sl)),
            );
        }
    }
}


/// Stack of the thread the deep-chain cases run on: that of a tokio worker thread (2 MiB by default), which is where
/// a node runs the pool. The ancestor walk of the tracker is recursive; a stack overflow is not a panic (the process
/// aborts), so before fix D31 the depths had to fit (notes/C08.md has the measured limit); the walk is a loop now and one case per run goes far beyond it.
const WORKER_STACK: usize = 2 << 20;

fn on_worker_stack<R: Send>(f: impl FnOnce() -> R + Send) -> R {
    std::thread::scope(|s| std::thread::Builder::new().stack_size(WORKER_STACK).spawn_scoped(s, f).expect("spawn thread").join().expect("deep-chain thread"))
}

/// One chain of `depth` blocks from genesis (slots mostly consecutive, a few gaps), hash id = 10 * slot + 1.
fn deep_chain(rng: &mut Rng, depth: usize) -> Vec<B> {
    let mut chain: Vec<B> = Vec::with_capacity(depth);
    let mut s = 0u64;
    for _ in 0..depth {
        s += if rng.chance(1, 12) { rng.range(2, 3) } else { 1 };
        chain.push((s, 10 * s + 1));
    }
    chain
}

/// the ops of a deep-chain history: all parent links of the chain registered while nothing is finalized, then one
/// finalization at the top (variants: see the call site); `hold` = index of a link that is delivered only at the end
fn deep_chain_ops(rng: &mut Rng, chain: &[B], variant: usize) -> (Vec<FOp>, Option<usize>) {
    let d = chain.len();
    let top = chain[d - 1];
    let link = |i: usize| FOp::Parent(chain[i], if i == 0 { (0, 0) } else { chain[i - 1] });
    let mut links: Vec<FOp> = (0..d).map(link).collect();
    // a few notarizations of chain blocks below the top (certificates a node holds for a notarized-only chain)
    let notars: Vec<FOp> = (0..d - 1).filter(|_| rng.chance(1, 10)).map(|i| FOp::Notar(chain[i])).collect();
    let fin_top = |rng: &mut Rng| if rng.chance(1, 2) { vec![FOp::FastFinal(top)] } else if rng.chance(1, 2) { vec![FOp::Notar(top), FOp::Final(top.0)] } else { vec![FOp::Final(top.0), FOp::Notar(top)] };
    let mut ops = Vec::new();
    let mut hold = None;
    match variant {
        // links bottom-up (the order blocks are received), then the finalization
        0 => { ops.extend(links); ops.extend(notars); ops.extend(fin_top(rng)); }
        // links top-down
        1 => { links.reverse(); ops.extend(notars); ops.extend(links); ops.extend(fin_top(rng)); }
        // links and notarizations in random order
        2 => { links.extend(notars); rng.shuffle(&mut links); ops.extend(links); ops.extend(fin_top(rng)); }
        // the finalization first, then the links bottom-up: the top's own link arrives last and starts the walk
        3 => { ops.extend(fin_top(rng)); ops.extend(notars); ops.extend(links); }
        // one link in the middle is known only after the finalization: two walks, the second started by add_parent
        _ => {
            let h = d / 2 + rng.below(8) as usize;
            hold = Some(h);
            let held = links.remove(h);
            rng.shuffle(&mut links);
            ops.extend(links);
            ops.extend(notars);
            ops.extend(fin_top(rng));
            ops.push(held);
        }
    }
    (ops, hold)
}

/// Deep-chain case on the real `FinalityTracker` (oracle only: the per-step state lines are O(depth) each, so the ops
/// are not written to the compared stream). The oracle is the one of `FinCase::apply`, evaluated after every op that
/// reported something and at the end: reports == direct finalizations + ancestor closure over the known links, each
/// once; implicit skips exact; watermark == end of the decided prefix; nothing retained below it.
fn fin_deep_case(rec: &mut Recorder, rng: &mut Rng, depth: usize, variant: usize) {
    rec.begin_case(&format!("fin-deep v{variant}"));
    let chain = deep_chain(rng, depth);
    let (ops, hold) = deep_chain_ops(rng, &chain, variant);
    let top = chain[depth - 1];
    let desc = format!("deep chain of {depth} blocks (slots 1..={}, every parent link registered, variant {variant}{})", top.0, hold.map(|h| format!(", link of block {:?} delivered last", chain[h])).unwrap_or_default());
    let class = on_worker_stack(|| {
        let mut t = VerifFinalityTracker::default();
        let mut spec = Spec::default();
        let (mut cum_fin, mut cum_ifin, mut cum_iskip): (Vec<B>, Vec<B>, Vec<u64>) = (vec![], vec![], vec![]);
        let mut class = 0u64;
        let mut max_walk = 0usize;
        for (k, op) in ops.iter().enumerate() {
            let line = op.line();
            spec.add(op);
            let res = catch(|| match op {
                FOp::Parent(b, p) => t.add_parent(bid(*b), bid(*p)),
                FOp::FastFinal(b) => t.mark_fast_finalized(bid(*b)),
                FOp::Notar(b) => t.mark_notarized(bid(*b)),
                FOp::Final(s) => t.mark_finalized(Slot::new(*s)),
            });
            let ev = match res {
                Err(msg) => {
                    rec.count("fin-deep:panic");
                    rec.oracle(false, "fin-panic-on-consistent-input", || format!("{desc}: op {k} `{line}`: tracker panicked ({msg})"));
                    return fnv(class, "panic");
                }
                Ok(ev) => ev_plain(&ev),
            };
            let reported = ev.fin.is_some() || !ev.ifin.is_empty() || !ev.iskip.is_empty();
            max_walk = max_walk.max(ev.ifin.len());
            if let Some(b) = ev.fin { cum_fin.push(b); }
            cum_ifin.extend(ev.ifin.iter().copied());
            cum_iskip.extend(ev.iskip.iter().copied());
            if !reported && k + 1 != ops.len() {
                continue;
            }
            class = fnv(class, &format!("{}{}{}", ev.fin.is_some() as u8, ev.ifin.len().min(3), ev.iskip.len().min(3)));
            let v = spec.view();
            let hi = t.highest_finalized_slot().inner();
            let fu = t.first_unpruned_slot().inner();
            let mut rep: Vec<B> = cum_fin.iter().chain(cum_ifin.iter()).copied().collect();
            let n_rep = rep.len();
            rep.sort();
            rep.dedup();
            rec.oracle(rep.len() == n_rep, "fin-reported-twice", || format!("{desc}: after op {k} `{line}` a block was reported finalized more than once"));
            let repset: BTreeSet<B> = rep.iter().copied().filter(|b| *b != (0, 0)).collect();
            let want: BTreeSet<B> = v.final_star.iter().copied().filter(|b| *b != (0, 0)).collect();
            rec.oracle(repset == want, "fin-reports-not-exact", || {
                let missing: Vec<&B> = want.difference(&repset).collect();
                let extra: Vec<&B> = repset.difference(&want).collect();
                format!("{desc}: after op {k} `{line}`: {} blocks reported finalized, the certificates and known parent links imply {}; {} ancestors never reported (lowest {:?}, highest {:?}), {} reported without justification", repset.len(), want.len(), missing.len(), missing.first(), missing.last(), extra.len())
            });
            let skset: BTreeSet<u64> = cum_iskip.iter().copied().collect();
            rec.oracle(skset == v.impl_skipped && skset.len() == cum_iskip.len(), "fin-skips-not-exact", || format!("{desc}: after op {k} `{line}`: {} implicit skips reported, {} implied", cum_iskip.len(), v.impl_skipped.len()));
            rec.oracle(hi == v.highest, "fin-highest-wrong", || format!("{desc}: after op {k} `{line}`: highest finalized {hi}, certificates say {}", v.highest));
            rec.oracle(fu == v.watermark, "fin-watermark-wrong", || format!("{desc}: after op {k} `{line}`: watermark {fu} but the decided prefix ends at {}", v.watermark));
            let low_st = t.status().iter().map(|e| e.0.inner()).min();
            let low_par = t.parents().iter().map(|e| e.0.0.inner()).min();
            rec.oracle(low_st.is_none_or(|l| l >= fu) && low_par.is_none_or(|l| l >= fu), "fin-retained-below-watermark", || format!("{desc}: after op {k} `{line}`: status kept from slot {low_st:?}, links from slot {low_par:?}, watermark {fu}"));
            // retained state proportional to the undecided suffix: everything decided is gone
            let n_ret = t.status().len() + t.parents().len();
            let suffix = (top.0 + 1).saturating_sub(v.watermark) as usize;
            rec.oracle(n_ret <= 2 * suffix + 2, "fin-retained-not-proportional", || format!("{desc}: after op {k} `{line}`: {n_ret} retained entries, undecided suffix {suffix} slots (decided prefix ends at {})", v.watermark));
        }
        // at the end everything is decided
        let fu = t.first_unpruned_slot().inner();
        rec.oracle(fu == top.0 && cum_ifin.len() + 1 >= depth, "fin-deep-not-resolved", || format!("{desc}: at the end the watermark is {fu} and {} ancestors were reported (generator: expected {} and {})", cum_ifin.len(), top.0, depth - 1));
        rec.count(&format!("fin-deep:longest-walk>1024={}", max_walk > 1024));
        class
    });
    rec.end_case(class, true);
}

/// The same deep chain through a real `PoolImpl`: `add_block` for every block (nothing certified), then one
/// fast-finalization certificate for the top. Afterwards the pool must have reported every ancestor, its watermark must
/// be the top slot, nothing older may be retained and a certificate for an old slot must be refused.
fn pool_deep_case(rec: &mut Recorder, rng: &mut Rng, rt: &tokio::runtime::Runtime, f: &mut CertFactory, depth: usize) {
    rec.begin_case("pool-deep");
    let chain = deep_chain(rng, depth);
    let top = chain[depth - 1];
    let desc = format!("pool: deep chain of {depth} blocks (slots 1..={}) delivered with add_block bottom-up, then a fast-final certificate for the top", top.0);
    let probe = chain[rng.below(depth as u64 / 2) as usize];
    on_worker_stack(|| {
        let mut c = PoolCase::new(f);
        for i in 0..depth {
            let out = c.apply_quiet(rt, f, &POp::Block(chain[i], if i == 0 { (0, 0) } else { chain[i - 1] }));
            if out.verdict == "panic" {
                rec.oracle(false, "pool-panic", || format!("{desc}: add_block of block {i} panicked"));
                return;
            }
        }
        let out = c.apply_quiet(rt, f, &POp::Cert(CK::FF, top.0, top.1));
        rec.oracle(out.verdict == "ok", "pool-panic", || format!("{desc}: the certificate was answered `{}`", out.verdict));
        if out.verdict == "panic" {
            return;
        }
        let log: Vec<Ev> = c.pool.verif_finalization_log().iter().map(ev_plain).collect();
        let rep: Vec<B> = log.iter().flat_map(|e| e.fin.iter().copied().chain(e.ifin.iter().copied())).filter(|b| *b != (0, 0)).collect();
        let repset: BTreeSet<B> = rep.iter().copied().collect();
        let want: BTreeSet<B> = chain.iter().copied().collect();
        rec.oracle(repset == want && rep.len() == repset.len(), "pool-reports-not-exact", || format!("{desc}: {} blocks reported finalized ({} distinct), {} implied by the certificate and the known links; lowest missing {:?}", rep.len(), repset.len(), want.len(), want.difference(&repset).next()));
        let hi = c.pool.finalized_slot().inner();
        let fu = c.pool.verif_first_unpruned_slot().inner();
        rec.oracle(hi == top.0, "pool-highest-wrong", || format!("{desc}: finalized_slot() = {hi}"));
        rec.oracle(fu == top.0, "pool-watermark-wrong", || format!("{desc}: watermark {fu}, decided prefix ends at {}", top.0));
        let ret = c.pool.verif_retained_slots();
        let (root, prs) = c.pool.verif_parent_ready_states();
        let s2n = c.pool.verif_s2n_waiting();
        let (fst, fpar) = c.pool.verif_finality_state();
        let low = ret.iter().map(|s| s.inner()).chain(prs.iter().map(|e| e.0.inner())).chain(s2n.iter().map(|e| e.1.0.inner())).chain(fst.iter().map(|e| e.0.inner())).chain(fpar.iter().map(|e| e.0.0.inner())).min();
        rec.oracle(low.is_none_or(|l| l >= fu) && root.inner() == fu, "pool-retains-below-watermark", || format!("{desc}: state retained for slot {low:?} (parent-ready root {}) although everything below {} is decided", root.inner(), top.0));
        let n_ret = ret.len() + prs.len() + s2n.len() + fst.len() + fpar.len();
        rec.oracle(n_ret <= 16, "pool-retained-not-proportional", || format!("{desc}: {n_ret} retained entries although the undecided suffix is empty"));
        // "neither retains nor accepts anything older"
        let late = c.apply_quiet(rt, f, &POp::Cert(CK::N, probe.0, probe.1));
        rec.oracle(late.verdict == "oob", "pool-bounds-wrong", || format!("{desc}: afterwards a notarization certificate for the decided slot {} was answered `{}`", probe.0, late.verdict));
    });
    rec.end_case(fnv(0, "pool-deep"), true);
}

fn permutations<T: Clone>(xs: &[T]) -> Vec<Vec<T>> {
    if xs.len() <= 1 {
        return vec![xs.to_vec()];
    }
    let mut out = Vec::new();
    for i in 0..xs.len() {
        let mut rest = xs.to_vec();
        let x = rest.remove(i);
        for mut p in permutations(&rest) {
            p.insert(0, x.clone());
            out.push(p);
        }
    }
    out
}

fn main() {
    let args = Args::parse();
    quiet_panics();
    let mut rng = Rng::new(args.seed);
    let mut rec = Recorder::new();

    // ---- shape fin-world: a consistent world, its certificates in random order, with duplicates
    let n_world = if args.thorough { 40000 } else { 6000 };
    for _ in 0..n_world {
        let max_slot = if rng.chance(1, 5) { 14 } else { 8 };
        let w = gen_world(&mut rng, max_slot);
        let mut ops = world_fops(&mut rng, &w);
        // duplicates of some ops (the tracker itself must tolerate re-delivery)
        let ndup = rng.below(3);
        for _ in 0..ndup {
            if !ops.is_empty() {
                let o = *rng.pick(&ops);
                ops.push(o);
            }
        }
        match rng.below(4) {
            0 => {}                                  // generation order: parents first, bottom-up
            1 => ops.reverse(),                      // top-down: children before parents, final before notar
            _ => rng.shuffle(&mut ops),
        }
        rec.begin_case("fin-world");
        let mut c = FinCase::new();
        for op in &ops {
            c.apply(&mut rec, op, false);
        }
        let nontrivial = !c.cum_ifin.is_empty() || !c.cum_iskip.is_empty();
        rec.end_case(c.class, nontrivial);
    }

    // ---- shape fin-perm: every order of a small certificate set; final answers must not depend on the order
    let n_sets = if args.thorough { 40 } else { 10 };
    for _ in 0..n_sets {
        let (ops, _w) = loop {
            let w = gen_world(&mut rng, 5);
            let mut ops = world_fops(&mut rng, &w);
            ops.sort();
            ops.dedup();
            let maxn = if args.thorough { 7 } else { 6 };
            if ops.len() >= 4 && ops.len() <= maxn {
                break (ops, w);
            }
        };
        let mut finals: BTreeMap<String, usize> = BTreeMap::new();
        let mut example: BTreeMap<String, String> = BTreeMap::new();
        for perm in permutations(&ops) {
            rec.begin_case("fin-perm");
            let mut c = FinCase::new();
            for op in &perm {
                c.apply(&mut rec, op, false);
            }
            let mut rep: BTreeSet<B> = c.cum_fin.iter().chain(c.cum_ifin.iter()).copied().collect();
            rep.remove(&(0, 0));
            let mut sk = c.cum_iskip.clone();
            sk.sort();
            let mut st = abstract_status(&c.t);
            st.retain(|s| !s.starts_with("0:"));
            let key = format!("dead={} hi={} fu={} st={:?} rep={:?} sk={:?}", c.dead, c.last_hi, c.last_fu, st, rep, sk);
            *finals.entry(key.clone()).or_default() += 1;
            example.entry(key).or_insert_with(|| perm.iter().map(|o| o.line()).collect::<Vec<_>>().join(" ; "));
            rec.end_case(c.class, true);
        }
        rec.oracle(finals.len() == 1, "fin-order-dependent", || {
            format!("the same certificate set ends in {} different states depending on the arrival order: {:?}", finals.len(), example)
        });
    }

    // ---- shape fin-chaos: arbitrary ops over a tiny universe (inconsistent sets included)
    let n_chaos = if args.thorough { 40000 } else { 6000 };
    for _ in 0..n_chaos {
        rec.begin_case("fin-chaos");
        let mut c = FinCase::new();
        let len = rng.range(3, 14);
        let nh = rng.range(1, 2);
        let ns = rng.range(3, 7);
        for _ in 0..len {
            let s = rng.range(1, ns);
            let h = s * 10 + rng.range(1, nh);
            let op = match rng.below(7) {
                0 | 1 => {
                    let ps = rng.below(s);
                    let ph = if ps == 0 { 0 } else { ps * 10 + rng.range(1, nh) };
                    FOp::Parent((s, h), (ps, ph))
                }
                2 | 3 => FOp::Notar((s, h)),
                4 => FOp::Final(s),
                5 => FOp::FastFinal((s, h)),
                _ => {
                    // parent slot >= block slot: `assert!(block.0 > parent.0)`
                    if rng.chance(1, 6) { FOp::Parent((s, h), (s + rng.below(2), 99)) } else { FOp::Final(s) }
                }
            };
            // the pool never calls the mutators below the watermark; do it rarely (debug_assert)
            let below = op.slot() < c.t.first_unpruned_slot().inner();
            let force = below && rng.chance(1, 10);
            c.apply(&mut rec, &op, force);
            if c.dead {
                break;
            }
        }
        let nontrivial = !c.cum_fin.is_empty();
        rec.end_case(c.class, nontrivial);
    }

    // ---- shape fin-scripted: the kernel-evaluated witnesses of Props/C08.lean (`sampleHistory`,
    // `genesis_report_depends_on_order`, `unsafe_history_not_exact`, `d27_runs_without_panic`) on the real tracker; mutators are called
    // below the watermark as well (release semantics: ignored)
    let scripted_fin: Vec<(&str, Vec<FOp>)> = vec![
        (
            "sample",
            vec![
                FOp::Final(3), FOp::Notar((1, 1)), FOp::Notar((3, 3)), FOp::Parent((3, 3), (1, 1)), FOp::Notar((2, 9)),
                FOp::Final(1), FOp::Parent((1, 1), (0, 0)), FOp::FastFinal((3, 3)), FOp::Parent((2, 9), (1, 1)),
                FOp::FastFinal((4, 4)), FOp::Parent((4, 4), (3, 3)), FOp::Notar((1, 1)),
            ],
        ),
        ("genesis-first", vec![FOp::Parent((1, 1), (0, 0)), FOp::FastFinal((1, 1))]),
        ("genesis-late", vec![FOp::FastFinal((1, 1)), FOp::Parent((1, 1), (0, 0))]),
        ("unsafe", vec![FOp::FastFinal((1, 1)), FOp::FastFinal((2, 2)), FOp::Parent((3, 3), (1, 1)), FOp::FastFinal((3, 3))]),
        // D27 (`d27First` / `d27Late`): B' = (4,5) notarized, B = (4,4) implicitly finalized through C = (8,9);
        // the pinned tracker panicked in `handle_implicitly_finalized` / `mark_notarized`
        ("d27-first", vec![FOp::Notar((4, 5)), FOp::Parent((8, 9), (4, 4)), FOp::FastFinal((8, 9))]),
        ("d27-late", vec![FOp::Parent((8, 9), (4, 4)), FOp::FastFinal((8, 9)), FOp::Notar((4, 5))]),
    ];
    for (name, ops) in &scripted_fin {
        rec.begin_case("fin-scripted");
        let mut c = FinCase::new();
        for op in ops {
            c.apply(&mut rec, op, true);
        }
        let rep: Vec<B> = c.cum_fin.iter().chain(c.cum_ifin.iter()).copied().collect();
        let ok = !c.dead
            && match *name {
                "sample" => c.cum_fin == vec![(3, 3), (4, 4)] && c.cum_ifin == vec![(1, 1)] && c.cum_iskip == vec![2] && c.last_fu == 4,
                "genesis-first" => rep == vec![(1, 1), (0, 0)],
                "genesis-late" => rep == vec![(1, 1)],
                "d27-first" | "d27-late" => {
                    c.cum_fin == vec![(8, 9)]
                        && c.cum_ifin == vec![(4, 4)]
                        && c.cum_iskip == vec![5, 6, 7]
                        && c.last_hi == 8
                        && c.last_fu == 0
                        && abstract_status(&c.t).contains(&"4:D:4".to_string())
                        && c.t.status().iter().any(|(s, tag, h)| s.inner() == 4 && *tag == 3 && h.as_ref().map(hid) == Some(4))
                }
                _ => rep == vec![(1, 1), (2, 2), (3, 3)] && c.cum_iskip.is_empty(),
            };
        rec.oracle(ok, "fin-witness-differs", || {
            format!("scripted case {name}: the real tracker does not behave like the Lean witness: dead={} finalized={:?} implicitly={:?} skipped={:?} watermark={}", c.dead, c.cum_fin, c.cum_ifin, c.cum_iskip, c.last_fu)
        });
        rec.end_case(c.class, true);
    }

    // ---- shape fin-deep: > 1024 consecutive blocks, every parent link registered, nothing finalized, then one
    // finalization at the top: every ancestor is finalized by that one event (or, variant 4, by two) and the decided
    // prefix advances to the top. Depths just over 1024 and 1100..2500 (thorough: up to 4000).
    let n_deep = if args.thorough { 40 } else { 6 };
    for k in 0..n_deep {
        // k == 0: far beyond what a recursive walk survives on this stack (defect D31, fixed: before the fix the process
        // aborted with a stack overflow at about 6500 ancestors; should the recursion return, this case kills the harness
        // and the check reports the crash)
        let depth = if k == 0 { rng.range(20000, 30000) } else if k % 6 == 5 { rng.range(1026, 1100) } else if args.thorough && k % 6 == 2 { rng.range(2500, 4000) } else { rng.range(1100, 2500) } as usize;
        fin_deep_case(&mut rec, &mut rng, depth, k % 5);
    }

    // ---- shape pool-world: worlds delivered to a real PoolImpl as certificates and blocks
    let rt = tokio::runtime::Builder::new_current_thread().build().expect("runtime");
    let mut factory = CertFactory::new();
    let n_pool = if args.thorough { 12000 } else { 2000 };
    for i in 0..n_pool {
        let w = gen_world(&mut rng, if i % 7 == 0 { 13 } else { 8 });
        let mut ops = world_pops(&mut rng, &w);
        for _ in 0..rng.below(3) {
            let o = *rng.pick(&ops);
            ops.push(o);
        }
        match rng.below(4) {
            0 => {}
            1 => ops.reverse(),
            _ => rng.shuffle(&mut ops),
        }
        // late re-delivery of everything after the fact, and a far-future certificate
        if rng.chance(1, 3) {
            let mut again = ops.clone();
            rng.shuffle(&mut again);
            again.truncate(6);
            ops.extend(again);
        }
        if rng.chance(1, 10) {
            let k = rng.range(0, 2);
            ops.push(POp::Cert(CK::S, w.top + 36000 - 1 + k, 0));
        }
        rec.begin_case("pool-world");
        let mut r = PoolRun::new(&factory);
        for op in &ops {
            r.apply(&mut rec, &rt, &mut factory, op);
        }
        let nontrivial = !r.cum_ifin.is_empty() || !r.cum_iskip.is_empty();
        rec.end_case(r.class, nontrivial);
    }

    // ---- shape pool-scripted: fixed regression scenarios (consistent inputs)
    let scripted: Vec<Vec<POp>> = vec![
        // a fork block (2,9) of parent (1,1) waits for the parent certificate; slots 2 and 3 are decided first;
        // the parent's notarization then finalizes slot 1, prunes slot 2, and must not look the pruned child up
        vec![
            POp::Block((2, 9), (1, 1)),
            POp::Cert(CK::F, 1, 0),
            POp::Cert(CK::FF, 2, 8),
            POp::Cert(CK::FF, 3, 7),
            POp::Cert(CK::N, 1, 1),
            POp::Cert(CK::S, 4, 0),
        ],
        // finalization through add_block (gap closes by a parent link): the pool must prune in the same step
        vec![
            POp::Cert(CK::FF, 3, 3),
            POp::Cert(CK::N, 1, 1),
            POp::Cert(CK::S, 2, 0),
            POp::Block((1, 1), (0, 0)),
            POp::Block((3, 3), (1, 1)),
            POp::Block((2, 5), (1, 1)),
            POp::Cert(CK::N, 1, 1),
            POp::Cert(CK::N, 3, 3),
        ],
        // benign order fast-final, final, notar of one slot with a gap below (D14)
        vec![
            POp::Cert(CK::N, 2, 5),
            POp::Cert(CK::FF, 2, 5),
            POp::Cert(CK::F, 2, 0),
            POp::Block((2, 5), (1, 4)),
            POp::Block((1, 4), (0, 0)),
            POp::Cert(CK::N, 1, 4),
        ],
        // D27 at pool level, the certificates a node holds in the equivocation scenario: notarization of B' = (4,5),
        // notar-fallback of B = (4,4), skip 5..7, block C = (8,9) on B, fast-finalization of C
        vec![
            POp::Cert(CK::N, 4, 5),
            POp::Cert(CK::NF, 4, 4),
            POp::Cert(CK::S, 5, 0),
            POp::Cert(CK::S, 6, 0),
            POp::Cert(CK::S, 7, 0),
            POp::Block((8, 9), (4, 4)),
            POp::Cert(CK::FF, 8, 9),
            POp::Query(12),
        ],
        // ... and with the certificate of B' arriving after B was implicitly finalized
        vec![
            POp::Cert(CK::NF, 4, 4),
            POp::Block((8, 9), (4, 4)),
            POp::Cert(CK::FF, 8, 9),
            POp::Cert(CK::N, 4, 5),
            POp::Cert(CK::NF, 4, 5),
            POp::Query(12),
        ],
    ];
    for ops in &scripted {
        rec.begin_case("pool-scripted");
        let mut r = PoolRun::new(&factory);
        for op in ops {
            r.apply(&mut rec, &rt, &mut factory, op);
        }
        rec.end_case(r.class, true);
    }

    // ---- shape pool-deep: the deep chain through the pool
    for _ in 0..(if args.thorough { 6 } else { 1 }) {
        let depth = rng.range(1100, 2500) as usize;
        pool_deep_case(&mut rec, &mut rng, &rt, &mut factory, depth);
    }

    rec.finish(&args, serde_json::json!({ "worlds": n_world, "perm_sets": n_sets, "chaos": n_chaos, "pool_worlds": n_pool }));
}
