//! bp — deterministic harness for the leader side (`src/consensus/block_producer.rs`): property oracles, and (for C13)
//! correspondence with the Lean model `AgModel.BlockProducer` (`lean/Driver/BlockProducer.lean`, `drv_bp`): per block the
//! op lines `begin` / `slice`* / `end` carry what the ENVIRONMENT saw (trace `T`, `model_ops`), the impl lines what the
//! producer disseminated and stored (see `notes/BlockProducer.md`). Racy plans are not replayed on the model.
//!
//! A real `BlockProducer` (hook `VerifBlockProducer`) is built from a real `BlockstoreImpl`, a real `PoolImpl`, a
//! recording `Disseminator` and a scripted transaction `Network`, and is asked for one block at a time through
//! `produce_block_parent_ready` / `produce_block_parent_not_ready` (optimistic handover: the ParentReady arrives
//! through the `oneshot::Receiver`).  tokio's clock is paused, so the slice / block timers fire in virtual time.
//!
//! Determinism.  The producer measures elapsed time with `std::time::Instant` (real time) and subtracts it from
//! its virtual timers, `tokio::select!` polls its branches in random order, so a schedule is only reproducible
//! when no two things become ready at the same virtual instant (up to the real time the producer burns):
//!  * block time = 640 U, first-slice time = 16 U with U = 10 s of *virtual* time (the production ratio 400 : 10);
//!    every scripted `Wait` is a multiple of U plus 100 ms, the ParentReady timer a multiple of U plus U/2;
//!    at most 40 waits per case: script events, timer and slice deadlines are >= 100 ms apart;
//!  * the scripted network reports `Pending` once on the first `receive()` after a slice went out, so a ParentReady
//!    that is already in the channel when a slice starts is deterministically applied to that slice.
//!
//! Cases whose plan says `racy` (zero timers, no yield at slice boundaries) do have select races: their schedule
//! differs from run to run, the oracles hold for every schedule.
//!
//! Oracles (all on the implementation; what the leader disseminated is judged through a *fresh* follower
//! `BlockstoreImpl` fed like a node feeds it - `ValidatedShred::try_new` with the cached commitment, then
//! `add_shred_from_dissemination` - with >= 32 shreds of every slice in some order):
//!   bp-leader-panics, bp-leader-stalls, bp-follower-reconstructs, bp-parent-switch-wellformed, bp-slice-fits,
//!   bp-oversize-tx-dropped-cleanly, bp-txs-in-order.
use std::collections::{BTreeMap, VecDeque};
use std::future::Future;
use std::net::SocketAddr;
use std::pin::Pin;
use std::sync::{Arc, Mutex, MutexGuard};
use std::task::{Context, Poll};
use std::time::Duration;

use ag_harness::poolkit::{Keys, make_epoch, new_pool};
use ag_harness::*;
use alpenglow::consensus::{
    AddShredError, Blockstore, BlockstoreEvent, BlockstoreImpl, Cert, FastFinalCert, NotarCert, NotarVote, Pool, PoolImpl, SharedBlockstore, SharedPool, SkipCert, SkipFallbackVote, SkipVote,
    ValidatedCert, ValidatorEpochInfo, VerifBlockProducer,
};
use alpenglow::crypto::Hash;
use alpenglow::crypto::merkle::{BlockHash, GENESIS_BLOCK_HASH};
use alpenglow::crypto::signature::PublicKey;
use alpenglow::disseminator::verif_hooks::shred_position;
use alpenglow::network::Network;
use alpenglow::shredder::{DATA_SHREDS, MAX_DATA_PER_SLICE, RegularShredder, Shred, Shredder, TOTAL_SHREDS, ValidatedShred};
use alpenglow::types::{Slice, SliceIndex, Slot};
use alpenglow::{BlockId, Disseminator, MAX_TRANSACTION_SIZE, Transaction, ValidatorIndex};
use tokio::sync::{RwLock, mpsc, oneshot};

/// unit of virtual time
const U: Duration = Duration::from_secs(10);
/// offset every scripted wait carries (see the module comment)
const OFF: Duration = Duration::from_millis(100);
const MAX_WAITS: usize = 40;
/// encoded size of `Some(parent)` / `None` in a slice payload
const PARENT_SOME: usize = 41;
const PARENT_NONE: usize = 1;
const MAX_SLICES: usize = 1024;

fn units(n: u64) -> Duration {
    U * n as u32
}

fn slice_index(i: usize) -> SliceIndex {
    wincode::deserialize::<SliceIndex>(&(i as u64).to_le_bytes()).expect("slice index in range")
}
fn rand_hash(rng: &mut Rng) -> BlockHash {
    let h: Hash = wincode::deserialize(&rng.bytes(32)).expect("hash");
    h.into()
}
fn short(h: &BlockHash) -> String {
    let b = wincode::serialize(h).expect("hash bytes");
    b[..4].iter().map(|x| format!("{x:02x}")).collect()
}
fn bid(b: &BlockId) -> String {
    format!("({},{})", b.0.inner(), short(&b.1))
}

// ---------------------------------------------------------------------------------------------------------
// scripted parts
// ---------------------------------------------------------------------------------------------------------

#[derive(Clone, Debug)]
enum Ev {
    Tx(Vec<u8>),
    /// nothing arrives for this long (virtual time, counted from the first `receive()` that finds it in front)
    Wait(Duration),
    /// the pool's ParentReady of the block under production is sent now
    Pr,
}

struct Shared {
    script: VecDeque<Ev>,
    wait_until: Option<tokio::time::Instant>,
    /// every transaction handed to the producer, in order
    delivered: Vec<Vec<u8>>,
    pr: Option<(oneshot::Sender<BlockId>, BlockId)>,
    /// send the ParentReady when the last shred of this (slot, slice) went out
    pr_after_slice: Option<(u64, usize)>,
    /// where the ParentReady was sent (for the report)
    pr_fired: Option<String>,
    boundary: bool,
    yield_on_boundary: bool,
    /// every shred handed to the disseminator, with whether the send "succeeded"
    sent: Vec<(Shred, bool)>,
    /// how many of the 64 sends of every slice fail (<= 30)
    fail_per_64: u64,
    fail_salt: u64,
    /// what the environment saw, in order (input of the Lean model, see `model_ops`)
    trace: Vec<T>,
}
/// environment-side trace of one block's production
#[derive(Clone, Debug, PartialEq)]
enum T {
    /// the socket handed out a transaction of this length
    Tx(usize),
    /// a `receive()` of the producer went pending (yield at a slice boundary, scripted wait, empty script)
    Pend,
    /// the ParentReady was put into the channel from inside the producer's own poll (script, after a slice went out)
    Pr,
    /// ... while the producer was pending (timer) or before it started
    PrNow,
    /// the last shred of this slice was handed to the disseminator
    Out(usize),
}
type Sh = Arc<Mutex<Shared>>;
fn lock(sh: &Sh) -> MutexGuard<'_, Shared> {
    sh.lock().unwrap_or_else(|e| e.into_inner())
}
fn fire_pr(st: &mut Shared, whence: String) {
    fire_pr_t(st, whence, T::Pr)
}
fn fire_pr_t(st: &mut Shared, whence: String, t: T) {
    if let Some((tx, id)) = st.pr.take() {
        let _ = tx.send(id);
        st.pr_fired = Some(whence);
        st.trace.push(t);
    }
}

struct YieldOnce(bool);
impl Future for YieldOnce {
    type Output = ();
    fn poll(mut self: Pin<&mut Self>, cx: &mut Context<'_>) -> Poll<()> {
        if self.0 {
            Poll::Ready(())
        } else {
            self.0 = true;
            cx.waker().wake_by_ref();
            Poll::Pending
        }
    }
}

/// The transaction socket: hands out the script. Cancel-safe (a transaction is popped and returned in one poll).
struct ScriptNet(Sh);
impl Network for ScriptNet {
    type Send = Transaction;
    type Recv = Transaction;
    async fn send(&self, _m: &Transaction, _a: SocketAddr) -> std::io::Result<()> {
        Ok(())
    }
    async fn send_to_many(&self, _m: &Transaction, _a: impl IntoIterator<Item = SocketAddr> + Send) -> std::io::Result<()> {
        Ok(())
    }
    async fn receive(&self) -> std::io::Result<Transaction> {
        let y = {
            let mut st = lock(&self.0);
            let y = st.boundary && st.yield_on_boundary;
            st.boundary = false;
            y
        };
        if y {
            lock(&self.0).trace.push(T::Pend);
            YieldOnce(false).await;
        }
        loop {
            let deadline = {
                let mut st = lock(&self.0);
                match st.script.front().cloned() {
                    None => None,
                    Some(Ev::Tx(b)) => {
                        st.script.pop_front();
                        st.delivered.push(b.clone());
                        st.trace.push(T::Tx(b.len()));
                        return Ok(Transaction(b));
                    }
                    Some(Ev::Pr) => {
                        st.script.pop_front();
                        let n = st.delivered.len();
                        fire_pr(&mut st, format!("script after {n} delivered txs"));
                        continue;
                    }
                    Some(Ev::Wait(d)) => {
                        let now = tokio::time::Instant::now();
                        let dl = *st.wait_until.get_or_insert(now + d);
                        if now >= dl {
                            st.script.pop_front();
                            st.wait_until = None;
                            continue;
                        }
                        Some(dl)
                    }
                }
            };
            lock(&self.0).trace.push(T::Pend);
            match deadline {
                None => std::future::pending::<()>().await,
                Some(dl) => tokio::time::sleep_until(dl).await,
            }
        }
    }
}

struct RecDiss(Sh);
impl Disseminator for RecDiss {
    async fn send(&self, shred: &Shred) -> std::io::Result<()> {
        let mut st = lock(&self.0);
        let (slot, slice, idx) = shred_position(shred);
        // exactly `fail_per_64` of the 64 sends of a slice fail (37 is a unit mod 64: a permutation of the indices),
        // a different set in every slice; <= 30, so that 34 shreds of every slice do reach the network
        let rot = fnv(0, &format!("{} {} {}", st.fail_salt, slot.inner(), slice));
        let ok = ((idx as u64 * 37 + rot) % 64) >= st.fail_per_64;
        st.sent.push((shred.clone(), ok));
        st.boundary = true;
        if idx == TOTAL_SHREDS - 1 {
            st.trace.push(T::Out(slice));
        }
        if idx == TOTAL_SHREDS - 1 && st.pr_after_slice == Some((slot.inner(), slice)) {
            fire_pr(&mut st, format!("after slice {slice} went out"));
        }
        if ok { Ok(()) } else { Err(std::io::Error::other("scripted send failure")) }
    }
    async fn forward(&self, _shred: &Shred) -> std::io::Result<()> {
        Ok(())
    }
    async fn receive(&self) -> std::io::Result<Shred> {
        std::future::pending().await
    }
}

// ---------------------------------------------------------------------------------------------------------
// plans
// ---------------------------------------------------------------------------------------------------------

#[derive(Clone, Debug, PartialEq)]
enum PrWhen {
    /// already in the channel when production starts
    Before,
    /// an `Ev::Pr` of the block's script
    Script,
    /// when the last shred of slice k has been handed to the disseminator
    AfterSlice(usize),
    /// this long after production started (nothing else happens at that instant)
    AtTime(Duration),
}
#[derive(Clone, Debug, PartialEq)]
enum PrWhat {
    Same,
    /// a block `back` slots before the slot (back >= 2)
    Earlier(u64),
    /// another block of the previous slot
    Sibling,
}
#[derive(Clone, Debug)]
enum Mode {
    /// `produce_block_parent_ready(slot, parent)`; `None`: the block produced before (rest of the window)
    Ready(Option<u64>),
    NotReady(PrWhen, PrWhat),
}
#[derive(Clone, Debug)]
struct BlockPlan {
    mode: Mode,
    script: Vec<Ev>,
    what: String,
}
#[derive(Clone, Debug)]
struct CasePlan {
    tag: String,
    window: u64,
    /// slot offset in the window of the first block (NotReady needs 0)
    first_off: u64,
    delta_block: Duration,
    delta_first: Duration,
    yield_on_boundary: bool,
    fail_per_64: u64,
    blocks: Vec<BlockPlan>,
}

/// Script builder: counts the waits (each carries `OFF`, see module comment).
struct Sb<'a> {
    rng: &'a mut Rng,
    evs: Vec<Ev>,
    waits: &'a mut usize,
    what: Vec<String>,
}
impl Sb<'_> {
    fn tx(&mut self, len: usize) {
        let b = self.rng.bytes(len);
        self.evs.push(Ev::Tx(b));
    }
    /// waits `n` units (+ OFF); silently dropped when the case used up its waits
    fn wait(&mut self, n: u64) {
        if *self.waits < MAX_WAITS {
            *self.waits += 1;
            self.evs.push(Ev::Wait(units(n) + OFF));
            self.what.push(format!("wait{n}"));
        }
    }
    fn pr(&mut self) {
        self.evs.push(Ev::Pr);
        self.what.push("PR".into());
    }
    fn few(&mut self, n: usize) {
        for _ in 0..n {
            let len = match self.rng.below(4) {
                0 => self.rng.below(21),
                1 => MAX_TRANSACTION_SIZE as u64 - self.rng.below(3),
                _ => self.rng.below(MAX_TRANSACTION_SIZE as u64 + 1),
            };
            self.tx(len as usize);
            if self.rng.chance(1, 4) {
                let n = self.rng.below(3);
                self.wait(n);
            }
        }
        self.what.push(format!("few{n}"));
    }
    /// `n` transactions of 0..=maxlen bytes back to back
    fn tiny_flood(&mut self, n: usize, maxlen: u64) {
        for _ in 0..n {
            let len = self.rng.below(maxlen + 1);
            self.tx(len as usize);
        }
        self.what.push(format!("tiny{n}x0..{maxlen}"));
    }
    fn max_flood(&mut self, n: usize) {
        for _ in 0..n {
            self.tx(MAX_TRANSACTION_SIZE);
        }
        self.what.push(format!("max{n}"));
    }
    /// oversize transactions (dropped by the producer) between ordinary ones
    fn oversize(&mut self, n: usize) {
        for _ in 0..n {
            if self.rng.chance(1, 2) {
                let n = self.rng.below(40) as usize;
                self.tx(n);
            }
            let len = match self.rng.below(4) {
                0 => MAX_TRANSACTION_SIZE + 1,
                1 => 1484,
                _ => self.rng.range(MAX_TRANSACTION_SIZE as u64 + 1, 1484) as usize,
            };
            self.tx(len);
            if self.rng.chance(1, 2) {
                let n = self.rng.below(MAX_TRANSACTION_SIZE as u64 + 1) as usize;
                self.tx(n);
            }
        }
        self.what.push(format!("oversize{n}"));
    }
    fn mixed(&mut self, n: usize) {
        for _ in 0..n {
            let len = match self.rng.below(10) {
                0 => self.rng.range(MAX_TRANSACTION_SIZE as u64 + 1, 1484) as usize,
                1 | 2 | 3 => MAX_TRANSACTION_SIZE - self.rng.below(2) as usize,
                4 => self.rng.below(MAX_TRANSACTION_SIZE as u64 + 1) as usize,
                _ => self.rng.below(21) as usize,
            };
            self.tx(len);
        }
        self.what.push(format!("mixed{n}"));
    }
    /// Transactions that bring the data of a *fresh* slice to exactly `target` bytes: tiny ones, then one of `last`
    /// bytes (accepted iff the slice budget is >= target + (512 - last)); `pr_at`: a ParentReady (followed by a short
    /// wait, so that it is applied to this very slice) after that many of the tiny ones.
    fn fill(&mut self, target: usize, last: usize, pr_at: Option<usize>) {
        // data = 8 (count) + sum (8 + len)
        let mut left = target - 8 - (8 + last);
        let mut sizes = vec![];
        while left > 36 {
            let e = 8 + self.rng.below(21) as usize;
            sizes.push(e - 8);
            left -= e;
        }
        if left > 28 {
            sizes.push(0);
            left -= 8;
        }
        if left >= 8 {
            sizes.push(left - 8);
            left = 0;
        }
        assert_eq!(left, 0, "fill arithmetic");
        for (i, len) in sizes.iter().enumerate() {
            if pr_at == Some(i) {
                self.pr();
                self.wait(0);
            }
            self.tx(*len);
        }
        self.tx(last);
        self.what.push(format!("fill{target}/{last}"));
    }
}

fn plan_desc(c: &CasePlan) -> String {
    let mut s = format!(
        "window {} first_off {} deltas {}s/{}s{}{}",
        c.window,
        c.first_off,
        c.delta_block.as_secs(),
        c.delta_first.as_secs(),
        if c.yield_on_boundary { "" } else { " racy" },
        if c.fail_per_64 > 0 { format!(" send-failures {}/64", c.fail_per_64) } else { String::new() }
    );
    for (i, b) in c.blocks.iter().enumerate() {
        let ntx = b.script.iter().filter(|e| matches!(e, Ev::Tx(_))).count();
        s += &format!(" | block{} {:?} script[{} txs: {}]", i, b.mode, ntx, b.what);
    }
    s
}

// ---------------------------------------------------------------------------------------------------------
// running a case
// ---------------------------------------------------------------------------------------------------------

#[derive(Debug)]
enum Outcome {
    Done(BlockId),
    Failed(String),
    Panicked(String),
    Stalled,
}

struct World {
    rec: Recorder,
    keys: Keys,
    pk: PublicKey,
    class: u64,
    shredder: RegularShredder,
    /// block hashes of the current case, interned in order of first appearance (1-based)
    hashes: Vec<Vec<u8>>,
}

fn intern(tab: &mut Vec<Vec<u8>>, b: Vec<u8>) -> usize {
    if b == hbytes(&GENESIS_BLOCK_HASH) {
        return 0; // the model's id of GENESIS_BLOCK_HASH
    }
    match tab.iter().position(|x| *x == b) {
        Some(i) => i + 1,
        None => {
            tab.push(b);
            tab.len()
        }
    }
}
fn hbytes(h: &BlockHash) -> Vec<u8> {
    wincode::serialize(h).expect("hash bytes")
}

/// The op lines of the Lean model (`lean/Driver/BlockProducer.lean`) for one block, from what the ENVIRONMENT saw:
/// per slice the lengths of the transactions the socket handed out while it was produced, whether it went out while
/// a `receive()` was pending (= its deadline fired), and the ParentReady its `select!` received (a ParentReady sent
/// from inside the producer's poll is received by the first slice that goes pending afterwards).
fn model_ops(trace: &[T], pr: Option<(u64, usize)>, trailing: bool) -> Vec<String> {
    let mut segs: Vec<Vec<T>> = vec![vec![]];
    for t in trace {
        if let T::Out(_) = t {
            segs.push(vec![]);
        } else {
            segs.last_mut().expect("segment").push(t.clone());
        }
    }
    let last = segs.pop().expect("segment");
    if trailing {
        segs.push(last);
    }
    let mut carried = false;
    let mut out = vec![];
    for (j, seg) in segs.iter().enumerate() {
        let mut got_pr = carried;
        carried = false;
        if let Some(p) = seg.iter().position(|t| *t == T::PrNow) {
            let _ = p;
            got_pr = true;
        }
        if let Some(p) = seg.iter().position(|t| *t == T::Pr) {
            if seg[p..].contains(&T::Pend) {
                got_pr = true;
            } else {
                carried = true;
            }
        }
        let dl = matches!(seg.iter().rev().find(|t| matches!(t, T::Tx(_) | T::Pend)), Some(T::Pend));
        let lens: Vec<String> = seg.iter().filter_map(|t| if let T::Tx(n) = t { Some(n.to_string()) } else { None }).collect();
        let prs = match (got_pr, pr) {
            (true, Some((s, h))) => format!("{s} {h}"),
            _ => "-".into(),
        };
        out.push(format!("slice {j} dl {} zl 0 pr {prs} rx {}", dl as u8, lens.join(" ")));
    }
    out
}

struct SliceView {
    slice: Option<Slice>,
    enc_len: usize,
}

fn drain(rx: &mut mpsc::Receiver<BlockstoreEvent>) -> Vec<(String, u64, Option<BlockHash>)> {
    let mut v = vec![];
    while let Ok(e) = rx.try_recv() {
        v.push(match e {
            BlockstoreEvent::FirstShred(s) => ("first".to_string(), s.inner(), None),
            BlockstoreEvent::InvalidBlock(s) => ("invalid".to_string(), s.inner(), None),
            BlockstoreEvent::Block { slot, block_info } => ("block".to_string(), slot.inner(), Some(block_info.verif_hash().clone())),
        });
    }
    v
}
fn evs_str(v: &[(String, u64, Option<BlockHash>)]) -> String {
    v.iter().map(|(k, s, h)| format!("{k}({s}{})", h.as_ref().map(|h| format!(",{}", short(h))).unwrap_or_default())).collect::<Vec<_>>().join(" ")
}

fn run_case(w: &mut World, rng: &mut Rng, c: &CasePlan) {
    w.rec.begin_case(&c.tag);
    w.hashes.clear();
    let desc = plan_desc(c);
    w.rec.step(&format!("plan {desc}"), "ok");
    let rt = tokio::runtime::Builder::new_current_thread().enable_time().start_paused(true).build().expect("runtime");
    let sh: Sh = Arc::new(Mutex::new(Shared {
        script: VecDeque::new(),
        wait_until: None,
        delivered: vec![],
        pr: None,
        pr_after_slice: None,
        pr_fired: None,
        boundary: false,
        yield_on_boundary: c.yield_on_boundary,
        sent: vec![],
        fail_per_64: c.fail_per_64,
        fail_salt: rng.next(),
        trace: vec![],
    }));
    let epoch = make_epoch(&w.keys, &[1, 1, 1, 1, 1, 1], 0);
    let (ltx, mut lrx) = mpsc::channel(1 << 16);
    let leader_store: Arc<RwLock<BlockstoreImpl>> = Arc::new(RwLock::new(BlockstoreImpl::new(ltx)));
    let shared_store: SharedBlockstore = leader_store.clone();
    let (pool, _pool_ev, _pool_rep) = new_pool(&epoch);
    let pool: SharedPool = Arc::new(RwLock::new(pool));
    let producer = VerifBlockProducer::new(
        w.keys.sks[0].clone(),
        epoch.clone(),
        Arc::new(RecDiss(sh.clone())),
        ScriptNet(sh.clone()),
        shared_store,
        pool,
        c.delta_block,
        c.delta_first,
    );
    let (ftx, mut frx) = mpsc::channel(1 << 16);
    let mut follower = BlockstoreImpl::new(ftx);

    let first_slot = c.window * 4 + c.first_off;
    let mut prev: Option<BlockId> = None;
    let mut class = fnv(0, &c.tag);
    for (bi, b) in c.blocks.iter().enumerate() {
        let slot = first_slot + bi as u64;
        let slot_t = Slot::new(slot);
        // the parent handed to the producer, the ParentReady (if any), the finally announced parent
        let (given, pr, when): (BlockId, Option<BlockId>, Option<PrWhen>) = match &b.mode {
            Mode::Ready(Some(back)) => ((Slot::new(slot - back), rand_hash(rng)), None, None),
            Mode::Ready(None) => (prev.clone().expect("Ready(None) follows a produced block"), None, None),
            Mode::NotReady(when, what) => {
                let opt = prev.clone().unwrap_or_else(|| (Slot::new(slot - 1), rand_hash(rng)));
                let pr = match what {
                    PrWhat::Same => opt.clone(),
                    PrWhat::Earlier(back) => (Slot::new(slot - back), rand_hash(rng)),
                    PrWhat::Sibling => (Slot::new(slot - 1), rand_hash(rng)),
                };
                (opt, Some(pr), Some(when.clone()))
            }
        };
        let expected_parent = pr.clone().unwrap_or_else(|| given.clone());
        let gid = intern(&mut w.hashes, hbytes(&given.1));
        let prid = pr.as_ref().map(|p| (p.0.inner(), intern(&mut w.hashes, hbytes(&p.1))));
        let begin_op = format!(
            "begin {} {slot} {} {gid} {} {}",
            if pr.is_some() { "notready" } else { "ready" },
            given.0.inner(),
            (c.delta_block == c.delta_first) as u8,
            w.hashes.len()
        );
        let (sent_from, delivered_from) = {
            let mut st = lock(&sh);
            st.script.extend(b.script.iter().cloned());
            st.pr_fired = None;
            st.pr_after_slice = None;
            st.trace.clear();
            st.boundary = true; // the first receive() of a block yields once, like the first one of a later slice
            (st.sent.len(), st.delivered.len())
        };
        let mut rx_opt = None;
        let mut timer = None;
        if let (Some(pr), Some(when)) = (&pr, &when) {
            let (tx, rx) = oneshot::channel();
            rx_opt = Some(rx);
            let mut st = lock(&sh);
            st.pr = Some((tx, pr.clone()));
            match when {
                PrWhen::Before => fire_pr_t(&mut st, "before production".into(), T::PrNow),
                PrWhen::Script => {}
                PrWhen::AfterSlice(k) => st.pr_after_slice = Some((slot, *k)),
                PrWhen::AtTime(d) => timer = Some(*d),
            }
        }
        // watchdog (virtual time): nothing in a plan takes longer than all slices timing out, twice
        let watchdog = c.delta_block * (2 * MAX_SLICES as u32) + units(100_000);
        let res = catch(|| {
            rt.block_on(async {
                let produce = async {
                    match rx_opt {
                        Some(rx) => producer.produce_block_parent_not_ready(slot_t, given.clone(), rx).await,
                        None => producer.produce_block_parent_ready(slot_t, given.clone()).await,
                    }
                };
                let sh2 = sh.clone();
                let pr_timer = async move {
                    if let Some(d) = timer {
                        tokio::time::sleep(d).await;
                        fire_pr_t(&mut lock(&sh2), format!("timer at {} s", d.as_secs_f64()), T::PrNow);
                    }
                };
                tokio::time::timeout(watchdog, async { tokio::join!(produce, pr_timer).0 }).await
            })
        });
        let outcome = match res {
            Ok(Ok(Ok(id))) => Outcome::Done(id),
            Ok(Ok(Err(e))) => Outcome::Failed(format!("{e:#}")),
            Ok(Err(_)) => Outcome::Stalled,
            Err(p) => Outcome::Panicked(p),
        };
        let (sent, delivered, pr_fired, trace) = {
            let st = lock(&sh);
            (st.sent[sent_from..].to_vec(), st.delivered[delivered_from..].to_vec(), st.pr_fired.clone(), st.trace.clone())
        };
        let lev = drain(&mut lrx);
        let ctx = format!("block{bi} slot {slot} given {} pr {} fired [{}] | {desc}", bid(&given), pr.as_ref().map(bid).unwrap_or("-".into()), pr_fired.clone().unwrap_or("-".into()));
        let (r, slice_lines, block_line) = judge(w, rng, &rt, &ctx, slot, &outcome, &sent, &delivered, &expected_parent, &leader_store, &lev, &mut follower, &mut frx);
        w.rec.step(&format!("judged block {bi} slot {slot}: {r}"), "ok");
        // the model's turn: same inputs (as the environment saw them), one line per slice, one per block
        if c.yield_on_boundary {
            let done = matches!(outcome, Outcome::Done(_));
            let ops = model_ops(&trace, prid, !done);
            w.rec.step(&begin_op, "ok");
            for (j, op) in ops.iter().enumerate() {
                let imp = slice_lines.get(j).cloned().unwrap_or_else(|| {
                    format!("none {}", match outcome {
                        Outcome::Panicked(_) | Outcome::Failed(_) => "panic",
                        _ => "blocked",
                    })
                });
                w.rec.step(op, &imp);
            }
            w.rec.step("end", &block_line);
            w.rec.count("blocks-replayed-on-model");
        }
        class = fnv(class, &r);
        match outcome {
            Outcome::Done(id) => prev = Some(id),
            _ => break, // the production task is dead
        }
    }
    w.class = class;
    w.rec.end_case(class, true);
}

/// All oracles of one produced block. Returns a one-line summary (for the behaviour class / impl stream).
#[allow(clippy::too_many_arguments)]
fn judge(
    w: &mut World,
    rng: &mut Rng,
    rt: &tokio::runtime::Runtime,
    ctx: &str,
    slot: u64,
    outcome: &Outcome,
    sent: &[(Shred, bool)],
    delivered: &[Vec<u8>],
    expected_parent: &BlockId,
    leader_store: &Arc<RwLock<BlockstoreImpl>>,
    leader_events: &[(String, u64, Option<BlockHash>)],
    follower: &mut BlockstoreImpl,
    frx: &mut mpsc::Receiver<BlockstoreEvent>,
) -> (String, Vec<String>, String) {
    let rec = &mut w.rec;
    // --- the leader itself
    let done = match outcome {
        Outcome::Done(id) => Some(id.clone()),
        _ => None,
    };
    rec.oracle(!matches!(outcome, Outcome::Panicked(_) | Outcome::Failed(_)) && done.as_ref().is_none_or(|id| id.0.inner() == slot), "bp-leader-panics", || {
        format!("block production ended with {outcome:?} | {ctx}")
    });
    rec.oracle(!matches!(outcome, Outcome::Stalled), "bp-leader-stalls", || format!("block production did not finish although ParentReady was sent and every timer ran out | {ctx}"));
    let shred_failure = match outcome {
        Outcome::Panicked(m) | Outcome::Failed(m) => m.contains("shredding") || m.contains("too much data"),
        _ => false,
    };
    rec.oracle(!shred_failure, "bp-slice-fits", || format!("a slice built by the producer did not shred: {outcome:?} | {ctx}"));
    rec.count(match outcome {
        Outcome::Done(_) => "outcome:done",
        Outcome::Failed(_) => "outcome:error",
        Outcome::Panicked(_) => "outcome:panic",
        Outcome::Stalled => "outcome:stalled",
    });

    // --- what went to the disseminator: 64 shreds per slice, slices 0..n
    let mut by_slice: BTreeMap<usize, Vec<(usize, Shred, bool)>> = BTreeMap::new();
    let mut structural: Vec<String> = vec![];
    for (s, ok) in sent {
        let (sl, slice, idx) = shred_position(s);
        if sl.inner() != slot {
            structural.push(format!("shred of slot {} sent while producing slot {slot}", sl.inner()));
            continue;
        }
        by_slice.entry(slice).or_default().push((idx, s.clone(), *ok));
    }
    let nslices = by_slice.len();
    for (k, (slice, v)) in by_slice.iter().enumerate() {
        if *slice != k {
            structural.push(format!("slice indices not contiguous: {:?}", by_slice.keys().collect::<Vec<_>>()));
            break;
        }
        let mut idxs: Vec<usize> = v.iter().map(|x| x.0).collect();
        idxs.sort();
        if idxs != (0..TOTAL_SHREDS).collect::<Vec<_>>() {
            structural.push(format!("slice {slice}: shred indices sent {idxs:?}"));
        }
    }

    // --- the follower's choice: >= 32 shreds of every slice, some order
    let mut chosen: Vec<Vec<Shred>> = vec![];
    for v in by_slice.values() {
        let avail: Vec<&(usize, Shred, bool)> = v.iter().filter(|x| x.2).collect();
        let mut pick: Vec<Shred> = match rng.below(if nslices > 40 { 2 } else { 6 }) {
            0 => {
                let mut a: Vec<Shred> = avail.iter().map(|x| x.1.clone()).collect();
                rng.shuffle(&mut a);
                a.truncate(DATA_SHREDS);
                a
            }
            1 => {
                // coding shreds first, as few data shreds as necessary
                let mut a: Vec<&(usize, Shred, bool)> = avail.clone();
                a.sort_by_key(|x| std::cmp::Reverse(x.0));
                a.iter().take(DATA_SHREDS).map(|x| x.1.clone()).collect()
            }
            2 => avail.iter().take(DATA_SHREDS).map(|x| x.1.clone()).collect(),
            3 => avail.iter().map(|x| x.1.clone()).collect(),
            _ => {
                let mut a: Vec<Shred> = avail.iter().map(|x| x.1.clone()).collect();
                rng.shuffle(&mut a);
                let n = rng.range(DATA_SHREDS as u64, a.len().max(DATA_SHREDS) as u64) as usize;
                a.truncate(n);
                a
            }
        };
        rng.shuffle(&mut pick);
        chosen.push(pick);
    }
    let mut feed: Vec<Shred> = vec![];
    match rng.below(4) {
        0 => feed = chosen.iter().flatten().cloned().collect(),
        1 => feed = chosen.iter().rev().flatten().cloned().collect(),
        2 => {
            feed = chosen.iter().flatten().cloned().collect();
            if feed.len() <= 64 * 64 {
                rng.shuffle(&mut feed);
            } else {
                // big block: shuffle the slices, keep each together (a global shuffle makes the store hold all partial slices)
                let mut order: Vec<usize> = (0..chosen.len()).collect();
                rng.shuffle(&mut order);
                feed = order.iter().flat_map(|i| chosen[*i].iter().cloned()).collect();
            }
        }
        _ => {
            let m = chosen.iter().map(|c| c.len()).max().unwrap_or(0);
            for j in 0..m {
                for c in &chosen {
                    if let Some(s) = c.get(j) {
                        feed.push(s.clone());
                    }
                }
            }
        }
    }
    let mut refused: Vec<String> = vec![];
    let mut returned: Vec<(BlockHash, BlockId)> = vec![];
    let mut validated: BTreeMap<usize, Vec<ValidatedShred>> = BTreeMap::new();
    let mut follower_panic = None;
    for s in feed {
        let (_, slice, idx) = shred_position(&s);
        let cached = follower.cached_commitment(Slot::new(slot), slice_index(slice));
        let v = match ValidatedShred::try_new(s, cached.as_ref(), &w.pk) {
            Ok(v) => v,
            Err(e) => {
                refused.push(format!("shred ({slice},{idx}) refused by try_new: {e:?}"));
                continue;
            }
        };
        validated.entry(slice).or_default().push(v.clone());
        match catch(|| rt.block_on(follower.add_shred_from_dissemination(v))) {
            Ok(Ok(Some(info))) => returned.push((info.verif_hash().clone(), info.verif_parent().clone())),
            Ok(Ok(None)) | Ok(Err(AddShredError::Duplicate)) => {}
            Ok(Err(e)) => refused.push(format!("shred ({slice},{idx}) refused by the blockstore: {e:?}")),
            Err(p) => {
                follower_panic = Some(p);
                break;
            }
        }
    }
    let fev = drain(frx);

    // --- the slices as any receiver decodes them
    let mut views: Vec<SliceView> = vec![];
    for k in 0..nslices {
        let mut arr: [Option<ValidatedShred>; TOTAL_SHREDS] = std::array::from_fn(|_| None);
        for v in validated.get(&k).map(|v| v.as_slice()).unwrap_or(&[]) {
            let (_, _, idx) = shred_position(v.as_shred());
            arr[idx] = Some(v.clone());
        }
        match catch(|| w.shredder.deshred(&mut arr)) {
            Ok(Ok(rs)) => {
                let s: Slice = (*rs).clone();
                let enc = (if s.parent.is_some() { PARENT_SOME } else { PARENT_NONE }) + 8 + s.data.len();
                views.push(SliceView { slice: Some(s), enc_len: enc });
            }
            other => {
                structural.push(format!("slice {k} does not deshred from the chosen shreds: {:?}", other.map(|r| r.map(|_| ()))));
                views.push(SliceView { slice: None, enc_len: 0 });
            }
        }
    }
    let all_decoded = views.iter().all(|v| v.slice.is_some());
    rec.oracle(views.iter().all(|v| v.enc_len <= MAX_DATA_PER_SLICE), "bp-slice-fits", || {
        format!("slice payload sizes {:?} exceed {MAX_DATA_PER_SLICE} | {ctx}", views.iter().map(|v| v.enc_len).collect::<Vec<_>>())
    });

    // --- parent announcements
    let parents: Vec<(usize, BlockId)> = views.iter().enumerate().filter_map(|(k, v)| v.slice.as_ref().and_then(|s| s.parent.clone()).map(|p| (k, p))).collect();
    let announced = parents.last().map(|x| x.1.clone());
    if all_decoded && nslices > 0 {
        let first_ok = parents.first().is_some_and(|x| x.0 == 0);
        let later: Vec<&(usize, BlockId)> = parents.iter().filter(|x| x.0 > 0).collect();
        let wf = first_ok && later.len() <= 1 && later.iter().all(|x| x.1 != parents[0].1);
        rec.oracle(wf, "bp-parent-switch-wellformed", || {
            format!("slices carrying a parent: {:?} (first must, at most one later may, never the same again) | {ctx}", parents.iter().map(|(k, p)| format!("{k}:{}", bid(p))).collect::<Vec<_>>())
        });
        let flags: Vec<bool> = views.iter().map(|v| v.slice.as_ref().is_some_and(|s| s.is_last)).collect();
        let last_ok = flags.iter().enumerate().all(|(k, f)| !*f || k + 1 == nslices) && (done.is_none() || flags.last() == Some(&true));
        rec.oracle(last_ok, "bp-parent-switch-wellformed", || format!("last-slice flags {flags:?} of a block that was {} | {ctx}", if done.is_some() { "completed" } else { "not completed" }));
    }

    // --- transactions
    let expected: Vec<&Vec<u8>> = delivered.iter().filter(|t| t.len() <= MAX_TRANSACTION_SIZE).collect();
    let had_oversize = expected.len() != delivered.len();
    let tx_key = if had_oversize { "bp-oversize-tx-dropped-cleanly" } else { "bp-txs-in-order" };
    if had_oversize {
        rec.count("blocks-with-oversize-tx");
    }
    let mut got: Vec<Vec<u8>> = vec![];
    let mut undecodable = vec![];
    let mut per_slice_txs = vec![];
    let mut ids_hash: Vec<u64> = vec![];
    let mut cursor = 0usize;
    for (k, v) in views.iter().enumerate() {
        ids_hash.push(0);
        if let Some(s) = &v.slice {
            let cfg = wincode::config::DefaultConfig::default().with_preallocation_size_limit::<{ 64 << 20 }>();
            let r: Result<Vec<Transaction>, _> = wincode::config::deserialize_exact(&s.data, cfg);
            match r {
                Ok(txs) => {
                    let mut h = 7u64;
                    for t in &txs {
                        while cursor < delivered.len() && delivered[cursor] != t.0 {
                            cursor += 1;
                        }
                        let id = if cursor < delivered.len() { cursor as u64 } else { 999_999 };
                        cursor = (cursor + 1).min(delivered.len());
                        h = (h * 31 + id + 1) % 1_000_000_007;
                    }
                    ids_hash[k] = h;
                    per_slice_txs.push(txs.len());
                    got.extend(txs.into_iter().map(|t| t.0));
                }
                Err(e) => undecodable.push(format!("slice {k}: {e:?} (count prefix {}, {} data bytes)", u64::from_le_bytes(s.data[..8.min(s.data.len())].try_into().unwrap_or([0xff; 8])), s.data.len())),
            }
        }
    }
    if all_decoded {
        rec.oracle(undecodable.is_empty(), tx_key, || format!("transaction data of a correct leader's slice does not decode: {undecodable:?} | {ctx}"));
        if undecodable.is_empty() {
            let same = if done.is_some() { got.len() == expected.len() } else { got.len() <= expected.len() } && got.iter().zip(expected.iter()).all(|(a, b)| a == *b);
            rec.oracle(same, tx_key, || {
                let at = got.iter().zip(expected.iter()).position(|(a, b)| a != *b);
                format!("block carries {} transactions, {} acceptable ones were handed over ({} with the oversize ones); first difference at {at:?} | {ctx}", got.len(), expected.len(), delivered.len())
            });
        }
    }
    if per_slice_txs.iter().any(|n| *n > 1365) {
        rec.count("slices-with>1365-txs");
    }
    if views.iter().any(|v| v.enc_len + 40 > MAX_DATA_PER_SLICE) {
        rec.count("slices-within-40B-of-limit");
    }

    // --- the follower's verdict
    let invalid = fev.iter().any(|e| e.0 == "invalid");
    rec.oracle(follower_panic.is_none(), "bp-follower-reconstructs", || format!("follower blockstore panicked: {follower_panic:?} | {ctx}"));
    rec.oracle(!invalid && refused.is_empty() && structural.is_empty(), "bp-follower-reconstructs", || {
        format!("a correct leader's shreds are refused / its block is flagged: events [{}] refused {:?} malformed {:?} | {ctx}", evs_str(&fev), &refused[..refused.len().min(3)], &structural[..structural.len().min(3)])
    });
    let mut summary = format!("{} slices {nslices} parents {:?} txs {}", match outcome {
        Outcome::Done(_) => "done",
        Outcome::Failed(_) => "error",
        Outcome::Panicked(_) => "panic",
        Outcome::Stalled => "stalled",
    }, parents.iter().map(|x| x.0).collect::<Vec<_>>(), got.len());
    if let Some(id) = &done {
        let want_events = vec![("first".to_string(), slot, None), ("block".to_string(), slot, Some(id.1.clone()))];
        let f_ok = returned.len() == 1 && returned[0].0 == id.1 && &returned[0].1 == expected_parent && fev == want_events;
        rec.oracle(f_ok, "bp-follower-reconstructs", || {
            format!(
                "follower fed >= 32 shreds of each of the {nslices} slices: returned {:?}, events [{}]; the leader produced {} with parent {} (announced {:?}) | {ctx}",
                returned.iter().map(|(h, p)| format!("{} parent {}", short(h), bid(p))).collect::<Vec<_>>(),
                evs_str(&fev),
                bid(id),
                bid(expected_parent),
                announced.as_ref().map(bid)
            )
        });
        let fb = follower.get_block(id).map(|b| (b.verif_parent(), b.verif_transactions().iter().map(|t| t.0.clone()).collect::<Vec<_>>()));
        let guard = leader_store.try_read().expect("leader store is free");
        let lb = guard.get_block(id).map(|b| (b.verif_parent(), b.verif_transactions().iter().map(|t| t.0.clone()).collect::<Vec<_>>()));
        let exp: Vec<Vec<u8>> = expected.iter().map(|t| (*t).clone()).collect();
        let same = match (&fb, &lb) {
            (Some(f), Some(l)) => f == l && &l.0 == expected_parent && l.1 == exp,
            _ => false,
        };
        rec.oracle(same, "bp-follower-reconstructs", || {
            let d = |x: &Option<(BlockId, Vec<Vec<u8>>)>| x.as_ref().map(|(p, t)| format!("parent {} {} txs", bid(p), t.len())).unwrap_or("no block".into());
            format!("block {}: follower holds [{}], leader stored [{}], expected parent {} and {} txs | {ctx}", bid(id), d(&fb), d(&lb), bid(expected_parent), exp.len())
        });
        let l_ok = leader_events == want_events.as_slice();
        rec.oracle(l_ok, "bp-follower-reconstructs", || format!("leader's own blockstore events [{}], expected first + block {} | {ctx}", evs_str(leader_events), bid(id)));
        summary += &format!(" follower {}", if f_ok && same { "same" } else { "DIFFERS" });
    } else {
        summary += &format!(" follower events [{}]", fev.iter().map(|e| e.0.clone()).collect::<Vec<_>>().join(","));
    }
    // --- canonical lines for the correspondence with the Lean model (AgModel.BlockProducer)
    let mut slice_lines = vec![];
    for (k, v) in views.iter().enumerate() {
        slice_lines.push(match &v.slice {
            Some(s) => {
                let par = s.parent.as_ref().map(|p| format!("{} {}", p.0.inner(), intern(&mut w.hashes, hbytes(&p.1)))).unwrap_or("-".into());
                let ntx = if s.data.len() >= 8 { u64::from_le_bytes(s.data[..8].try_into().expect("8 bytes")) } else { u64::MAX };
                format!("slice {k} last {} parent {par} ntx {ntx} data {} enc {} ids {}", s.is_last as u8, s.data.len(), v.enc_len, ids_hash[k])
            }
            None => format!("slice {k} undecodable"),
        });
    }
    let block_line = match &done {
        Some(id) => {
            let guard = leader_store.try_read().expect("leader store is free");
            let par = guard.get_block(id).map(|b| b.verif_parent()).map(|p| format!("{} {}", p.0.inner(), intern(&mut w.hashes, hbytes(&p.1)))).unwrap_or("? ?".into());
            format!("block done slices {nslices} parent {par} hash {} txs {}", intern(&mut w.hashes, hbytes(&id.1)), got.len())
        }
        None => format!("block {} slices {nslices}", match outcome {
            Outcome::Panicked(_) | Outcome::Failed(_) => "panic",
            _ => "blocked",
        }),
    };
    (summary, slice_lines, block_line)
}

// ---------------------------------------------------------------------------------------------------------
// generator
// ---------------------------------------------------------------------------------------------------------

const DB: Duration = Duration::from_secs(6400);
const FS: Duration = Duration::from_secs(160);

fn base(tag: &str, rng: &mut Rng) -> CasePlan {
    CasePlan { tag: tag.into(), window: rng.range(1, 200), first_off: 0, delta_block: DB, delta_first: FS, yield_on_boundary: true, fail_per_64: 0, blocks: vec![] }
}
fn block(mode: Mode, sb: Sb) -> BlockPlan {
    BlockPlan { mode, script: sb.evs, what: sb.what.join(",") }
}
macro_rules! sb {
    ($rng:expr, $waits:expr) => {
        Sb { rng: $rng, evs: vec![], waits: $waits, what: vec![] }
    };
}

fn pr_what(rng: &mut Rng, window: u64) -> PrWhat {
    match rng.below(3) {
        0 => PrWhat::Same,
        1 => PrWhat::Earlier(rng.range(2, (window * 4).min(9))),
        _ => PrWhat::Sibling,
    }
}

/// the data length that fills a slice to the byte when the producer reserves `reserve` bytes for the parent
fn full_data(reserve: usize) -> usize {
    MAX_DATA_PER_SLICE - reserve - 8
}

fn directed(rng: &mut Rng, thorough: bool) -> Vec<CasePlan> {
    let mut out = vec![];
    // 1. the timely handover: ParentReady for the very block we built on, at every point of the block
    for (i, when) in [
        PrWhen::Before,
        PrWhen::AtTime(units(3) + U / 2),
        PrWhen::AfterSlice(0),
        PrWhen::AfterSlice(2),
        PrWhen::AtTime(FS + DB + units(7) + U / 2),
        PrWhen::Script,
    ]
    .into_iter()
    .enumerate()
    {
        for what in [PrWhat::Same, PrWhat::Sibling, PrWhat::Earlier(2)] {
            let mut c = base(&format!("handover-{i}-{}", match what { PrWhat::Same => "same", PrWhat::Sibling => "sibling", _ => "earlier" }), rng);
            let mut waits = 0;
            let mut s = sb!(rng, &mut waits);
            s.few(3);
            if when == PrWhen::Script {
                s.wait(20); // first slice over
                s.few(2);
                s.pr();
                s.wait(1);
                s.few(2);
            }
            c.blocks.push(block(Mode::NotReady(when.clone(), what), s));
            // the rest of the window on top
            let s2 = sb!(rng, &mut waits);
            c.blocks.push(block(Mode::Ready(None), s2));
            out.push(c);
        }
    }
    // 2. a slice filled to the byte gets its parent assigned afterwards (budgets with and without the reserve)
    for (i, (reserve, slack, last)) in [(PARENT_NONE, 0, 512), (PARENT_NONE, 17, 512), (PARENT_NONE, 39, 500), (PARENT_SOME, 0, 512), (PARENT_SOME, 5, 495)].into_iter().enumerate() {
        for what in [PrWhat::Earlier(3), PrWhat::Sibling, PrWhat::Same] {
            let mut c = base(&format!("full-slice-then-parent-{i}"), rng);
            let mut waits = 0;
            let mut s = sb!(rng, &mut waits);
            s.few(2);
            s.wait(17); // first slice times out, slice 1 starts empty
            let at = s.rng.below(500) as usize;
            s.fill(full_data(reserve) - slack, last, Some(at));
            s.few(3);
            c.blocks.push(block(Mode::NotReady(PrWhen::Script, what), s));
            out.push(c);
        }
    }
    // ... and filled to the byte in the first slice / in a ready block
    for reserve in [PARENT_SOME, PARENT_NONE] {
        let mut c = base("full-first-slice", rng);
        let mut waits = 0;
        let mut s = sb!(rng, &mut waits);
        s.fill(full_data(reserve), 512, None);
        s.fill(full_data(reserve), 512, None);
        s.few(2);
        c.blocks.push(block(Mode::Ready(Some(1)), s));
        let mut s = sb!(rng, &mut waits);
        s.wait(700);
        s.fill(full_data(reserve), 512, Some(0));
        c.blocks.push(block(Mode::NotReady(PrWhen::Script, PrWhat::Earlier(2)), s));
        c.first_off = 3;
        out.push(c);
    }
    // 3. oversize transactions: alone, first, last, in a later slice, many
    for i in 0..4 {
        let mut c = base(&format!("oversize-{i}"), rng);
        let mut waits = 0;
        let mut s = sb!(rng, &mut waits);
        match i {
            0 => s.tx(MAX_TRANSACTION_SIZE + 1),
            1 => {
                s.oversize(1);
                s.few(4);
            }
            2 => {
                s.max_flood(70);
                s.oversize(3);
                s.max_flood(10);
            }
            _ => {
                s.few(2);
                s.wait(20);
                s.oversize(5);
            }
        }
        let mode = if i % 2 == 0 { Mode::Ready(Some(1)) } else { Mode::NotReady(PrWhen::AfterSlice(0), PrWhat::Same) };
        c.blocks.push(block(mode, s));
        out.push(c);
    }
    // 4. floods of tiny transactions: thousands per slice
    for (i, maxlen) in [0u64, 3, 8, 20].into_iter().enumerate() {
        let mut c = base(&format!("tiny-flood-{maxlen}"), rng);
        let mut waits = 0;
        let mut s = sb!(rng, &mut waits);
        let n = if thorough { 15_000 } else { 6_000 };
        s.tiny_flood(n, maxlen);
        let mode = if i % 2 == 0 { Mode::Ready(Some(2)) } else { Mode::NotReady(PrWhen::AfterSlice(0), PrWhat::Earlier(2)) };
        c.blocks.push(block(mode, s));
        out.push(c);
    }
    // 5. maximum-size transactions, several full slices; a whole window
    {
        let mut c = base("window-of-full-blocks", rng);
        let mut waits = 0;
        for k in 0..4 {
            let mut s = sb!(rng, &mut waits);
            s.max_flood(61 * 3 + 5);
            s.mixed(100);
            s.wait(700);
            c.blocks.push(block(if k == 0 { Mode::NotReady(PrWhen::AfterSlice(1), PrWhat::Same) } else { Mode::Ready(None) }, s));
        }
        out.push(c);
    }
    // 6. nothing at all: empty blocks; ParentReady only after the last possible slice
    {
        let mut c = base("empty-window", rng);
        let mut waits = 0;
        for k in 0..4 {
            let s = sb!(rng, &mut waits);
            c.blocks.push(block(if k == 0 { Mode::NotReady(PrWhen::AtTime(units(5) + U / 2), PrWhat::Sibling) } else { Mode::Ready(None) }, s));
        }
        out.push(c);
    }
    for what in if thorough { vec![PrWhat::Same, PrWhat::Earlier(2), PrWhat::Sibling] } else { vec![[PrWhat::Same, PrWhat::Earlier(2), PrWhat::Sibling][rng.below(3) as usize].clone()] } {
        let mut c = base("parent-ready-after-max-slice", rng);
        let mut waits = 0;
        let mut s = sb!(rng, &mut waits);
        s.few(2);
        c.blocks.push(block(Mode::NotReady(PrWhen::AtTime(FS + DB * MAX_SLICES as u32 + U / 2), what), s));
        out.push(c);
    }
    // 7. best-effort dissemination: failing sends must not stop production
    {
        let mut c = base("send-failures", rng);
        c.fail_per_64 = 20;
        let mut waits = 0;
        let mut s = sb!(rng, &mut waits);
        s.max_flood(100);
        s.few(3);
        c.blocks.push(block(Mode::NotReady(PrWhen::AfterSlice(0), PrWhat::Earlier(2)), s));
        let s = sb!(rng, &mut waits);
        c.blocks.push(block(Mode::Ready(None), s));
        out.push(c);
    }
    // 8. zero timers as in the crate's unit tests (racy by nature)
    for mode in [Mode::Ready(Some(1)), Mode::NotReady(PrWhen::AfterSlice(1), PrWhat::Earlier(2)), Mode::NotReady(PrWhen::Before, PrWhat::Same)] {
        let mut c = base("zero-timers", rng);
        c.delta_block = Duration::ZERO;
        c.delta_first = Duration::ZERO;
        c.yield_on_boundary = false;
        let mut waits = 0;
        let mut s = sb!(rng, &mut waits);
        s.mixed(30);
        c.blocks.push(block(mode, s));
        out.push(c);
    }
    out
}

fn random_case(rng: &mut Rng, thorough: bool) -> CasePlan {
    let mut c = base("random", rng);
    let mut waits = 0;
    let nblocks = *rng.pick(&[1usize, 1, 2, 4]);
    let first_ready = rng.chance(1, 3);
    if first_ready {
        c.first_off = rng.below(4);
    }
    let nblocks = nblocks.min(4 - c.first_off as usize);
    if rng.chance(1, 8) {
        c.fail_per_64 = rng.range(1, 30);
    }
    if thorough && rng.chance(1, 6) {
        c.yield_on_boundary = false;
    }
    if rng.chance(1, 10) {
        // equal timers
        c.delta_first = c.delta_block;
    }
    let window = c.window;
    for k in 0..nblocks {
        let mut s = sb!(rng, &mut waits);
        let in_script = s.rng.chance(1, 2);
        let mut pr_left = k == 0 && !first_ready && in_script;
        let nseg = if s.rng.chance(1, 8) { 0 } else { s.rng.range(1, 5) };
        for _ in 0..nseg {
            if pr_left && s.rng.chance(1, 3) {
                s.pr();
                if s.rng.chance(2, 3) {
                    s.wait(0);
                }
                pr_left = false;
            }
            let (a, b2, c2, d, e) = (s.rng.range(1, 6) as usize, s.rng.range(100, 5000) as usize, s.rng.range(1, 130) as usize, s.rng.range(1, 4) as usize, s.rng.range(10, 400) as usize);
            let ml = *s.rng.pick(&[0u64, 1, 8, 20]);
            let (w1, w2) = (s.rng.below(30), s.rng.range(600, 700));
            match s.rng.below(9) {
                0 => s.few(a),
                1 => s.tiny_flood(b2, ml),
                2 => s.max_flood(c2),
                3 => s.oversize(d),
                4 => s.mixed(e),
                5 => {
                    // a fresh slice (everything before timed out), filled to some byte near a limit
                    s.wait(700);
                    let reserve = *s.rng.pick(&[PARENT_NONE, PARENT_SOME]);
                    let slack = s.rng.below(48) as usize;
                    let last = MAX_TRANSACTION_SIZE - s.rng.below(30) as usize;
                    let at = if pr_left && s.rng.chance(1, 2) {
                        pr_left = false;
                        Some(s.rng.below(600) as usize)
                    } else {
                        None
                    };
                    s.fill(full_data(reserve) - slack, last, at);
                }
                6 => s.wait(w1),
                7 => s.wait(w2),
                _ => s.few(1),
            }
        }
        if pr_left {
            s.pr();
            let n = s.rng.below(3);
            s.wait(n);
        }
        if k + 1 < nblocks {
            s.wait(700);
        }
        let mode = if k > 0 {
            Mode::Ready(None)
        } else if first_ready {
            Mode::Ready(Some(s.rng.range(1, (window * 4).min(7))))
        } else {
            let when = if in_script {
                PrWhen::Script
            } else {
                match s.rng.below(5) {
                    0 => PrWhen::Before,
                    1 => PrWhen::AfterSlice(0),
                    2 => PrWhen::AfterSlice(s.rng.range(1, 4) as usize),
                    3 => PrWhen::AtTime(units(s.rng.below(16)) + U / 2),
                    _ => PrWhen::AtTime(FS + units(s.rng.below(2000)) + U / 2),
                }
            };
            Mode::NotReady(when, pr_what(s.rng, window))
        };
        c.blocks.push(block(mode, s));
    }
    c
}


// ---------------------------------------------------------------------------------------------------------
// window level: the REAL `block_production_loop` (hook `verif_block_production_loop`) for one leader window
// ---------------------------------------------------------------------------------------------------------

/// window-plan timing: block time 8 U, first slice 2 U (the detached 1 ms poller of `wait_for_first_slot` keeps the
/// paused clock advancing in 1 ms steps, so virtual time is kept short)
const WDB: Duration = Duration::from_secs(80);
const WFS: Duration = Duration::from_secs(20);
const WN: usize = 6;

#[derive(Clone, Debug)]
enum WFirst {
    /// the node does not lead window `w` (it leads window `w + 1`: the loop parks there)
    NotLeader,
    /// window 0
    Genesis,
    /// ParentReady(first, block `back` slots earlier) is in the pool before the loop starts
    PrAlready(u64),
    /// ... arrives while `wait_for_first_slot` waits
    PrFirst(u64),
    /// the block of the previous slot is reconstructed first (optimistic handover); the ParentReady follows this much later
    PrevFirst(PrWhat, Duration),
    /// a fast-finalization certificate for the second slot of the window arrives first
    FinalFirst,
}
#[derive(Clone, Debug)]
struct WindowPlan {
    tag: String,
    w: u64,
    first: WFirst,
    eq: bool,
    script: Vec<Ev>,
    what: String,
}

fn all_validators() -> Vec<usize> {
    (0..WN).collect()
}
fn vi(i: usize) -> ValidatorIndex {
    ValidatorIndex::new(i as u64)
}
fn notar_cert(keys: &Keys, epoch: &Arc<ValidatorEpochInfo>, id: &BlockId) -> ValidatedCert {
    let v: Vec<NotarVote> = all_validators().into_iter().map(|i| NotarVote::new(id.0, id.1.clone(), &keys.vsks[i], vi(i))).collect();
    ValidatedCert::try_new(Cert::Notar(NotarCert::new(&v, epoch.epoch_info().validators())), epoch.epoch_info()).expect("valid cert")
}
fn skip_cert(keys: &Keys, epoch: &Arc<ValidatorEpochInfo>, slot: u64) -> ValidatedCert {
    let v: Vec<SkipVote> = all_validators().into_iter().map(|i| SkipVote::new(Slot::new(slot), &keys.vsks[i], vi(i))).collect();
    let f: Vec<SkipFallbackVote> = vec![];
    ValidatedCert::try_new(Cert::Skip(SkipCert::new(&v, &f, epoch.epoch_info().validators())), epoch.epoch_info()).expect("valid cert")
}
fn ff_cert(keys: &Keys, epoch: &Arc<ValidatorEpochInfo>, id: &BlockId) -> ValidatedCert {
    let v: Vec<NotarVote> = all_validators().into_iter().map(|i| NotarVote::new(id.0, id.1.clone(), &keys.vsks[i], vi(i))).collect();
    ValidatedCert::try_new(Cert::FastFinal(FastFinalCert::new(&v, epoch.epoch_info().validators())), epoch.epoch_info()).expect("valid cert")
}
/// the certificates that make the pool emit ParentReady(first, parent)
fn pr_certs(keys: &Keys, epoch: &Arc<ValidatorEpochInfo>, first: u64, parent: &BlockId) -> Vec<ValidatedCert> {
    let mut v = vec![];
    for s in parent.0.inner() + 1..first {
        v.push(skip_cert(keys, epoch, s));
    }
    v.push(notar_cert(keys, epoch, parent));
    v
}

fn run_window_case(w: &mut World, rng: &mut Rng, p: &WindowPlan) {
    w.rec.begin_case(&p.tag);
    w.hashes.clear();
    let first = p.w * 4;
    let (db, fs) = if p.eq { (WFS, WFS) } else { (WDB, WFS) };
    let desc = format!("window plan: window {} (slots {}..{}) {:?} deltas {}s/{}s script[{}]", p.w, first, first + 3, p.first, db.as_secs(), fs.as_secs(), p.what);
    w.rec.step(&format!("plan {desc}"), "ok");
    let leads = !matches!(p.first, WFirst::NotLeader);
    let own = if leads { p.w as usize } else { p.w as usize + 1 };
    assert!(own < WN && (p.w as usize) < WN);
    let rt = tokio::runtime::Builder::new_current_thread().enable_time().start_paused(true).build().expect("runtime");
    let sh: Sh = Arc::new(Mutex::new(Shared {
        script: p.script.iter().cloned().collect(),
        wait_until: None,
        delivered: vec![],
        pr: None,
        pr_after_slice: None,
        pr_fired: None,
        boundary: true,
        yield_on_boundary: true,
        sent: vec![],
        fail_per_64: 0,
        fail_salt: rng.next(),
        trace: vec![],
    }));
    let epoch = make_epoch(&w.keys, &[1; WN], own);
    let (ltx, mut lrx) = mpsc::channel(1 << 16);
    let leader_store: Arc<RwLock<BlockstoreImpl>> = Arc::new(RwLock::new(BlockstoreImpl::new(ltx)));
    let shared_store: SharedBlockstore = leader_store.clone();
    let (pool, _pool_ev, _pool_rep) = new_pool(&epoch);
    let pool: Arc<RwLock<PoolImpl>> = Arc::new(RwLock::new(pool));
    let shared_pool: SharedPool = pool.clone();
    let producer = VerifBlockProducer::new(w.keys.sks[0].clone(), epoch.clone(), Arc::new(RecDiss(sh.clone())), ScriptNet(sh.clone()), shared_store, shared_pool, db, fs);
    let (ftx, mut frx) = mpsc::channel(1 << 16);
    let mut follower = BlockstoreImpl::new(ftx);

    // --- the environment of the plan
    let rand_parent = |rng: &mut Rng, back: u64| -> BlockId { (Slot::new(first - back), rand_hash(rng)) };
    // the block of the previous slot (another leader's: key 1), one empty slice
    let prev_shreds: Vec<ValidatedShred> = if let WFirst::PrevFirst(..) = p.first {
        let slice = Slice {
            slot: Slot::new(first - 1),
            slice_index: slice_index(0),
            is_last: true,
            parent: Some((Slot::new(first - 2), rand_hash(rng))),
            data: wincode::serialize(&Vec::<Transaction>::new()).expect("empty tx vector"),
        };
        let mut v = w.shredder.shred(&slice, &w.keys.sks[1]).expect("fits").to_vec();
        rng.shuffle(&mut v);
        v.truncate(DATA_SHREDS + rng.below(8) as usize);
        v
    } else {
        vec![]
    };
    // what `wait_for_first_slot` is made to see first (the model's input), the ParentReady parent, the certificates
    let mut al = "-".to_string();
    let mut pf = "-".to_string();
    let mut pv = "-".to_string();
    let mut fin = 0;
    let mut pr_parent: Option<BlockId> = None;
    match &p.first {
        WFirst::PrAlready(back) => {
            let par = rand_parent(rng, *back);
            al = format!("{} {}", par.0.inner(), intern(&mut w.hashes, hbytes(&par.1)));
            let certs = pr_certs(&w.keys, &epoch, first, &par);
            rt.block_on(async {
                for c in certs {
                    pool.write().await.add_cert(c).await.expect("certificate accepted");
                }
            });
            pr_parent = Some(par);
        }
        WFirst::PrFirst(back) => {
            let par = rand_parent(rng, *back);
            pf = format!("{} {}", par.0.inner(), intern(&mut w.hashes, hbytes(&par.1)));
            pr_parent = Some(par);
        }
        WFirst::FinalFirst => fin = 1,
        _ => {}
    }
    let keys = &w.keys;
    let cancel = producer.verif_cancel_token();
    let prev_hash: Arc<Mutex<Option<BlockHash>>> = Arc::new(Mutex::new(None));
    let pr_final: Arc<Mutex<Option<BlockId>>> = Arc::new(Mutex::new(pr_parent.clone()));
    let pr_rand = rand_hash(rng);
    let res = catch(|| {
        rt.block_on(async {
            let driver = async {
                // first poll: the loop is pending inside the first window this node leads - it ends after that window
                cancel.cancel();
                tokio::time::sleep(U / 2).await;
                match &p.first {
                    WFirst::PrFirst(_) => {
                        for c in pr_certs(keys, &epoch, first, pr_parent.as_ref().expect("parent")) {
                            pool.write().await.add_cert(c).await.expect("certificate accepted");
                        }
                    }
                    WFirst::FinalFirst => {
                        let c = ff_cert(keys, &epoch, &(Slot::new(first + 1), pr_rand.clone()));
                        pool.write().await.add_cert(c).await.expect("certificate accepted");
                    }
                    WFirst::PrevFirst(what, at) => {
                        let mut h = None;
                        for v in prev_shreds.iter().cloned() {
                            if let Ok(Some(info)) = leader_store.write().await.add_shred_from_dissemination(v).await {
                                h = Some(info.verif_hash().clone());
                            }
                        }
                        let h = h.expect("the block of the previous slot is reconstructed");
                        *prev_hash.lock().unwrap() = Some(h.clone());
                        let par: BlockId = match what {
                            PrWhat::Same => (Slot::new(first - 1), h),
                            PrWhat::Sibling => (Slot::new(first - 1), pr_rand.clone()),
                            PrWhat::Earlier(back) => (Slot::new(first - back), pr_rand.clone()),
                        };
                        *pr_final.lock().unwrap() = Some(par.clone());
                        let certs = pr_certs(keys, &epoch, first, &par);
                        tokio::time::sleep(*at).await;
                        lock(&sh).trace.push(T::PrNow);
                        for c in certs {
                            pool.write().await.add_cert(c).await.expect("certificate accepted");
                        }
                    }
                    _ => {}
                }
                if leads {
                    tokio::time::sleep((WDB + WFS) * 6).await;
                }
            };
            tokio::select! {
                biased;
                r = producer.verif_block_production_loop() => Some(r),
                () = driver => None,
            }
        })
    });
    let (loop_done, failure): (bool, Option<String>) = match &res {
        Ok(Some(Ok(()))) => (true, None),
        Ok(Some(Err(e))) => (false, Some(format!("error {e:#}"))),
        Ok(None) => (false, None),
        Err(pn) => (false, Some(format!("panic {pn}"))),
    };
    let (sent, delivered, trace) = {
        let st = lock(&sh);
        (st.sent.clone(), st.delivered.clone(), st.trace.clone())
    };
    let lev = drain(&mut lrx);
    let prev_hash = prev_hash.lock().unwrap().clone();
    let pr_final = pr_final.lock().unwrap().clone();
    if let Some(h) = &prev_hash {
        pv = intern(&mut w.hashes, hbytes(h)).to_string();
    }
    let prid = match (&p.first, &pr_final) {
        (WFirst::PrevFirst(..), Some(par)) => Some((par.0.inner(), intern(&mut w.hashes, hbytes(&par.1)))),
        _ => None,
    };
    w.rec.step(&format!("win {own} {WN} {} {} al {al} pf {pf} pv {pv} fin {fin}", p.w, p.eq as u8), "ok");

    // --- the blocks, in the order their first shred went out
    let mut slots: Vec<u64> = vec![];
    for (s, _) in &sent {
        let sl = shred_position(s).0.inner();
        if !slots.contains(&sl) {
            slots.push(sl);
        }
    }
    let nslices_of = |slot: u64| -> usize { sent.iter().filter(|(s, _)| shred_position(s).0.inner() == slot).map(|(s, _)| shred_position(s).1 + 1).max().unwrap_or(0) };
    let hash_of = |slot: u64| -> Option<BlockHash> { lev.iter().find(|e| e.0 == "block" && e.1 == slot).and_then(|e| e.2.clone()) };
    // the environment trace, cut into blocks
    let mut traces: Vec<Vec<T>> = vec![vec![]];
    {
        let mut bi = 0usize;
        let mut outs = 0usize;
        for t in &trace {
            traces.last_mut().expect("trace").push(t.clone());
            if let T::Out(_) = t {
                outs += 1;
                if bi < slots.len() && outs == nslices_of(slots[bi]) && hash_of(slots[bi]).is_some() {
                    bi += 1;
                    outs = 0;
                    traces.push(vec![]);
                }
            }
        }
    }
    let mut prev: BlockId = match &p.first {
        WFirst::Genesis => (Slot::new(0), GENESIS_BLOCK_HASH),
        WFirst::PrevFirst(..) => (Slot::new(first - 1), prev_hash.clone().unwrap_or(GENESIS_BLOCK_HASH)),
        _ => pr_final.clone().unwrap_or((Slot::new(0), GENESIS_BLOCK_HASH)),
    };
    let mut class = fnv(0, &p.tag);
    let mut produced: Vec<(u64, usize, BlockId)> = vec![];
    let mut chain_ok = true;
    let mut chain_msgs: Vec<String> = vec![];
    let mut cursor = 0usize;
    for (bi, slot) in slots.iter().enumerate() {
        let slot = *slot;
        let tr = traces.get(bi).cloned().unwrap_or_default();
        let ntx = tr.iter().filter(|t| matches!(t, T::Tx(_))).count();
        let del: Vec<Vec<u8>> = delivered[cursor.min(delivered.len())..(cursor + ntx).min(delivered.len())].to_vec();
        cursor += ntx;
        let my_sent: Vec<(Shred, bool)> = sent.iter().filter(|(s, _)| shred_position(s).0.inner() == slot).cloned().collect();
        let my_lev: Vec<(String, u64, Option<BlockHash>)> = lev.iter().filter(|e| e.1 == slot).cloned().collect();
        let outcome = match hash_of(slot) {
            Some(h) => Outcome::Done((Slot::new(slot), h)),
            None => match &failure {
                Some(f) if f.starts_with("panic") => Outcome::Panicked(f.clone()),
                Some(f) => Outcome::Failed(f.clone()),
                None => Outcome::Stalled,
            },
        };
        // the parent this block must end up with: first block - the ParentReady parent; later - the block just produced
        let optimistic = bi == 0 && matches!(p.first, WFirst::PrevFirst(..));
        let given = prev.clone();
        let expected_parent = if optimistic { pr_final.clone().unwrap_or(given.clone()) } else { given.clone() };
        let gid = intern(&mut w.hashes, hbytes(&given.1));
        let begin_op = format!("begin {} {slot} {} {gid} {} {}", if optimistic { "notready" } else { "ready" }, given.0.inner(), p.eq as u8, w.hashes.len());
        let ctx = format!("window block{bi} slot {slot} given {} expected parent {} | {desc}", bid(&given), bid(&expected_parent));
        let (r, slice_lines, block_line) = judge(w, rng, &rt, &ctx, slot, &outcome, &my_sent, &del, &expected_parent, &leader_store, &my_lev, &mut follower, &mut frx);
        w.rec.step(&format!("judged block {bi} slot {slot}: {r}"), "ok");
        let done = matches!(outcome, Outcome::Done(_));
        let ops = model_ops(&tr, if optimistic { prid } else { None }, !done);
        w.rec.step(&begin_op, "ok");
        for (j, op) in ops.iter().enumerate() {
            let imp = slice_lines.get(j).cloned().unwrap_or_else(|| format!("none {}", if failure.is_some() { "panic" } else { "blocked" }));
            w.rec.step(op, &imp);
        }
        w.rec.step("end", &block_line);
        w.rec.count("blocks-replayed-on-model");
        w.rec.count("window-blocks");
        class = fnv(class, &r);
        if let Outcome::Done(id) = &outcome {
            let stored = leader_store.try_read().expect("leader store is free").get_block(id).map(|b| b.verif_parent());
            let want_slot = if matches!(p.first, WFirst::Genesis) { 1 + bi as u64 } else { first + bi as u64 };
            if stored.as_ref() != Some(&expected_parent) || slot != want_slot {
                chain_ok = false;
                chain_msgs.push(format!("block {bi} is in slot {slot} (expected slot {want_slot}) with parent {} (expected {})", stored.as_ref().map(bid).unwrap_or("?".into()), bid(&expected_parent)));
            }
            let par = stored.unwrap_or(expected_parent.clone());
            produced.push((slot, intern(&mut w.hashes, hbytes(&id.1)), par));
            prev = id.clone();
        } else {
            break;
        }
    }
    // --- the window as a whole (independent of the model)
    let expect_blocks: Vec<u64> = match &p.first {
        WFirst::NotLeader | WFirst::FinalFirst => vec![],
        WFirst::Genesis => vec![1, 2, 3],
        _ => (first..first + 4).collect(),
    };
    let block_events: Vec<u64> = lev.iter().filter(|e| e.0 == "block" && e.1 >= first.max(1) && e.1 < first + 4).map(|e| e.1).collect();
    let window_ok = failure.is_none() && slots == expect_blocks && block_events == expect_blocks && chain_ok && (loop_done || !leads);
    w.rec.oracle(window_ok, "bp-window-chain", || {
        format!(
            "leader window: shreds went out for slots {slots:?}, completed blocks {block_events:?}, expected exactly one block for each of {expect_blocks:?} in order, the first on the ParentReady parent, every later one on the block before; loop {}; {chain_msgs:?} | {desc}",
            match (&failure, loop_done) {
                (Some(f), _) => f.clone(),
                (None, true) => "finished the window".into(),
                (None, false) => "still pending".into(),
            }
        )
    });
    let verdict = if !produced.is_empty() || !slots.is_empty() {
        if loop_done && produced.len() == slots.len() { "complete" } else { "stuck" }
    } else if !leads {
        "notleader"
    } else if loop_done {
        "skip"
    } else {
        "waiting"
    };
    let mut line = format!("window {verdict} {}", produced.len());
    for (s, h, par) in &produced {
        line += &format!(" {s} {h} {} {}", par.0.inner(), intern(&mut w.hashes, hbytes(&par.1)));
    }
    w.rec.step("wend", &line);
    w.rec.count(&format!("window:{verdict}"));
    w.rec.count("windows-replayed-on-model");
    class = fnv(class, &line.split(' ').take(3).collect::<Vec<_>>().join(" "));
    w.class = class;
    w.rec.end_case(class, true);
}

fn window_script(rng: &mut Rng, nblocks: usize, eq: bool) -> (Vec<Ev>, String) {
    let mut waits = 0usize;
    let mut s = sb!(rng, &mut waits);
    for _ in 0..nblocks {
        match s.rng.below(4) {
            0 => {}
            1 => s.tiny_flood(3, 20),
            2 => s.few(2),
            _ => s.max_flood(70),
        }
        // long enough to run every timer of the block out
        s.wait(if eq { 3 } else { 9 });
    }
    (s.evs, s.what.join(","))
}

fn window_plans(rng: &mut Rng, thorough: bool) -> Vec<WindowPlan> {
    let mut out = vec![];
    let rounds = if thorough { 12 } else { 1 };
    for round in 0..rounds {
        let mut firsts: Vec<(String, WFirst)> = vec![
            ("not-leader".into(), WFirst::NotLeader),
            ("genesis".into(), WFirst::Genesis),
            ("pr-already".into(), WFirst::PrAlready(rng.range(1, 3))),
            ("pr-first".into(), WFirst::PrFirst(rng.range(1, 3))),
            ("final-first".into(), WFirst::FinalFirst),
        ];
        for (i, what) in [PrWhat::Same, PrWhat::Sibling, PrWhat::Earlier(rng.range(2, 3))].into_iter().enumerate() {
            let at = match (i + round) % 3 {
                0 => units(0),
                1 => units(rng.range(1, 6)),
                _ => units(rng.range(9, 14)),
            };
            firsts.push((format!("prev-first-{what:?}"), WFirst::PrevFirst(what, at + U / 4)));
        }
        for (name, f) in firsts {
            let eq = rng.chance(1, 3);
            let w = if matches!(f, WFirst::Genesis) { 0 } else { rng.range(1, 4) };
            let (script, what) = window_script(rng, 5, eq);
            out.push(WindowPlan { tag: format!("window-{name}-{round}"), w, first: f, eq, script, what });
        }
    }
    out
}

fn main() {
    let args = Args::parse();
    quiet_panics();
    let mut rng = Rng::new(args.seed);
    let keys = Keys::new(&mut rng);
    let pk = keys.sks[0].to_pk();
    let mut w = World { rec: Recorder::new(), keys, pk, class: 0, shredder: RegularShredder::default(), hashes: vec![] };
    let t0 = std::time::Instant::now();
    let mut plans = directed(&mut rng, args.thorough);
    let n_random = if args.thorough { 2000 } else { 60 };
    for _ in 0..n_random {
        let mut r = rng.fork();
        plans.push(random_case(&mut r, args.thorough));
    }
    let mut slowest = (0.0f64, String::new());
    for p in &plans {
        let mut r = rng.fork();
        let t = std::time::Instant::now();
        run_case(&mut w, &mut r, p);
        let dt = t.elapsed().as_secs_f64();
        if dt > slowest.0 {
            slowest = (dt, p.tag.clone());
        }
    }
    for p in &window_plans(&mut rng.fork(), args.thorough) {
        let mut r = rng.fork();
        let t = std::time::Instant::now();
        run_window_case(&mut w, &mut r, p);
        let dt = t.elapsed().as_secs_f64();
        if dt > slowest.0 {
            slowest = (dt, p.tag.clone());
        }
    }
    let extra = serde_json::json!({ "wall_s": t0.elapsed().as_secs_f64(), "slowest_case": slowest.1, "slowest_case_s": slowest.0 });
    w.rec.finish(&args, extra);
}
