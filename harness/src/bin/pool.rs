//! Pool harness (C03, C04, C06, C18): drives the real `PoolImpl` with generated sequences of validly
//! signed votes, received certificates, block registrations and standstill recoveries; prints
//! canonical outputs for the Lean model (`Driver/C03.lean`) and evaluates the property oracles from
//! its own bookkeeping of accepted votes (independent recount).
//!
//! ops:  epoch OWN s0 s1 ...        | vote K SLOT HASH SIGNER | cert K SLOT HASH a,b,c d,e
//!       block SLOT HASH PSLOT PHASH | recover
//! out:  `<verdict> | ev ; ev ; ...` (events of the step, sorted)
use std::collections::{BTreeMap, BTreeSet, HashMap};
use std::sync::Arc;

use ag_harness::*;
use ag_harness::poolkit::*;
use alpenglow::consensus::{
    Cert, EpochInfo, FastFinalCert, FinalCert, NotarCert, NotarFallbackCert, Pool, PoolEvent, PoolImpl, SkipCert,
    ValidatedCert, ValidatedVote, ValidatorEpochInfo, Vote,
};
use alpenglow::crypto::merkle::{BlockHash, GENESIS_BLOCK_HASH};
use alpenglow::crypto::{Hash, aggsig, signature};
use alpenglow::network::localhost_ip_sockaddr;
use alpenglow::types::Slot;
use alpenglow::{BlockId, Stake, ValidatorIndex, ValidatorInfo};
use tokio::sync::mpsc;

/// the harness's own record of what the pool accepted in one slot
#[derive(Default, Clone)]
struct SlotBook {
    notar: BTreeMap<usize, usize>,
    nf: BTreeSet<(usize, usize)>,
    skip: BTreeSet<usize>,
    sf: BTreeSet<usize>,
    fin: BTreeSet<usize>,
    received: BTreeSet<(CK, usize)>,
    created: BTreeMap<(CK, usize), u32>,
    held: BTreeSet<(CK, usize)>,
    s2n: BTreeMap<usize, u32>,
    s2s: u32,
}

struct Sim {
    n: usize,
    own: usize,
    stakes: Vec<u64>,
    total: u64,
    epoch: Arc<ValidatorEpochInfo>,
    pool: PoolImpl,
    ev_rx: mpsc::Receiver<PoolEvent>,
    rep_rx: mpsc::Receiver<BlockId>,
    book: BTreeMap<u64, SlotBook>,
    blocks: BTreeMap<(u64, usize), (u64, usize)>,
    /// blocks for which the pool announced (created or admitted) a notar / notar-fallback / fast-final certificate
    certified_ever: BTreeSet<(u64, usize)>,
    vote_cache: HashMap<(K, u64, usize, usize), ValidatedVote>,
}

impl Sim {
    fn new(keys: &Keys, stakes: Vec<u64>, own: usize) -> Self {
        let epoch = make_epoch(keys, &stakes, own);
        let (pool, ev_rx, rep_rx) = new_pool(&epoch);
        Self { n: stakes.len(), own, total: stakes.iter().sum(), stakes, epoch, pool, ev_rx, rep_rx,
               book: BTreeMap::new(), blocks: BTreeMap::new(), certified_ever: BTreeSet::new(), vote_cache: HashMap::new() }
    }
    fn stake_of(&self, vs: impl Iterator<Item = usize>) -> u64 { vs.map(|v| self.stakes[v]).sum() }

    fn validated_vote(&mut self, keys: &Keys, k: K, slot: u64, h: usize, signer: usize) -> ValidatedVote {
        let key = (k, slot, if k.has_hash() { h } else { 0 }, signer);
        if let Some(v) = self.vote_cache.get(&key) { return v.clone(); }
        let v = ValidatedVote::try_new(raw_vote(keys, k, slot, h, signer), self.epoch.epoch_info()).expect("own-made vote validates");
        self.vote_cache.insert(key, v.clone());
        v
    }

    /// drains both channels; returns the votor events in channel order followed by the (sorted) repair requests
    fn drain(&mut self, keys: &Keys) -> (Vec<String>, Vec<PoolEvent>) {
        let mut out = Vec::new();
        let mut evs = Vec::new();
        while let Ok(ev) = self.ev_rx.try_recv() {
            out.push(fmt_event(keys, &ev));
            evs.push(ev);
        }
        let mut reps = Vec::new();
        while let Ok((s, h)) = self.rep_rx.try_recv() {
            reps.push(format!("repair {} {}", s.inner(), keys.hash_id[&h]));
        }
        reps.sort();
        out.extend(reps);
        (out, evs)
    }
}

struct Run<'a> {
    keys: &'a Keys,
    rec: Recorder,
    rt: tokio::runtime::Runtime,
    class: u64,
    focus: String,
    /// set when the real pool panicked: its state is poisoned, the case ends
    dead: bool,
    /// set when the history left the protocol's safety envelope (possible only with >= 20% Byzantine stake)
    safety_panic: bool,
    /// when set: the calls of the case (for the replay under back-pressure) ...
    log: Option<Vec<LoggedOp>>,
    /// ... and the Votor events they produced, in channel order
    evlog: Vec<String>,
}

/// one call into the pool, as it was made on the `Sim`
#[derive(Clone)]
enum LoggedOp {
    Vote(ValidatedVote),
    Cert(ValidatedCert),
    Block(BlockId, BlockId),
    Recover,
}

fn fmt_event(keys: &Keys, ev: &PoolEvent) -> String {
    match ev {
        PoolEvent::ParentReady { slot, parent } => format!("pr {} {} {}", slot.inner(), parent.0.inner(), keys.hash_id[&parent.1]),
        PoolEvent::SafeToNotar((s, h)) => format!("s2n {} {}", s.inner(), keys.hash_id[h]),
        PoolEvent::SafeToSkip(s) => format!("s2s {}", s.inner()),
        PoolEvent::CertCreated(c) => fmt_cert(keys, c),
        PoolEvent::Standstill(s, certs, votes) => {
            let mut cs: Vec<String> = certs.iter().map(|c| fmt_cert(keys, c)).collect();
            cs.sort();
            let mut vs: Vec<String> = votes.iter().map(|v| fmt_vote(keys, v)).collect();
            vs.sort();
            format!("standstill {} [{}] [{}]", s.inner(), cs.join(" / "), vs.join(" / "))
        }
    }
}

impl Run<'_> {
    /// what the *property* (C04) demands for a vote given the accepted votes of that validator
    fn expected_verdicts(sim: &Sim, k: K, slot: u64, h: usize, v: usize, fu: u64, fin: u64) -> Vec<String> {
        if slot < fu || slot >= fin + 2 * 18000 { return vec!["oob".into()]; }
        let empty = SlotBook::default();
        let b = sim.book.get(&slot).unwrap_or(&empty);
        let notar = b.notar.get(&v).copied();
        let has_nf_any = b.nf.iter().any(|(x, _)| *x == v);
        let has_nf_h = b.nf.contains(&(v, h));
        let (skip, sf, fin_) = (b.skip.contains(&v), b.sf.contains(&v), b.fin.contains(&v));
        let mut slash = Vec::new();
        match k {
            K::Notar => {
                if skip { slash.push("slash skipAndNotarize".to_string()); }
                if let Some(x) = notar && x != h { slash.push("slash notarDifferentHash".to_string()); }
                if !slash.is_empty() { return slash; }
                if notar == Some(h) || has_nf_h { vec!["dup".into()] } else { vec!["ok".into()] }
            }
            K::Nf => {
                if fin_ { return vec!["slash nfAndFinalize".into()]; }
                if has_nf_h || notar == Some(h) { vec!["dup".into()] } else { vec!["ok".into()] }
            }
            K::Skip => {
                if fin_ { slash.push("slash skipAndFinalize".to_string()); }
                if notar.is_some() { slash.push("slash skipAndNotarize".to_string()); }
                if !slash.is_empty() { return slash; }
                if skip || sf { vec!["dup".into()] } else { vec!["ok".into()] }
            }
            K::Sf => {
                if fin_ { return vec!["slash skipAndFinalize".into()]; }
                if skip || sf { vec!["dup".into()] } else { vec!["ok".into()] }
            }
            K::Final => {
                if skip || sf { slash.push("slash skipAndFinalize".to_string()); }
                if has_nf_any { slash.push("slash nfAndFinalize".to_string()); }
                if !slash.is_empty() { return slash; }
                if fin_ { vec!["dup".into()] } else { vec!["ok".into()] }
            }
        }
    }

    fn after_step(&mut self, sim: &mut Sim, op: &str, verdict: String, legit: bool) {
        let keys = self.keys;
        if verdict == "panic" {
            let _ = sim.drain(keys);
            self.rec.step(op, "panic | ");
            self.rec.count("verdict:panic");
            self.dead = true;
            return;
        }
        let (evs, raw) = sim.drain(keys);
        self.evlog.extend(evs[..raw.len()].iter().cloned());
        let out = format!("{} | {}", verdict, evs.join(" ; "));
        self.rec.step(op, &out);
        self.rec.count(&format!("verdict:{}", verdict.split(' ').next().unwrap_or("")));
        self.class = fnv(self.class, &verdict);
        for e in &evs { self.class = fnv(self.class, e.split(' ').next().unwrap_or("")); self.rec.count(&format!("event:{}", e.split(' ').next().unwrap_or(""))); }
        if legit {
            self.rec.oracle(verdict == "ok" || verdict == "oob", "legit-vote-refused", || format!("{op}: a vote of a legitimate per-validator combination got `{verdict}`"));
        }
        // ---- bookkeeping of events + per-event oracles (C03, C06)
        let fu = sim.pool.verif_first_unpruned_slot().inner();
        // certificates announced by this very step count as "announced" for the soundness oracle of the step's other
        // events: the pool announces a certificate *after* it woke the children waiting for it, and a fast-finalization
        // certificate may prune its own slot state within the step
        for ev in &raw {
            if let PoolEvent::CertCreated(c) = ev {
                let ck = cert_kind(c);
                if ck.has_hash() && ck != CK::Final {
                    let h = c.block_hash().map(|h| keys.hash_id[h]).unwrap_or(0);
                    sim.certified_ever.insert((c.slot().inner(), h));
                }
            }
        }
        for ev in &raw {
            match ev {
                PoolEvent::CertCreated(c) => {
                    let ck = cert_kind(c);
                    let slot = c.slot().inner();
                    let h = c.block_hash().map(|h| keys.hash_id[h]).unwrap_or(0);
                    let key = (ck, if ck.has_hash() { h } else { 0 });
                    let once_key = if ck == CK::Nf { key } else { (ck, 0) };
                    let b = sim.book.entry(slot).or_default();
                    *b.created.entry(once_key).or_default() += 1;
                    let cnt = b.created[&once_key];
                    b.held.insert(key);
                    let was_received = b.received.contains(&key);
                    if ck.has_hash() && ck != CK::Final { sim.certified_ever.insert((slot, h)); }
                    let fc = fmt_cert(keys, c);
                    self.rec.oracle(cnt <= 1, "cert-created-twice", || format!("{op}: {fc} announced {cnt} times for this slot/type"));
                    if !was_received {
                        // created from votes: valid for every receiver, signers = accepted votes, threshold met
                        let ok = ValidatedCert::try_new(c.clone(), sim.epoch.epoch_info());
                        self.rec.oracle(ok.is_ok(), "created-cert-invalid", || format!("{op}: locally created {fc} fails validation: {:?}", ok.as_ref().err()));
                        // ... and it reaches every receiver: what the node broadcasts are the wincode bytes of the message; the
                        // peer decodes them with `network::deserialize` and validates the result against the epoch
                        let wire = wincode::serialize(&alpenglow::consensus::ConsensusMessage::Cert(c.clone()));
                        let back = wire.as_ref().ok().map(|b| alpenglow::network::deserialize::<alpenglow::consensus::ConsensusMessage>(b));
                        let at_peer = match &back {
                            Some(Ok(alpenglow::consensus::ConsensusMessage::Cert(c2))) => {
                                if c2 != c { Err("decodes to a different certificate".to_string()) }
                                else { ValidatedCert::try_new(c2.clone(), sim.epoch.epoch_info()).map(|_| ()).map_err(|e| format!("the decoded certificate fails validation: {e:?}")) }
                            }
                            Some(Ok(_)) => Err("decodes to a vote".to_string()),
                            Some(Err(e)) => Err(format!("the receiver cannot decode it: {e:?}")),
                            None => Err(format!("cannot be serialized: {:?}", wire.as_ref().err())),
                        };
                        let nbytes = wire.as_ref().map(|b| b.len()).unwrap_or(0);
                        self.rec.oracle(at_peer.is_ok() && nbytes <= alpenglow::network::MTU_BYTES, "created-cert-wire", || format!("{op}: locally created {fc} (epoch of {} validators, {nbytes} bytes on the wire) is not accepted by a peer: {}", sim.n, at_peer.as_ref().err().cloned().unwrap_or_else(|| "larger than one datagram".into())));
                        if sim.n > 64 { self.rec.count(if sim.n > 128 { "created-cert-wire:n>128" } else { "created-cert-wire:n>64" }); }
                        let (a, bb) = c.verif_signer_halves();
                        let a: BTreeSet<usize> = a.iter().map(|v| v.as_usize()).collect();
                        let bb: BTreeSet<usize> = bb.iter().map(|v| v.as_usize()).collect();
                        let b = &sim.book[&slot];
                        let (ea, eb): (BTreeSet<usize>, BTreeSet<usize>) = match ck {
                            CK::Notar | CK::Ff => (b.notar.iter().filter(|(_, x)| **x == h).map(|(v, _)| *v).collect(), BTreeSet::new()),
                            CK::Nf => (b.notar.iter().filter(|(_, x)| **x == h).map(|(v, _)| *v).collect(), b.nf.iter().filter(|(_, x)| *x == h).map(|(v, _)| *v).collect()),
                            CK::Skip => (b.skip.clone(), b.sf.clone()),
                            CK::Final => (b.fin.clone(), BTreeSet::new()),
                        };
                        self.rec.oracle(a == ea && bb == eb, "created-cert-signers", || format!("{op}: {fc} signers differ from accepted votes {ea:?} / {eb:?}"));
                        let st = sim.stake_of(ea.iter().copied().chain(eb.iter().copied()));
                        let thr = if ck == CK::Ff { 4 } else { 3 };
                        self.rec.oracle(met(thr, st, sim.total) && c.stake().inner() == st, "created-cert-stake", || format!("{op}: {fc} accepted stake {st} of {} (threshold {thr}/5)", sim.total));
                    }
                }
                PoolEvent::SafeToNotar((s, h)) => {
                    let (s, h) = (s.inner(), keys.hash_id[h]);
                    let c = { let b = sim.book.entry(s).or_default(); *b.s2n.entry(h).or_default() += 1; b.s2n[&h] };
                    self.rec.oracle(c <= 1, "s2n-twice", || format!("{op}: safe-to-notar ({s},{h}) signalled {c} times"));
                    let why = self.s2n_cond(sim, s, h, false);
                    self.rec.oracle(why.is_none(), "s2n-unsound", || format!("{op}: safe-to-notar ({s},{h}) signalled although {}", why.clone().unwrap_or_default()));
                }
                PoolEvent::SafeToSkip(s) => {
                    let s = s.inner();
                    let c = { let b = sim.book.entry(s).or_default(); b.s2s += 1; b.s2s };
                    self.rec.oracle(c <= 1, "s2s-twice", || format!("{op}: safe-to-skip {s} signalled {c} times"));
                    let ok = self.s2s_cond(sim, s);
                    self.rec.oracle(ok, "s2s-unsound", || format!("{op}: safe-to-skip {s} signalled although its condition does not hold"));
                }
                _ => {}
            }
        }
        // ---- C08 (second sentence): once a slot is decided the node retains nothing older - after every call no component
        // of the pool keeps state for a slot below the watermark (slot states, parent-ready states, the safe-to-notar
        // waiting map, finality statuses and parent links), and the parent-ready tracker's root is the watermark
        {
            let ret = sim.pool.verif_retained_slots();
            let (root, prs) = sim.pool.verif_parent_ready_states();
            let s2n = sim.pool.verif_s2n_waiting();
            let (fst, fpar) = sim.pool.verif_finality_state();
            let low = ret.iter().map(|s| ("slot state", s.inner())).chain(prs.iter().map(|e| ("parent-ready state", e.0.inner())))
                .chain(s2n.iter().map(|e| ("safe-to-notar waiter", e.1.0.inner()))).chain(fst.iter().map(|e| ("finality status", e.0.inner())))
                .chain(fpar.iter().map(|e| ("parent link", e.0.0.inner()))).min_by_key(|x| x.1);
            self.rec.oracle(low.is_none_or(|l| l.1 >= fu) && root.inner() == fu, "c08-pool-retains-below-watermark", || {
                let held: Vec<String> = low.map(|l| sim.pool.verif_certs(Slot::new(l.1)).iter().map(|c| fmt_cert(keys, c)).collect()).unwrap_or_default();
                format!("{op}: after the call the pool retains a {} for slot {} (holding {held:?}; parent-ready root {}) although every slot below {fu} is decided (highest finalized slot {})",
                    low.map(|l| l.0).unwrap_or("-"), low.map(|l| l.1).unwrap_or(0), root.inner(), sim.pool.finalized_slot().inner())
            });
        }
        // ---- state oracles after the step, for retained slots
        let slots: Vec<u64> = sim.book.keys().copied().filter(|s| *s >= fu).collect();
        for s in slots {
            // C03 timeliness: certificate held <=> received or accepted stake reaches the threshold
            let held: BTreeSet<(CK, usize)> = sim.pool.verif_certs(Slot::new(s)).iter().map(|c| {
                let ck = cert_kind(c);
                (ck, if ck.has_hash() { keys.hash_id[c.block_hash().expect("hash")] } else { 0 })
            }).collect();
            let b = sim.book[&s].clone();
            let mut hashes: BTreeSet<usize> = b.notar.values().copied().collect();
            hashes.extend(b.nf.iter().map(|(_, h)| *h));
            hashes.extend(b.received.iter().filter(|(k, _)| k.has_hash()).map(|(_, h)| *h));
            let mut expect: BTreeSet<(CK, usize)> = BTreeSet::new();
            let mut notar_total = 0u64;
            let mut top = 0u64;
            for &h in &hashes {
                let ns = sim.stake_of(b.notar.iter().filter(|(_, x)| **x == h).map(|(v, _)| *v));
                let nfs = sim.stake_of(b.nf.iter().filter(|(_, x)| *x == h).map(|(v, _)| *v));
                notar_total += ns;
                top = top.max(ns);
                if met(3, ns, sim.total) || b.received.contains(&(CK::Notar, h)) { expect.insert((CK::Notar, h)); }
                if met(4, ns, sim.total) || b.received.contains(&(CK::Ff, h)) { expect.insert((CK::Ff, h)); }
                if met(3, ns + nfs, sim.total) || b.received.contains(&(CK::Nf, h)) { expect.insert((CK::Nf, h)); }
            }
            let _ = (notar_total, top);
            if met(3, sim.stake_of(b.skip.iter().copied()) + sim.stake_of(b.sf.iter().copied()), sim.total) || b.received.contains(&(CK::Skip, 0)) { expect.insert((CK::Skip, 0)); }
            if met(3, sim.stake_of(b.fin.iter().copied()), sim.total) || b.received.contains(&(CK::Final, 0)) { expect.insert((CK::Final, 0)); }
            // a received notar/ff certificate for h blocks a second one of the same type for another block (one per slot)
            let one_per_slot = |set: &BTreeSet<(CK, usize)>, k: CK| set.iter().filter(|(x, _)| *x == k).count();
            let comparable = one_per_slot(&expect, CK::Notar) <= 1 && one_per_slot(&expect, CK::Ff) <= 1;
            if comparable {
                self.rec.oracle(held == expect, "cert-not-timely", || format!("{op}: slot {s}: certificates held {held:?} but accepted votes / received certificates justify exactly {expect:?}"));
            }
            // C06 completeness
            for &h in &hashes {
                if !b.s2n.contains_key(&h) && self.s2n_cond(sim, s, h, true).is_none() {
                    self.rec.oracle(false, "s2n-missed", || format!("{op}: all safe-to-notar conditions hold for ({s},{h}) but it was never signalled"));
                }
            }
            if b.s2s == 0 && self.s2s_cond(sim, s) {
                self.rec.oracle(false, "s2s-missed", || format!("{op}: safe-to-skip condition holds for slot {s} but it was never signalled"));
            }
        }
    }

    /// `None` if every condition of safe-to-notar (per the property) holds, else the failing clause
    /// `strict`: the parent certificate must be held *now* (completeness); otherwise it is enough that the
    /// pool announced one earlier and only discarded it by pruning (soundness).
    fn s2n_cond(&self, sim: &Sim, s: u64, h: usize, strict: bool) -> Option<String> {
        let empty = SlotBook::default();
        let b = sim.book.get(&s).unwrap_or(&empty);
        let own_skip = b.skip.contains(&sim.own);
        let own_notar = b.notar.get(&sim.own).copied();
        if !(own_skip || own_notar.is_some_and(|x| x != h)) { return Some("the node has not voted in the slot, or notarized this block".into()); }
        let ns = sim.stake_of(b.notar.iter().filter(|(_, x)| **x == h).map(|(v, _)| *v));
        let sk = sim.stake_of(b.skip.iter().copied());
        if !(met(2, ns, sim.total) || (met(1, ns, sim.total) && met(3, ns + sk, sim.total))) { return Some(format!("stake clause fails (notar {ns}, skip {sk}, total {})", sim.total)); }
        let Some(&(ps, ph)) = sim.blocks.get(&(s, h)) else { return Some("block not registered".into()) };
        let pcert = sim.pool.verif_certs(Slot::new(ps)).iter().any(|c| matches!(c, Cert::Notar(_) | Cert::NotarFallback(_) | Cert::FastFinal(_)) && c.block_hash().map(|x| self.keys.hash_id[x]) == Some(ph));
        let pcert = pcert || (!strict && sim.certified_ever.contains(&(ps, ph)));
        if !pcert { return Some(format!("parent ({ps},{ph}) holds no notar / notar-fallback / fast-final certificate")); }
        None
    }

    fn s2s_cond(&self, sim: &Sim, s: u64) -> bool {
        let empty = SlotBook::default();
        let b = sim.book.get(&s).unwrap_or(&empty);
        if !b.notar.contains_key(&sim.own) { return false; }
        let mut per: BTreeMap<usize, u64> = BTreeMap::new();
        for (v, h) in &b.notar { *per.entry(*h).or_default() += sim.stakes[*v]; }
        let total_notar: u64 = per.values().sum();
        let top = per.values().copied().max().unwrap_or(0);
        met(2, total_notar + sim.stake_of(b.skip.iter().copied()) - top, sim.total)
    }

    /// A panic is a violation (C10) unless it is one of the finality tracker's "consensus safety
    /// violation" assertions: those fire only on histories that need >= 20% Byzantine stake (C01).
    fn panic_oracle(&mut self, op: &str, res: &Result<(), String>) {
        if let Err(msg) = res {
            if msg.contains("consensus safety violation") {
                self.safety_panic = true;
                self.rec.count("unsafe-history:safety-assert");
            } else {
                self.rec.oracle(false, "pool-panic", || format!("{op}: the pool panicked: {msg}"));
            }
        }
    }

    fn vote(&mut self, sim: &mut Sim, k: K, slot: u64, h: usize, signer: usize, legit: bool) {
        if self.dead { return; }
        let keys = self.keys;
        let h = if k.has_hash() { h } else { 0 };
        let vv = sim.validated_vote(keys, k, slot, h, signer);
        let fu = sim.pool.verif_first_unpruned_slot().inner();
        let fin = sim.pool.finalized_slot().inner();
        let expected = Self::expected_verdicts(sim, k, slot, h, signer, fu, fin);
        if let Some(log) = &mut self.log { log.push(LoggedOp::Vote(vv.clone())); }
        let res = catch(|| self.rt.block_on(sim.pool.add_vote(vv)));
        let verdict = match &res {
            Ok(Ok(())) => "ok".to_string(),
            Ok(Err(e)) => {
                use alpenglow::consensus::AddVoteError as E;
                match e {
                    E::SlotOutOfBounds => "oob".into(),
                    E::Duplicate => "dup".into(),
                    E::Slashable(o) => {
                        let s = format!("{o:?}");
                        let name = if s.starts_with("NotarDifferentHash") { "notarDifferentHash" } else if s.starts_with("SkipAndNotarize") { "skipAndNotarize" } else if s.starts_with("SkipAndFinalize") { "skipAndFinalize" } else { "nfAndFinalize" };
                        format!("slash {name}")
                    }
                }
            }
            Err(_) => "panic".into(),
        };
        let op = format!("vote {} {} {} {}", k.name(), slot, h, signer);
        if verdict == "ok" {
            let b = sim.book.entry(slot).or_default();
            match k {
                K::Notar => { b.notar.insert(signer, h); }
                K::Nf => { b.nf.insert((signer, h)); }
                K::Skip => { b.skip.insert(signer); }
                K::Sf => { b.sf.insert(signer); }
                K::Final => { b.fin.insert(signer); }
            }
        }
        self.panic_oracle(&op, &res.as_ref().map(|_| ()).map_err(|e| e.clone()));
        self.rec.oracle(verdict == "panic" || expected.contains(&verdict), "vote-verdict", || format!("{op}: verdict `{verdict}` but the accepted votes of validator {signer} demand one of {expected:?}"));
        self.after_step(sim, &op, verdict, legit);
    }

    fn cert(&mut self, sim: &mut Sim, ck: CK, slot: u64, h: usize, a: &[usize], b: &[usize]) {
        if self.dead || a.len() + b.len() == 0 { return; }
        let keys = self.keys;
        let h = if ck.has_hash() { h } else { 0 };
        let c = build_cert(keys, ck, slot, h, a, b, sim.epoch.epoch_info().validators());
        let op = format!("cert {} {} {} {} {} {}", ck.name(), slot, h, fmt_list(a), fmt_list(b), c.stake().inner());
        let vc = match ValidatedCert::try_new(c, sim.epoch.epoch_info()) { Ok(v) => v, Err(_) => return };
        if let Some(log) = &mut self.log { log.push(LoggedOp::Cert(vc.clone())); }
        let res = catch(|| self.rt.block_on(sim.pool.add_cert(vc)));
        let verdict = match &res {
            Ok(Ok(())) => "ok".to_string(),
            Ok(Err(e)) => if format!("{e:?}").contains("OutOfBounds") { "oob".into() } else { "dup".into() },
            Err(_) => "panic".into(),
        };
        if verdict == "ok" { sim.book.entry(slot).or_default().received.insert((ck, h)); }
        self.panic_oracle(&op, &res.as_ref().map(|_| ()).map_err(|e| e.clone()));
        self.after_step(sim, &op, verdict, false);
    }

    fn block(&mut self, sim: &mut Sim, b: (u64, usize), p: (u64, usize)) {
        if self.dead { return; }
        let keys = self.keys;
        let op = format!("block {} {} {} {}", b.0, b.1, p.0, p.1);
        let bid = (Slot::new(b.0), keys.hashes[b.1].clone());
        let pid = (Slot::new(p.0), keys.hashes[p.1].clone());
        if let Some(log) = &mut self.log { log.push(LoggedOp::Block(bid.clone(), pid.clone())); }
        let res = catch(|| self.rt.block_on(sim.pool.add_block(bid, pid)));
        let verdict = if res.is_ok() { "ok" } else { "panic" }.to_string();
        if res.is_ok() { sim.blocks.insert(b, p); }
        self.panic_oracle(&op, &res.as_ref().map(|_| ()).map_err(|e| e.clone()));
        self.after_step(sim, &op, verdict, false);
    }

    fn recover(&mut self, sim: &mut Sim) {
        if self.dead { return; }
        let keys = self.keys;
        if let Some(log) = &mut self.log { log.push(LoggedOp::Recover); }
        let res = catch(|| self.rt.block_on(sim.pool.recover_from_standstill()));
        let verdict = if res.is_ok() { "ok" } else { "panic" }.to_string();
        self.rec.oracle(res.is_ok(), "recover-panic", || format!("recover_from_standstill panicked (finalized slot {}): {:?}", sim.pool.finalized_slot().inner(), res.as_ref().err()));
        // peek at the bundle for the C18 oracles before it is drained
        let mut pending = Vec::new();
        while let Ok(ev) = sim.ev_rx.try_recv() { pending.push(ev); }
        for ev in &pending {
            if let PoolEvent::Standstill(s, certs, votes) = ev {
                let fin = sim.pool.finalized_slot();
                self.rec.oracle(*s == fin.next(), "bundle-slot", || format!("standstill slot {} but finalized slot {}", s.inner(), fin.inner()));
                // every element validates at a receiver
                for c in certs {
                    let r = ValidatedCert::try_new(c.clone(), sim.epoch.epoch_info());
                    self.rec.oracle(r.is_ok(), "bundle-cert-invalid", || format!("recover: bundled {} fails validation {:?}", fmt_cert(keys, c), r.as_ref().err()));
                }
                for v in votes {
                    let r = ValidatedVote::try_new(v.clone(), sim.epoch.epoch_info());
                    self.rec.oracle(r.is_ok() && v.signer().as_usize() == sim.own && v.slot() > fin, "bundle-vote-invalid", || format!("recover: bundled {} invalid / not own / not above finalized", fmt_vote(keys, v)));
                }
                // contents: every held certificate above the finalized slot, every own accepted vote above it
                let mut want_c: Vec<String> = Vec::new();
                for slot in sim.pool.verif_retained_slots() {
                    if slot > fin { for c in sim.pool.verif_certs(slot) { want_c.push(fmt_cert(keys, &c)); } }
                }
                let mut got_c: Vec<String> = certs.iter().filter(|c| c.slot() > fin).map(|c| fmt_cert(keys, c)).collect();
                want_c.sort(); got_c.sort();
                self.rec.oracle(want_c == got_c, "bundle-certs-incomplete", || format!("recover: bundle certs above finalized {got_c:?} != held {want_c:?}"));
                let mut want_v: Vec<String> = Vec::new();
                for (slot, b) in &sim.book {
                    if *slot <= fin.inner() || *slot < sim.pool.verif_first_unpruned_slot().inner() { continue; }
                    if b.fin.contains(&sim.own) { want_v.push(format!("vote final {slot} 0 {}", sim.own)); }
                    if let Some(h) = b.notar.get(&sim.own) { want_v.push(format!("vote notar {slot} {h} {}", sim.own)); }
                    for (v, h) in &b.nf { if *v == sim.own { want_v.push(format!("vote nf {slot} {h} {}", sim.own)); } }
                    if b.skip.contains(&sim.own) { want_v.push(format!("vote skip {slot} 0 {}", sim.own)); }
                    if b.sf.contains(&sim.own) { want_v.push(format!("vote sf {slot} 0 {}", sim.own)); }
                }
                let mut got_v: Vec<String> = votes.iter().map(|v| fmt_vote(keys, v)).collect();
                want_v.sort(); got_v.sort();
                self.rec.oracle(want_v == got_v, "bundle-votes-incomplete", || format!("recover: bundle own votes {got_v:?} != accepted own votes above finalized {want_v:?}"));
                // the bundle proves the finalized slot (unless still genesis)
                if !fin.is_genesis() {
                    let proves = certs.iter().any(|c| matches!(c, Cert::FastFinal(_)) && c.slot() == fin)
                        || (certs.iter().any(|c| matches!(c, Cert::Final(_)) && c.slot() == fin) && certs.iter().any(|c| matches!(c, Cert::Notar(_)) && c.slot() == fin));
                    self.rec.oracle(proves, "bundle-no-final-proof", || format!("recover: bundle does not prove finalized slot {}", fin.inner()));
                }
                // replay into a fresh pool: same finalized slot, same ready parents for the next window.
                // Two delivery orders (the Lean theorems bundle_replay_finalized / bundle_replay_parents hold for every
                // order): certificates then votes, and votes then certificates in reverse.  In the second order the
                // parents oracle is evaluated only when the node's own stake is below the quorum threshold (premise
                // `hown` of the theorems: otherwise its own votes create certificates at the receiver which, if a
                // received certificate carries its signature for another block, shadow the bundled ones).
                let own_below_quorum = 5 * (sim.stakes[sim.own] as u128) < 3 * (sim.total as u128);
                for order in ["certs-first", "votes-first"] {
                    let (mut p2, mut rx2, mut rr2) = new_pool(&sim.epoch);
                    enum Item<'a> { C(&'a Cert), V(&'a Vote) }
                    let seq: Vec<Item> = if order == "certs-first" {
                        certs.iter().map(Item::C).chain(votes.iter().map(Item::V)).collect()
                    } else {
                        votes.iter().map(Item::V).chain(certs.iter().rev().map(Item::C)).collect()
                    };
                    for it in seq {
                        match it {
                            Item::C(c) => { if let Ok(vc) = ValidatedCert::try_new(c.clone(), sim.epoch.epoch_info()) { let _ = catch(|| self.rt.block_on(p2.add_cert(vc))); } }
                            Item::V(v) => { if let Ok(vv) = ValidatedVote::try_new(v.clone(), sim.epoch.epoch_info()) { let _ = catch(|| self.rt.block_on(p2.add_vote(vv))); } }
                        }
                        while rx2.try_recv().is_ok() {}
                        while rr2.try_recv().is_ok() {}
                    }
                    let f2 = p2.finalized_slot();
                    let far = fin.inner() >= 2 * alpenglow::types::SLOTS_PER_EPOCH;
                    self.rec.oracle(f2 == fin, "bundle-replay-finalized", || if far {
                        format!("recover: finalized slot {} is >= 2*SLOTS_PER_EPOCH past genesis: a fresh pool refuses the bundled certificates as SlotOutOfBounds and stays at finalized slot {}", fin.inner(), f2.inner())
                    } else {
                        format!("recover ({order}): fresh pool fed the bundle reaches finalized slot {} instead of {}", f2.inner(), fin.inner())
                    });
                    let w = fin.next().first_slot_in_window();
                    let w = if w <= fin { Slot::new(w.inner() + 4) } else { w };
                    let mut r1: Vec<String> = sim.pool.parents_ready(w).iter().map(|(s, h)| format!("{}:{}", s.inner(), keys.hash_id[h])).collect();
                    let mut r2: Vec<String> = p2.parents_ready(w).iter().map(|(s, h)| format!("{}:{}", s.inner(), keys.hash_id[h])).collect();
                    r1.sort(); r2.sort();
                    let fin_certs = sim.pool.verif_certs(fin);
                    let fin_hash = fin_certs.iter().find(|c| matches!(c, Cert::FastFinal(_) | Cert::Notar(_))).and_then(|c| c.block_hash().cloned());
                    let safe_history = sim.pool.parents_ready(w).iter().all(|(s, h)| *s > fin || (*s == fin && Some(h) == fin_hash.as_ref())) && !sim.pool.has_skip_cert(fin);
                    if !safe_history { self.rec.count("unsafe-history:replay-parents-skipped"); }
                    let judged = safe_history && (order == "certs-first" || own_below_quorum);
                    if safe_history && !judged { self.rec.count("replay-votes-first:own-at-or-above-quorum-not-judged"); }
                    if order == "votes-first" && judged { self.rec.count("replay-votes-first:judged"); }
                    self.rec.oracle(!judged || r1 == r2, "bundle-replay-parents", || format!("recover ({order}): ready parents of window start {} differ: sender {r1:?} receiver {r2:?}", w.inner()));
                }
            }
        }
        // now format like any other step: put the events back through the canonical printer
        let mut out: Vec<String> = Vec::new();
        for ev in &pending {
            if let PoolEvent::Standstill(s, certs, votes) = ev {
                let mut cs: Vec<String> = certs.iter().map(|c| fmt_cert(keys, c)).collect(); cs.sort();
                let mut vs: Vec<String> = votes.iter().map(|v| fmt_vote(keys, v)).collect(); vs.sort();
                out.push(format!("standstill {} [{}] [{}]", s.inner(), cs.join(" / "), vs.join(" / ")));
            }
        }
        self.evlog.extend(pending.iter().map(|ev| fmt_event(keys, ev)));
        self.rec.step("recover", &format!("{} | {}", verdict, out.join(" ; ")));
        self.rec.count("op:recover");
    }

    /// Replays the logged calls of the case on a fresh pool whose channel to Votor holds only `cap` events, concurrently
    /// with a consumer that starts `start_lag` scheduler turns late and pauses `lag` turns after every event (one
    /// current-thread runtime, `join!`, no timers: deterministic).  A full queue towards Votor is a state like any
    /// other: every triggered recovery must still hand over its bundle ("whenever a node triggers standstill recovery
    /// it hands over ...", "safe in every state"), and Votor must see exactly the events an unhindered consumer sees.
    /// Oracle-only: nothing is written to the compared stream.
    fn replay_backpressure(&mut self, sim: &Sim, cap: usize, start_lag: usize, lag: usize) {
        let Some(log) = self.log.take() else { return };
        let want = std::mem::take(&mut self.evlog);
        if self.dead || self.safety_panic { return; }
        let keys = self.keys;
        let epoch = sim.epoch.clone();
        let nrecover = log.iter().filter(|o| matches!(o, LoggedOp::Recover)).count();
        let res = catch(|| self.rt.block_on(async {
            let (ev_tx, mut ev_rx) = mpsc::channel(cap);
            let (rep_tx, mut rep_rx) = mpsc::channel(1 << 14);
            let probe = ev_tx.clone();
            let mut pool = PoolImpl::new(epoch, ev_tx, rep_tx);
            let feeder = async move {
                // number of recoveries triggered while the queue towards Votor was full
                let mut full = 0usize;
                for op in log {
                    match op {
                        LoggedOp::Vote(v) => { let _ = pool.add_vote(v).await; }
                        LoggedOp::Cert(c) => { let _ = pool.add_cert(c).await; }
                        LoggedOp::Block(b, p) => pool.add_block(b, p).await,
                        LoggedOp::Recover => {
                            if probe.capacity() == 0 { full += 1; }
                            pool.recover_from_standstill().await;
                        }
                    }
                    while rep_rx.try_recv().is_ok() {}
                }
                drop(pool); // with `probe`: closes the channel, the consumer sees the end of the stream
                drop(probe);
                full
            };
            let consumer = async {
                for _ in 0..start_lag { tokio::task::yield_now().await; }
                let mut got: Vec<String> = Vec::new();
                while let Some(ev) = ev_rx.recv().await {
                    got.push(fmt_event(keys, &ev));
                    for _ in 0..lag { tokio::task::yield_now().await; }
                }
                got
            };
            tokio::join!(feeder, consumer)
        }));
        let desc = format!("replay of the case with a Votor queue of capacity {cap}, consumer {start_lag} turns late, pausing {lag} turns per event");
        self.rec.oracle(res.is_ok(), "pool-panic", || format!("{desc}: the pool panicked: {:?}", res.as_ref().err()));
        let Ok((full, got)) = res else { return };
        self.rec.count("backpressure:replays");
        for _ in 0..full { self.rec.count("backpressure:recover-with-full-queue"); }
        let st = |v: &[String]| v.iter().filter(|e| e.starts_with("standstill ")).cloned().collect::<Vec<_>>();
        let (got_st, want_st) = (st(&got), st(&want));
        let nst = got_st.len();
        self.rec.oracle(nst == nrecover, "bundle-not-handed-over", || format!("{desc}: recovery was triggered {nrecover} time(s) ({full} of them with the queue full) but {nst} bundle(s) reached Votor; an unhindered consumer sees {:?}, this one received {:?}", want, got));
        let first = (0..want_st.len().max(got_st.len())).find(|i| want_st.get(*i) != got_st.get(*i));
        self.rec.oracle(first.is_none(), "bundle-differs-under-backpressure", || {
            let i = first.unwrap_or(0);
            format!("{desc}: bundle {i} reaching Votor is {:?}, an unhindered consumer sees {:?}", got_st.get(i), want_st.get(i))
        });
    }
}

fn parse_list(s: &str) -> Vec<usize> { if s == "-" { vec![] } else { s.split(',').map(|x| x.parse().expect("idx")).collect() } }
fn parse_k(s: &str) -> K { match s { "notar" => K::Notar, "nf" => K::Nf, "skip" => K::Skip, "sf" => K::Sf, _ => K::Final } }
fn parse_ck(s: &str) -> CK { match s { "notar" => CK::Notar, "nf" => CK::Nf, "skip" => CK::Skip, "ff" => CK::Ff, _ => CK::Final } }

/// replays a file in ops format (corpus / replay) on the real pool through the same oracles
fn run_script(run: &mut Run, keys: &Keys, text: &str, tag: &str) {
    let mut sim: Option<Sim> = None;
    let mut open = false;
    for line in text.lines() {
        let w: Vec<&str> = line.split_whitespace().collect();
        if w.is_empty() || w[0].starts_with('#') { continue; }
        match w[0] {
            "case" => {
                if open { let c = run.class; run.rec.end_case(c, true); }
                run.class = 0; run.dead = false; run.safety_panic = false; open = true;
                run.rec.begin_case(&format!("{tag}:{}", w.get(2).copied().unwrap_or("script")));
            }
            "epoch" => {
                let own: usize = w[1].parse().expect("own");
                let stakes: Vec<u64> = w[2..].iter().map(|x| x.parse().expect("stake")).collect();
                let sm = Sim::new(keys, stakes, own);
                run.rec.step(line.trim(), &format!("epoch n={} total={}", sm.n, sm.total));
                sim = Some(sm);
            }
            "vote" => { let sm = sim.as_mut().expect("epoch first"); run.vote(sm, parse_k(w[1]), w[2].parse().expect("slot"), w[3].parse().expect("hash"), w[4].parse().expect("signer"), false); }
            "cert" => { let sm = sim.as_mut().expect("epoch first"); run.cert(sm, parse_ck(w[1]), w[2].parse().expect("slot"), w[3].parse().expect("hash"), &parse_list(w[4]), &parse_list(w[5])); }
            "block" => { let sm = sim.as_mut().expect("epoch first"); run.block(sm, (w[1].parse().expect("s"), w[2].parse().expect("h")), (w[3].parse().expect("ps"), w[4].parse().expect("ph"))); }
            "recover" => { let sm = sim.as_mut().expect("epoch first"); run.recover(sm); }
            _ => {}
        }
    }
    if open { let c = run.class; run.rec.end_case(c, true); }
}

fn stake_shape(rng: &mut Rng, n: usize) -> (Vec<u64>, &'static str) {
    match rng.below(9) {
        // validators without stake (they are members of the epoch, their votes are validly signed: everything the property
        // says about a validator's votes - duplicates, conflicts, certificates list them as signers - holds for them too);
        // the first one has a low index (the conflict plans use validators 0..2)
        7 | 8 if n >= 3 => {
            let two = rng.chance(1, 2) && n >= 4;
            let mut v: Vec<u64> = match rng.below(3) { 0 => vec![1; n], 1 => (0..n).map(|_| rng.range(1, 9)).collect(), _ => (0..n).map(|_| 5 * rng.range(1, 4)).collect() };
            let z0 = rng.below(3) as usize;
            v[z0] = 0;
            if two { let z1 = (z0 + 1 + rng.below(n as u64 - 1) as usize) % n; v[z1] = 0; }
            (v, if two { "zero2" } else { "zero1" })
        }
        0 => (vec![1; n], "equal"),
        1 => ((0..n).map(|i| 1u64 << (i % 10)).collect(), "pow2"),
        2 => { let mut v = vec![1u64; n]; let rest = (n as u64 - 1).max(1); v[0] = rest * 3 / 2 + rng.below(3); (v, "whale60") }
        3 => { // multiples of 5 so that k/5 thresholds are hit exactly
            ((0..n).map(|_| 5 * rng.range(1, 4)).collect(), "on-threshold") }
        4 => ((0..n).map(|_| rng.range(1, 9)).collect(), "small"),
        5 => { let mut v: Vec<u64> = (0..n).map(|_| 5).collect(); if n > 1 { v[1] = 4; v[0] = 6; } (v, "threshold±1") }
        _ => ((0..n).map(|_| rng.range(1, 1000)).collect(), "random"),
    }
}

fn main() {
    let args = Args::parse();
    quiet_panics();
    let mut rng = Rng::new(args.seed);
    let mut krng = Rng::new(0xA1A1); // keys do not depend on the seed (vote caches stay valid)
    let keys = Keys::with_validators(&mut krng, BIGN);
    let focus = args.extra.iter().position(|a| a == "--focus").map(|i| args.extra[i + 1].clone()).unwrap_or_else(|| "C03".into());
    let rt = tokio::runtime::Builder::new_current_thread().build().expect("rt");
    let mut run = Run { keys: &keys, rec: Recorder::new(), rt, class: 0, focus: focus.clone(), dead: false, safety_panic: false, log: None, evlog: Vec::new() };
    // corpus first: minimized past failures and directed scenarios
    let corpus = std::path::Path::new(env!("CARGO_MANIFEST_DIR")).join("../corpus/pool");
    if let Some(rp) = &args.replay {
        let text = std::fs::read_to_string(rp).expect("replay file");
        run_script(&mut run, &keys, &text, "replay");
        let extra = serde_json::json!({ "focus": run.focus, "replay": true });
        run.rec.finish(&args, extra);
        return;
    }
    if let Ok(rd) = std::fs::read_dir(&corpus) {
        let mut files: Vec<_> = rd.filter_map(|e| e.ok()).map(|e| e.path()).filter(|p| p.extension().is_some_and(|x| x == "ops")).collect();
        files.sort();
        for f in files {
            let text = std::fs::read_to_string(&f).expect("corpus file");
            run_script(&mut run, &keys, &text, &format!("corpus/{}", f.file_stem().and_then(|s| s.to_str()).unwrap_or("")));
        }
    }
    let cases = match (focus.as_str(), args.thorough) {
        (_, false) => 90,
        (_, true) => 1200,
    };
    // directed shape `epoch-boundary` (every focus, own random stream): chains that cross an epoch boundary
    let nboundary = if args.thorough { 40 } else { 6 };
    let mut erng = Rng::new(args.seed ^ 0xE90C_B0DA);
    // directed shape `big-epoch` (own random stream): epochs of more than 64 / more than 128 validators (the signer
    // bitmask of a certificate spans several machine words) whose quorums are formed by the validators with low indices
    let nbig = if args.thorough { 12 } else { 3 };
    let mut brng = Rng::new(args.seed ^ 0xB16_E90C);
    for ci in 0..nbig {
        let rng = &mut brng;
        let n = match ci % 3 { 0 => rng.range(65, 100), 1 => rng.range(129, 150), _ => *rng.pick(&[64, 65, 127, 128, 129, 191, 192, 193, BIGN as u64]) } as usize;
        let (stakes, shape): (Vec<u64>, &str) = if rng.chance(1, 3) && n <= 150 { (vec![1; n], "equal") } else {
            // the first third of the validators holds > 80 % of the stake
            let m = n / 3;
            ((0..n).map(|i| if i < m { rng.range(12, 14) } else if rng.chance(1, 20) { 0 } else { 1 }).collect(), "heavy-low")
        };
        let own = rng.below(n as u64) as usize;
        let mut sim = Sim::new(&keys, stakes.clone(), own);
        run.class = 0; run.dead = false; run.safety_panic = false;
        run.rec.begin_case(&format!("big-epoch/{shape}/n{n}"));
        run.rec.step(&format!("epoch {} {}", own, stakes.iter().map(|s| s.to_string()).collect::<Vec<_>>().join(" ")), &format!("epoch n={} total={}", n, sim.total));
        gen_big_case(&mut run, &mut sim, rng);
        let class = run.class;
        run.rec.end_case(class, true);
    }
    // directed shapes with their own random stream (the cases of the main stream do not depend on them):
    //  cert-then-votes  a certificate of every kind is RECEIVED while the local votes of its class are still below the
    //                   threshold (or before any, or after they crossed); the votes then cross it: one certificate per type
    //  s2n-pair         two or three competing blocks of one slot (one hash group) are pending for safe-to-notar at once
    //                   (each >= 20 % and < 40 % notar, parent certified, own skip vote in) and ONE skip vote lifts
    //                   notar + skip to >= 60 % for all of them
    //  s2n-late-parent  a child is eligible for safe-to-notar but its parent holds no certificate yet; a LATER slot is
    //                   finalized (the child's slot stays undecided: gap); then the parent's certificate arrives
    let ndirected = if args.thorough { 60 } else { 9 };
    let mut drng = Rng::new(args.seed ^ 0xD12E_C7ED);
    for ci in 0..ndirected {
        let rng = &mut drng;
        let kind = ["cert-then-votes", "s2n-pair", "s2n-late-parent"][ci % 3];
        let (stakes, shape): (Vec<u64>, &str) = if kind == "cert-then-votes" { let n = rng.range(3, 12) as usize; stake_shape(rng, n) } else {
            // equal stakes (sometimes a few validators without stake on top): the same vote lifts every pending block
            let mut v = vec![1u64; rng.range(10, 16) as usize];
            if rng.chance(1, 4) { v.push(0); }
            (v, "equal")
        };
        let n = stakes.len();
        let own = rng.below(n as u64) as usize;
        let own = if stakes[own] == 0 { 0 } else { own };
        let mut sim = Sim::new(&keys, stakes.clone(), own);
        run.class = 0; run.dead = false; run.safety_panic = false;
        run.rec.begin_case(&format!("{kind}/{shape}/n{n}"));
        run.rec.step(&format!("epoch {} {}", own, stakes.iter().map(|s| s.to_string()).collect::<Vec<_>>().join(" ")), &format!("epoch n={} total={}", n, sim.total));
        match kind {
            "cert-then-votes" => gen_cert_then_votes(&mut run, &mut sim, rng),
            "s2n-pair" => gen_s2n_pair(&mut run, &mut sim, rng),
            _ => gen_s2n_late_parent(&mut run, &mut sim, rng),
        }
        let class = run.class;
        run.rec.end_case(class, true);
    }
    for ci in 0..nboundary + cases {
        let boundary = ci < nboundary;
        let rng = if boundary { &mut erng } else { &mut rng };
        let n = match rng.below(10) { 0 => 1, 1 => 2, 2 => 3, 3..=6 => rng.range(4, 8) as usize, 7..=8 => rng.range(9, 14) as usize, _ => rng.range(15, 24) as usize };
        let (mut stakes, mut shape) = stake_shape(rng, n);
        let plan = if boundary { "epoch-boundary" } else { match focus.as_str() {
            "C04" => *rng.pick(&["conflicts", "legit", "mixed"]),
            "C06" => *rng.pick(&["s2n", "s2n", "s2s", "mixed"]),
            "C18" => *rng.pick(&["chain", "chain", "mixed", "gap"]),
            _ => *rng.pick(&["quorums", "quorums", "mixed", "chain", "s2n", "gap"]),
        } };
        // plan `gap` wants one validator whose single vote lifts a block from < 60 % to >= 80 %
        if plan == "gap" && rng.chance(3, 4) { stakes = lift_stakes(rng); shape = "whale-lift"; }
        let n = stakes.len();
        let own = rng.below(n as u64) as usize;
        let mut sim = Sim::new(&keys, stakes.clone(), own);
        run.class = 0;
        run.dead = false;
        run.safety_panic = false;
        run.rec.begin_case(&format!("{plan}/{shape}/n{n}"));
        run.rec.step(&format!("epoch {} {}", own, stakes.iter().map(|s| s.to_string()).collect::<Vec<_>>().join(" ")), &format!("epoch n={} total={}", n, sim.total));
        // C18: every case is afterwards replayed against a tiny, lagging queue towards Votor
        let bp = if focus == "C18" {
            let mut brng = rng.fork();
            run.log = Some(Vec::new());
            run.evlog.clear();
            Some((brng.range(1, 2) as usize, *brng.pick(&[0usize, 2, 40, 1000]), brng.range(1, 3) as usize))
        } else { None };
        if boundary { gen_boundary_case(&mut run, &mut sim, rng); } else if plan == "gap" { gen_gap_case(&mut run, &mut sim, rng); } else { gen_case(&mut run, &mut sim, rng, plan); }
        if let Some((cap, start_lag, lag)) = bp { run.replay_backpressure(&sim, cap, start_lag, lag); }
        let class = run.class;
        run.rec.end_case(class, true);
    }
    let extra = serde_json::json!({ "focus": run.focus });
    run.rec.finish(&args, extra);
}

/// number of validator keys (largest generated epoch)
const BIGN: usize = 200;

/// Epochs whose certificates need a signer bitmask of more than one (more than two) 64-bit words.  The votes come from the
/// validators with the lowest indices (in index order or shuffled among themselves) and stop as soon as the quorum is
/// reached, so the high words of the bitmask stay empty: notarization + finalization of one block (notar, notar-fallback,
/// fast-final and final certificates), a skipped slot (skip + skip-fallback votes), a notar / notar-fallback mix.
/// Every created certificate must be accepted by a peer from its wire bytes (`created-cert-wire`).
fn gen_big_case(run: &mut Run, sim: &mut Sim, rng: &mut Rng) {
    let low_until = |sim: &Sim, num: u64| -> Vec<usize> {
        let mut acc = 0; let mut out = Vec::new();
        for v in 0..sim.n { if met(num, acc, sim.total) { break; } out.push(v); acc += sim.stakes[v]; }
        out
    };
    let goff = rng.below(8) as usize * 4;
    let order = |rng: &mut Rng, mut vs: Vec<usize>| { if rng.chance(1, 2) { rng.shuffle(&mut vs); } vs };
    // slot 1: block, notarized by >= 80 %, finalized by >= 60 %
    let h1 = goff + 1;
    run.block(sim, (1, h1), (0, 0));
    for v in order(rng, low_until(sim, 4)) { run.vote(sim, K::Notar, 1, h1, v, true); }
    for v in order(rng, low_until(sim, 3)) { run.vote(sim, K::Final, 1, 0, v, true); }
    // slot 2: skipped by skip + skip-fallback votes of >= 60 %
    let sk = order(rng, low_until(sim, 3));
    let cut = rng.below(sk.len() as u64 + 1) as usize;
    for (i, v) in sk.iter().enumerate() { run.vote(sim, if i < cut { K::Skip } else { K::Sf }, 2, 0, *v, true); }
    // slot 3: notar + notar-fallback votes for one block reach 60 % together
    let h3 = goff + 5;
    let nn = order(rng, low_until(sim, 3));
    let cut = rng.below(nn.len() as u64 + 1) as usize;
    for (i, v) in nn.iter().enumerate() { run.vote(sim, if i < cut { K::Notar } else { K::Nf }, 3, h3, *v, true); }
    run.recover(sim);
}

/// Received certificate + local votes of the same class, for every certificate kind, in 1..3 slots: the certificate arrives
/// before any vote / between the votes (mostly before they reach the threshold) / after all of them.
fn gen_cert_then_votes(run: &mut Run, sim: &mut Sim, rng: &mut Rng) {
    let goff = rng.below(8) as usize * advhash::GROUP as usize;
    let nslots = rng.range(1, 3);
    for s in 1..=nslots {
        let h = goff + 4 * s as usize - 3;
        let ck = *rng.pick(&[CK::Notar, CK::Nf, CK::Skip, CK::Ff, CK::Final, CK::Final]);
        if rng.chance(1, 2) { run.block(sim, (s, h), if s == 1 { (0, 0) } else { (s - 1, goff + 4 * (s as usize - 1) - 3) }); }
        let signers = subset_reaching(sim, rng, if ck == CK::Ff { 4 } else { 3 });
        let (ca, cb) = if matches!(ck, CK::Nf | CK::Skip) { let cut = rng.below(signers.len() as u64 + 1) as usize; (signers[..cut].to_vec(), signers[cut..].to_vec()) } else { (signers, vec![]) };
        let mut voters = subset_reaching(sim, rng, if ck == CK::Ff { 4 } else { 3 });
        rng.shuffle(&mut voters);
        let votes: Vec<(K, usize)> = voters.iter().map(|&v| (match ck {
            CK::Notar | CK::Ff => K::Notar,
            CK::Nf => if rng.chance(1, 2) { K::Notar } else { K::Nf },
            CK::Skip => if rng.chance(1, 2) { K::Skip } else { K::Sf },
            CK::Final => K::Final,
        }, v)).collect();
        let at = match rng.below(4) { 0 => 0, 1 => votes.len(), _ => rng.below(votes.len() as u64 + 1) as usize };
        for (i, (k, v)) in votes.iter().enumerate() {
            if i == at { run.cert(sim, ck, s, h, &ca, &cb); }
            run.vote(sim, *k, s, h, *v, false);
            if rng.chance(1, 10) { run.vote(sim, *k, s, h, *v, false); }
        }
        if at == votes.len() { run.cert(sim, ck, s, h, &ca, &cb); }
        if rng.chance(1, 3) { run.recover(sim); }
    }
    run.recover(sim);
}

/// Several competing blocks of slot 2 pending for safe-to-notar at once (equal stakes): the parent (slot 1) is certified, the
/// node itself voted skip, each block has k notar votes with 20 % <= k/n < 40 %; then the skip votes arrive one by one -
/// the one that takes notar + skip to >= 60 % does so for every pending block.  2 in 3 cases in this order, else shuffled.
fn gen_s2n_pair(run: &mut Run, sim: &mut Sim, rng: &mut Rng) {
    let voters: Vec<usize> = (0..sim.n).filter(|v| sim.stakes[*v] > 0).collect();
    let n = voters.len() as u64;
    let goff = rng.below(8) as usize * advhash::GROUP as usize;
    let (hp, h0) = (goff + 1, goff + 5);
    let ks: Vec<u64> = (1..n).filter(|k| 5 * k >= n && 5 * k < 2 * n).collect();
    let k = *rng.pick(&ks);
    let m = (3 * n).div_ceil(5) - k;
    let nb = if 3 * k + m <= n && rng.chance(1, 2) { 3 } else { 2 };
    #[derive(Clone)]
    enum Op { V(K, u64, usize, usize), C(CK, u64, usize, Vec<usize>), B((u64, usize), (u64, usize)) }
    let mut pre: Vec<Op> = vec![Op::B((1, hp), (0, 0))];
    for b in 0..nb { pre.push(Op::B((2, h0 + b), (1, hp))); }
    let pck = *rng.pick(&[CK::Notar, CK::Nf, CK::Ff]);
    let a = subset_reaching(sim, rng, if pck == CK::Ff { 4 } else { 3 });
    pre.push(Op::C(pck, 1, hp, a));
    pre.push(Op::V(K::Skip, 2, 0, sim.own));
    let mut rest: Vec<usize> = voters.iter().copied().filter(|v| *v != sim.own).collect();
    rng.shuffle(&mut rest);
    for b in 0..nb { for _ in 0..k { let v = rest.pop().expect("enough validators"); pre.push(Op::V(K::Notar, 2, h0 + b, v)); } }
    rng.shuffle(&mut pre);
    let mut ops = pre;
    for _ in 0..(m - 1).min(rest.len() as u64) { let v = rest.pop().expect("validator"); ops.push(Op::V(K::Skip, 2, 0, v)); }
    for v in rest { if rng.chance(1, 2) { ops.push(Op::V(K::Skip, 2, 0, v)); } }
    if rng.chance(1, 3) { rng.shuffle(&mut ops); }
    for op in ops {
        match op {
            Op::V(k, s, h, v) => run.vote(sim, k, s, h, v, true),
            Op::C(ck, s, h, a) => run.cert(sim, ck, s, h, &a, &[]),
            Op::B(b, p) => run.block(sim, b, p),
        }
    }
    run.recover(sim);
}

/// The parent's certificate arrives when a later slot is already finalized: parent P in slot 1 (registered, not certified),
/// child C in slot 2 or 3 eligible for safe-to-notar but for the parent certificate (own skip vote, >= 40 % notar - or >= 20 %
/// notar and >= 60 % with the skip votes), slot f > slot(C) fast-finalized by a received certificate (nothing links it to C's
/// slot, which stays undecided and retained), then P's notar / notar-fallback / fast-final certificate: C is safe to notar now.
fn gen_s2n_late_parent(run: &mut Run, sim: &mut Sim, rng: &mut Rng) {
    let voters: Vec<usize> = (0..sim.n).filter(|v| sim.stakes[*v] > 0).collect();
    let n = voters.len() as u64;
    let goff = rng.below(8) as usize * advhash::GROUP as usize;
    let sc = rng.range(2, 3);
    let (hp, hc, hf) = (goff + 1, goff + 5 + rng.below(2) as usize, goff + 13);
    let f = sc + rng.range(1, 3);
    run.block(sim, (1, hp), (0, 0));
    run.block(sim, (sc, hc), (1, hp));
    let mut rest: Vec<usize> = voters.iter().copied().filter(|v| *v != sim.own).collect();
    rng.shuffle(&mut rest);
    let mut votes: Vec<(K, usize)> = vec![(K::Skip, sim.own)];
    if rng.chance(1, 2) {
        for _ in 0..(2 * n).div_ceil(5) { votes.push((K::Notar, rest.pop().expect("validator"))); }
    } else {
        let k = n.div_ceil(5);
        for _ in 0..k { votes.push((K::Notar, rest.pop().expect("validator"))); }
        for _ in 0..(3 * n).div_ceil(5) - k - 1 { votes.push((K::Skip, rest.pop().expect("validator"))); }
    }
    rng.shuffle(&mut votes);
    for (k, v) in votes { run.vote(sim, k, sc, hc, v, true); }
    let a = subset_reaching(sim, rng, 4);
    run.cert(sim, CK::Ff, f, hf, &a, &[]);
    if rng.chance(1, 3) { run.recover(sim); }
    let ck = *rng.pick(&[CK::Notar, CK::Nf, CK::Ff]);
    let a = subset_reaching(sim, rng, if ck == CK::Ff { 4 } else { 3 });
    run.cert(sim, ck, 1, hp, &a, &[]);
    run.recover(sim);
}

/// stakes with one validator holding 30..58 % and the others 1..3 units each (sometimes one of them nothing)
fn lift_stakes(rng: &mut Rng) -> Vec<u64> {
    let n = rng.range(2, 8) as usize;
    let mut v: Vec<u64> = (0..n - 1).map(|_| rng.range(1, 3)).collect();
    if n >= 4 && rng.chance(1, 4) { v[0] = 0; }
    let o: u64 = v.iter().sum();
    let (lo, hi) = (((43 * o).div_ceil(100)).max(1), ((138 * o) / 100).max(1));
    let w = rng.range(lo, hi.max(lo));
    v.insert(rng.below(n as u64) as usize, w);
    v
}

/// a validator with more than 20 % of the stake and a set of others holding < 60 % that reaches >= 80 % together with it
fn lift_plan(sim: &Sim, rng: &mut Rng) -> Option<(Vec<usize>, usize)> {
    let cands: Vec<usize> = (0..sim.n).filter(|v| 5 * (sim.stakes[*v] as u128) > sim.total as u128).collect();
    if cands.is_empty() { return None; }
    for _ in 0..8 {
        let w = *rng.pick(&cands);
        let mut others: Vec<usize> = (0..sim.n).filter(|v| *v != w).collect();
        rng.shuffle(&mut others);
        let (mut acc, mut before) = (0u64, Vec::new());
        for v in others { if met(4, acc + sim.stakes[w], sim.total) { break; } before.push(v); acc += sim.stakes[v]; }
        if met(4, acc + sim.stakes[w], sim.total) && !met(3, acc, sim.total) { return Some((before, w)); }
    }
    None
}

/// Gap slot decided by votes (C08, D30): the slots below g are finalized; slot g+1 gets finalized (votes or certificates)
/// and slot g receives its finalization certificate (votes or certificate) while its block is not yet notarized: g is an
/// undecided gap below the highest finalized slot.  Then the notarization votes for g's block arrive, the last one from a
/// validator heavy enough to lift the block from < 60 % to >= 80 % at once: the notarization and the fast-finalization
/// certificate are created by the same call, the first decides the slot and moves the watermark past it.  Sometimes the
/// blocks are registered (g is then decided through the parent link of g+1), sometimes a competing block of g gets a
/// vote, sometimes everything arrives fully shuffled.  Whatever the order: the retained-state, timeliness and verdict
/// oracles hold after every call.
fn gen_gap_case(run: &mut Run, sim: &mut Sim, rng: &mut Rng) {
    let g = rng.range(1, 4);
    let goff = rng.below(8) as usize * advhash::GROUP as usize;
    let hg = goff + 1 + rng.below(2) as usize;
    let hg_other = if hg == goff + 1 { goff + 2 } else { goff + 1 };
    let hn = goff + 5;
    let hlow = |s: u64| goff + 8 + s as usize * 4 - 3;
    // decided prefix below g
    for s in 1..g {
        let a = subset_reaching(sim, rng, 4);
        if rng.chance(1, 2) { run.block(sim, (s, hlow(s)), if s == 1 { (0, 0) } else { (s - 1, hlow(s - 1)) }); }
        run.cert(sim, CK::Ff, s, hlow(s), &a, &[]);
    }
    #[derive(Clone)]
    enum Op { V(K, u64, usize, usize), C(CK, u64, usize, Vec<usize>, Vec<usize>), B((u64, usize), (u64, usize)) }
    let mut ops: Vec<Op> = Vec::new();
    // slot g+1 finalized
    match rng.below(4) {
        0 => { for v in subset_reaching(sim, rng, 4) { ops.push(Op::V(K::Notar, g + 1, hn, v)); } }
        1 => { for v in subset_reaching(sim, rng, 3) { ops.push(Op::V(K::Notar, g + 1, hn, v)); } for v in subset_reaching(sim, rng, 3) { ops.push(Op::V(K::Final, g + 1, 0, v)); } }
        2 => { let a = subset_reaching(sim, rng, 4); ops.push(Op::C(CK::Ff, g + 1, hn, a, vec![])); }
        _ => { let (a, b) = (subset_reaching(sim, rng, 3), subset_reaching(sim, rng, 3)); ops.push(Op::C(CK::Notar, g + 1, hn, a, vec![])); ops.push(Op::C(CK::Final, g + 1, 0, b, vec![])); }
    }
    // finalization certificate of g
    if rng.chance(2, 3) { for v in subset_reaching(sim, rng, 3) { ops.push(Op::V(K::Final, g, 0, v)); } } else { let a = subset_reaching(sim, rng, 3); ops.push(Op::C(CK::Final, g, 0, a, vec![])); }
    if rng.chance(1, 3) {
        ops.push(Op::B((g, hg), if g == 1 { (0, 0) } else { (g - 1, hlow(g - 1)) }));
        if rng.chance(2, 3) { ops.push(Op::B((g + 1, hn), (g, hg))); }
    }
    // notarization votes of g: the lifting vote last
    let lift = lift_plan(sim, rng);
    run.rec.count(if lift.is_some() { "gap:lifting-vote" } else { "gap:no-lifting-validator" });
    let (before, last): (Vec<usize>, Vec<usize>) = match lift { Some((b, w)) => (b, vec![w]), None => (subset_reaching(sim, rng, 4), vec![]) };
    let voters: BTreeSet<usize> = before.iter().chain(last.iter()).copied().collect();
    if rng.chance(1, 3) { if let Some(x) = (0..sim.n).find(|v| !voters.contains(v)) { ops.push(Op::V(K::Notar, g, hg_other, x)); } }
    let early = rng.chance(1, 2);
    if early { for &v in &before { ops.push(Op::V(K::Notar, g, hg, v)); } }
    rng.shuffle(&mut ops);
    if !early { for &v in &before { ops.push(Op::V(K::Notar, g, hg, v)); } }
    for &v in &last { ops.push(Op::V(K::Notar, g, hg, v)); }
    if rng.chance(1, 5) { rng.shuffle(&mut ops); }
    for op in ops {
        match op {
            Op::V(k, s, h, v) => run.vote(sim, k, s, h, v, true),
            Op::C(ck, s, h, a, b) => run.cert(sim, ck, s, h, &a, &b),
            Op::B(b, p) => run.block(sim, b, p),
        }
        if rng.chance(1, 15) { run.recover(sim); }
    }
    run.recover(sim);
}

/// random subset of validators reaching at least `num`/5 of the stake (in random order), possibly just
fn subset_reaching(sim: &Sim, rng: &mut Rng, num: u64) -> Vec<usize> {
    let mut order: Vec<usize> = (0..sim.n).collect();
    rng.shuffle(&mut order);
    let mut acc = 0;
    let mut out = Vec::new();
    for v in order {
        out.push(v);
        acc += sim.stakes[v];
        if met(num, acc, sim.total) && rng.chance(3, 4) { break; }
    }
    out.sort();
    out
}

/// Progress across an epoch boundary (C02: "every correct node's highest finalized slot keeps advancing", also in the
/// last window of an epoch).  The node catches up to a finalized slot just below a multiple of SLOTS_PER_EPOCH by a
/// received fast-finalization certificate (as after a standstill bundle); then for each following slot, into the next
/// epoch, a block is registered and the messages that finalize it arrive in random order: notarization votes of >= 80 %
/// of the stake, or notarization + finalization votes of >= 60 % each, or the certificates themselves.  All of them lie
/// far inside the admission window (finalized + 2 * SLOTS_PER_EPOCH), so after the messages of slot s the pool's
/// finalized slot must be >= s.  Every step is also replayed on the Lean model like any other case.
fn gen_boundary_case(run: &mut Run, sim: &mut Sim, rng: &mut Rng) {
    let e = alpenglow::types::SLOTS_PER_EPOCH;
    // (not below 2 * SLOTS_PER_EPOCH: finalizing beyond it runs into the known finding D17 at every recovery)
    let start = match rng.below(3) { 0 => e - 1, 1 => e - 2, _ => e - 1 - rng.below(8) };
    let a = subset_reaching(sim, rng, 4);
    run.cert(sim, CK::Ff, start, 1, &a, &[]);
    let fin0 = sim.pool.finalized_slot().inner();
    run.rec.oracle(run.dead || fin0 == start, "c02-catch-up-refused", || format!("epoch-boundary: a fresh pool that receives a fast-finalization certificate for slot {start} (< 2 * SLOTS_PER_EPOCH) reports finalized slot {fin0}"));
    let k = rng.range(2, 8);
    let mut parent = (start, 1usize);
    for i in 0..k {
        let (s, h) = (start + 1 + i, 2 + i as usize);
        run.block(sim, (s, h), parent);
        let mode = rng.below(4);
        let mut msgs: Vec<(K, usize)> = Vec::new();
        match mode {
            0 => { for v in subset_reaching(sim, rng, 4) { msgs.push((K::Notar, v)); } }
            1 | 2 => { for v in subset_reaching(sim, rng, 3) { msgs.push((K::Notar, v)); } for v in subset_reaching(sim, rng, 3) { msgs.push((K::Final, v)); } }
            _ => {}
        }
        rng.shuffle(&mut msgs);
        for (kd, v) in msgs { run.vote(sim, kd, s, h, v, true); }
        if mode == 3 {
            if rng.chance(1, 2) {
                let a = subset_reaching(sim, rng, 4);
                run.cert(sim, CK::Ff, s, h, &a, &[]);
            } else {
                let (a, b) = (subset_reaching(sim, rng, 3), subset_reaching(sim, rng, 3));
                if rng.chance(1, 2) { run.cert(sim, CK::Notar, s, h, &a, &[]); run.cert(sim, CK::Final, s, 0, &b, &[]); } else { run.cert(sim, CK::Final, s, 0, &b, &[]); run.cert(sim, CK::Notar, s, h, &a, &[]); }
            }
        }
        let fin = sim.pool.finalized_slot().inner();
        run.rec.count(&format!("epoch-boundary:{}", if s % e < 4 { "slot-in-first-window-of-epoch" } else { "slot-before-boundary" }));
        run.rec.oracle(run.dead || fin >= s, "c02-quorum-not-finalized", || format!("epoch-boundary: finalized slot {} after the {} for block ({s},{h}) on ({},{}) were delivered (catch-up slot {start}, SLOTS_PER_EPOCH {e}): the finalized slot must advance to {s}",
            fin, ["notarization votes of >= 80 % of the stake", "notarization and finalization votes of >= 60 % each", "notarization and finalization votes of >= 60 % each", "finalizing certificate(s)"][mode as usize], parent.0, parent.1));
        parent = (s, h);
        if rng.chance(1, 6) { run.recover(sim); }
    }
    run.recover(sim);
}

fn gen_case(run: &mut Run, sim: &mut Sim, rng: &mut Rng, plan: &str) {
    let n = sim.n;
    let base: u64 = if rng.chance(1, 4) { rng.range(1, 9) } else { 1 };
    let nslots = rng.range(1, 6);
    // block tree: per slot 1..3 blocks with parents in earlier slots (or genesis)
    // the competing blocks of one slot are the members of one hash group (`advhash`: they differ in a single byte,
    // early or late depending on the group); ascending ids = ascending slots
    let mut blocks: Vec<(u64, usize, u64, usize)> = Vec::new();
    let goff = rng.below(10) as usize;
    for (k, s) in (base..base + nslots).enumerate() {
        let mut next_h = advhash::GROUP as usize * (goff + k) + 1;
        for _ in 0..rng.range(1, 3) {
            let cands: Vec<(u64, usize)> = blocks.iter().filter(|b| b.0 < s).map(|b| (b.0, b.1)).collect();
            let p = if cands.is_empty() || rng.chance(1, 6) { (0u64, 0usize) } else { *rng.pick(&cands) };
            blocks.push((s, next_h, p.0, p.1));
            next_h += 1;
        }
    }
    let steps = match plan { "mixed" => 70, "chain" => 60, _ => 50 };
    // per-validator plan of legit votes for plan "legit"
    let mut scripted: Vec<(K, u64, usize, usize, bool)> = Vec::new();
    match plan {
        "legit" => {
            for v in 0..n {
                for s in base..base + nslots {
                    let bs: Vec<usize> = blocks.iter().filter(|b| b.0 == s).map(|b| b.1).collect();
                    let mut votes: Vec<(K, u64, usize, usize, bool)> = Vec::new();
                    match rng.below(3) {
                        0 => { // notar b, nf for other blocks, sf
                            let b = *rng.pick(&bs);
                            votes.push((K::Notar, s, b, v, true));
                            for &o in &bs { if o != b && rng.chance(1, 2) { votes.push((K::Nf, s, o, v, true)); } }
                            if rng.chance(1, 2) { votes.push((K::Sf, s, 0, v, true)); }
                        }
                        1 => { // skip, nf for blocks
                            votes.push((K::Skip, s, 0, v, true));
                            for &o in &bs { if rng.chance(1, 2) { votes.push((K::Nf, s, o, v, true)); } }
                        }
                        _ => { let b = *rng.pick(&bs); votes.push((K::Notar, s, b, v, true)); votes.push((K::Final, s, 0, v, true)); }
                    }
                    scripted.extend(votes);
                }
            }
            rng.shuffle(&mut scripted);
        }
        "conflicts" => {
            for _ in 0..steps {
                let v = rng.below(n.min(3) as u64) as usize; // few validators => many conflicts
                let s = base + rng.below(nslots.min(2));
                let bs: Vec<usize> = blocks.iter().filter(|b| b.0 == s).map(|b| b.1).collect();
                let k = *rng.pick(&K::all());
                scripted.push((k, s, *rng.pick(&bs), v, false));
            }
        }
        _ => {}
    }
    if !scripted.is_empty() {
        for (k, s, h, v, legit) in scripted { run.vote(sim, k, s, h, v, legit); if rng.chance(1, 40) { run.recover(sim); } }
        return;
    }
    // target-directed generation: pick a goal, emit the votes that reach it in random order, interleave noise
    let mut queue: Vec<(u8, K, CK, u64, usize, Vec<usize>, Vec<usize>, (u64, usize))> = Vec::new(); // tagged ops
    let push_votes = |q: &mut Vec<_>, k: K, s: u64, h: usize, vs: &[usize]| { for &v in vs { q.push((0u8, k, CK::Notar, s, h, vec![v], vec![], (0, 0))); } };
    for &(s, h, ps, ph) in &blocks {
        if rng.chance(5, 6) { queue.push((2, K::Notar, CK::Notar, s, h, vec![], vec![], (ps, ph))); }
    }
    for s in base..base + nslots {
        let bs: Vec<usize> = blocks.iter().filter(|b| b.0 == s).map(|b| b.1).collect();
        let main_b = *rng.pick(&bs);
        match plan {
            "quorums" | "chain" => {
                let kind = rng.below(if plan == "chain" { 3 } else { 6 });
                match kind {
                    0 => { let vs = subset_reaching(sim, rng, 4); push_votes(&mut queue, K::Notar, s, main_b, &vs); let fs = subset_reaching(sim, rng, 3); push_votes(&mut queue, K::Final, s, 0, &fs); }
                    1 => { let vs = subset_reaching(sim, rng, 3); push_votes(&mut queue, K::Notar, s, main_b, &vs); let fs = subset_reaching(sim, rng, 3); push_votes(&mut queue, K::Final, s, 0, &fs); }
                    2 => { let vs = subset_reaching(sim, rng, 3); push_votes(&mut queue, K::Skip, s, 0, &vs); }
                    3 => { // notar + nf combine
                        let all = subset_reaching(sim, rng, 3); let cut = rng.below(all.len() as u64 + 1) as usize;
                        push_votes(&mut queue, K::Notar, s, main_b, &all[..cut]); push_votes(&mut queue, K::Nf, s, main_b, &all[cut..]);
                    }
                    4 => { let all = subset_reaching(sim, rng, 3); let cut = rng.below(all.len() as u64 + 1) as usize;
                        push_votes(&mut queue, K::Skip, s, 0, &all[..cut]); push_votes(&mut queue, K::Sf, s, 0, &all[cut..]); }
                    _ => { // received certificates
                        let ck = *rng.pick(&[CK::Notar, CK::Nf, CK::Skip, CK::Ff, CK::Final]);
                        let a = subset_reaching(sim, rng, if ck == CK::Ff { 4 } else { 3 });
                        let (a, b) = if matches!(ck, CK::Nf | CK::Skip) { let cut = rng.below(a.len() as u64 + 1) as usize; (a[..cut].to_vec(), a[cut..].to_vec()) } else { (a, vec![]) };
                        queue.push((1, K::Notar, ck, s, main_b, a, b, (0, 0)));
                        let vs = subset_reaching(sim, rng, 3); push_votes(&mut queue, K::Notar, s, main_b, &vs);
                    }
                }
            }
            "s2n" | "s2s" => {
                // split the validators between blocks and skip so that 20% / 40% / 60% clauses are straddled
                let mut order: Vec<usize> = (0..n).collect();
                rng.shuffle(&mut order);
                for v in order {
                    match rng.below(10) {
                        0..=3 => queue.push((0, K::Notar, CK::Notar, s, main_b, vec![v], vec![], (0, 0))),
                        4..=5 => queue.push((0, K::Notar, CK::Notar, s, *rng.pick(&bs), vec![v], vec![], (0, 0))),
                        6..=8 => queue.push((0, K::Skip, CK::Notar, s, 0, vec![v], vec![], (0, 0))),
                        _ => {}
                    }
                }
                // parent certificates: by votes or by received certificate
                for &(bs_, _bh, ps, ph) in blocks.iter().filter(|b| b.0 == s) {
                    let _ = bs_;
                    if ps == 0 { continue; }
                    if rng.chance(1, 2) {
                        let ck = *rng.pick(&[CK::Notar, CK::Nf, CK::Ff]);
                        let a = subset_reaching(sim, rng, if ck == CK::Ff { 4 } else { 3 });
                        queue.push((1, K::Notar, ck, ps, ph, a, vec![], (0, 0)));
                    }
                }
            }
            _ => {
                for _ in 0..steps / nslots as usize {
                    let k = *rng.pick(&K::all());
                    queue.push((0, k, CK::Notar, s, *rng.pick(&bs), vec![rng.below(n as u64) as usize], vec![], (0, 0)));
                }
                if rng.chance(1, 2) {
                    let ck = *rng.pick(&[CK::Notar, CK::Nf, CK::Skip, CK::Ff, CK::Final]);
                    let a = subset_reaching(sim, rng, if ck == CK::Ff { 4 } else { 3 });
                    queue.push((1, K::Notar, ck, s, main_b, a, vec![], (0, 0)));
                }
            }
        }
    }
    // arrival order: mostly slot-local shuffles, sometimes fully shuffled (children before parents, etc.)
    if rng.chance(1, 2) { rng.shuffle(&mut queue); } else {
        let len = queue.len();
        for i in 0..len { let j = (i + rng.below(8) as usize).min(len - 1); queue.swap(i, j); }
    }
    let recover_every = if plan == "chain" || run.focus == "C18" { 5 } else { 25 };
    if run.focus == "C18" && rng.chance(1, 3) { run.recover(sim); }
    for (tag, k, ck, s, h, a, b, par) in queue {
        match tag {
            0 => { run.vote(sim, k, s, h, a[0], false); if rng.chance(1, 12) { run.vote(sim, k, s, h, a[0], false); } }
            1 => run.cert(sim, ck, s, h, &a, &b),
            _ => run.block(sim, (s, h), par),
        }
        if rng.chance(1, recover_every) { run.recover(sim); }
    }
    run.recover(sim);
}
