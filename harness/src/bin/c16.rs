//! C16 — routing agreement and loss-free coverage: correspondence with `AgModel.Route` + property
//! oracle on the real `Rotor` / `Turbine` / `TrivialDisseminator` driven over a recording `Network`.
//!
//! Every validator gets *two independently constructed* disseminator instances (A, B).  A is queried
//! in generation order with a cold cache, B in a shuffled order with every query repeated (warm
//! cache).  Observations are the destination addresses handed to `Network::send`/`send_to_many` by
//! `Disseminator::send` / `forward`.
//!
//! ops (one output line each; see `lean/Driver/C16.lean`):
//!   rotor n slot c0 … c63 | rsend s | rfwd own s | rrun s
//!   turbine n f p0 … p(n-1) | tsend | tfwd own | trun
//!   trivial n | trivrun n | idx slice shred
//! The committee / permutation given to the model is the one *observed* on the real code (the RNG,
//! the samplers and the weighted shuffle are parameters of the model); the model then has to
//! reproduce every send / forward destination list and the complete FIFO delivery sequence.
use std::collections::VecDeque;
use std::net::{IpAddr, Ipv4Addr, SocketAddr};
use std::sync::{Arc, Mutex};

use ag_harness::*;
use alpenglow::consensus::{EpochInfo, ValidatorEpochInfo};
use alpenglow::crypto::{aggsig, signature};
use alpenglow::disseminator::rotor::{QuorumSamplingStrategy, SamplingStrategy, StakeWeightedSampler};
use alpenglow::disseminator::verif_hooks::{set_shred_position, shred_position};
use alpenglow::disseminator::{Disseminator, Rotor, TrivialDisseminator, Turbine};
use alpenglow::network::Network;
use alpenglow::shredder::{RegularShredder, Shred, Shredder, TOTAL_SHREDS};
use alpenglow::types::slice::create_slice_with_invalid_txs;
use alpenglow::types::Slot;
use alpenglow::{Stake, ValidatorIndex, ValidatorInfo};
use alpenglow::all2all::TrivialAll2All;
use alpenglow::consensus::{Alpenglow, Cert, ConsensusMessage, FastFinalCert, FinalCert, FinalVote, NotarCert, NotarVote, Pool, PoolImpl, ValidatedCert};
use alpenglow::crypto::merkle::{DoubleMerkleTree, SliceRoot};
use alpenglow::network::UdpNetwork;
use alpenglow::repair::{RepairRequest, RepairResponse};
use alpenglow::types::{Slice, SliceIndex};
use alpenglow::Transaction;

// ---------------------------------------------------------------- recording network

#[derive(Clone, Default)]
struct RecNet {
    log: Arc<Mutex<Vec<SocketAddr>>>,
}

impl Network for RecNet {
    type Send = Shred;
    type Recv = Shred;
    async fn send(&self, _m: &Shred, addr: SocketAddr) -> std::io::Result<()> {
        self.log.lock().unwrap().push(addr);
        Ok(())
    }
    async fn send_to_many(&self, _m: &Shred, addrs: impl IntoIterator<Item = SocketAddr> + Send) -> std::io::Result<()> {
        let v: Vec<SocketAddr> = addrs.into_iter().collect();
        self.log.lock().unwrap().extend(v);
        Ok(())
    }
    async fn receive(&self) -> std::io::Result<Shred> {
        std::future::pending().await
    }
}

fn addr_of(i: usize) -> SocketAddr {
    SocketAddr::new(IpAddr::V4(Ipv4Addr::new(10, (i >> 16) as u8, (i >> 8) as u8, i as u8)), 7000)
}
fn idx_of(a: &SocketAddr) -> usize {
    match a.ip() {
        IpAddr::V4(ip) => {
            let o = ip.octets();
            ((o[1] as usize) << 16) | ((o[2] as usize) << 8) | o[3] as usize
        }
        IpAddr::V6(_) => usize::MAX,
    }
}

/// result of one send/forward call on the real code
#[derive(Clone, PartialEq, Eq, Debug)]
enum Out {
    To(Vec<usize>),
    Panic(String),
}
impl Out {
    fn line(&self) -> String {
        match self {
            Out::To(d) => d.iter().fold("to".to_string(), |s, x| s + " " + &x.to_string()),
            Out::Panic(_) => "panic".to_string(),
        }
    }
    fn dests(&self) -> &[usize] {
        match self {
            Out::To(d) => d,
            Out::Panic(_) => &[],
        }
    }
}

struct Env {
    rt: tokio::runtime::Runtime,
    template: Shred,
    pk: signature::PublicKey,
    vpk: aggsig::PublicKey,
}

impl Env {
    fn new(rng: &mut Rng) -> Self {
        let sk = signature::SecretKey::new(rng);
        let vsk = aggsig::SecretKey::new(rng);
        let slice = create_slice_with_invalid_txs(200);
        let shreds = RegularShredder::default().shred(&slice, &sk).expect("shred");
        let template = shreds[0].as_shred().clone();
        Env { rt: tokio::runtime::Builder::new_current_thread().enable_all().build().expect("rt"), template, pk: sk.to_pk(), vpk: vsk.to_pk() }
    }
    fn validators(&self, stakes: &[u64]) -> Vec<ValidatorInfo> {
        stakes
            .iter()
            .enumerate()
            .map(|(i, s)| ValidatorInfo {
                id: ValidatorIndex::new(i as u64),
                stake: Stake::new(*s),
                pubkey: self.pk,
                voting_pubkey: self.vpk,
                all2all_address: addr_of(i),
                disseminator_address: addr_of(i),
                repair_requester_address: addr_of(i),
                repair_responder_address: addr_of(i),
            })
            .collect()
    }
    fn shred(&self, slot: u64, slice: usize, index: usize) -> Shred {
        let mut s = self.template.clone();
        assert!(set_shred_position(&mut s, Slot::new(slot), slice, index), "position in range");
        let (a, b, c) = shred_position(&s);
        assert_eq!((a.inner(), b, c), (slot, slice, index));
        s
    }
    fn call<D: Disseminator>(&self, d: &D, net: &RecNet, shred: &Shred, forward: bool) -> Out {
        net.log.lock().unwrap().clear();
        let r = catch(|| self.rt.block_on(async { if forward { d.forward(shred).await } else { d.send(shred).await } }));
        let dests: Vec<usize> = net.log.lock().unwrap().drain(..).map(|a| idx_of(&a)).collect();
        match r {
            Ok(Ok(())) => Out::To(dests),
            Ok(Err(e)) => Out::Panic(format!("io error {e}")),
            Err(m) => Out::Panic(m),
        }
    }
}

// ---------------------------------------------------------------- stake shapes

fn stakes(shape: &str, n: usize, rng: &mut Rng) -> Vec<u64> {
    match shape {
        "equal1" => vec![1; n],
        "equalbig" => vec![1_000_000_007; n],
        "small" => (0..n).map(|_| rng.range(1, 5)).collect(),
        "heavy" => (0..n).map(|i| 1 + 4_000_000_000_000_000 / ((i as u64 + 1) * (i as u64 + 1))).collect(),
        "whale" => (0..n).map(|i| if i == n / 2 { 9 * n as u64 * 1000 } else { 1000 + rng.below(10) }).collect(),
        // stakes straddling j/64 of the total
        "straddle" => {
            let unit = 1000u64;
            (0..n).map(|i| match i % 4 { 0 => unit - 1, 1 => unit, 2 => unit + 1, _ => 2 * unit + rng.below(3) - 1 }).collect()
        }
        "somezero" => (0..n).map(|i| if i % 3 == 1 && n > 1 { 0 } else { rng.range(1, 1000) }).collect(),
        _ => (0..n).map(|_| rng.range(1, 1 << 32)).collect(),
    }
}

// ---------------------------------------------------------------- context

struct Ctx<'a> {
    rec: Recorder,
    env: &'a Env,
    thorough: bool,
    /// constructor panics recorded so far per (constructor, panic site): the recorder keeps at most
    /// 200 failures, a flood of one known class must not push other failures out of the report
    recorded: std::collections::BTreeMap<String, u32>,
}

fn list(v: &[usize]) -> String {
    v.iter().map(|x| x.to_string()).collect::<Vec<_>>().join(" ")
}

/// FIFO loss-free run on recorded forward tables; returns (delivery sequence, completed)
fn fifo(start: &Out, fwd: &dyn Fn(usize) -> Out, fuel: usize) -> (Vec<usize>, bool) {
    let mut q: VecDeque<usize> = start.dests().iter().copied().collect();
    if matches!(start, Out::Panic(_)) {
        return (vec![], false);
    }
    let mut out = vec![];
    let mut fuel = fuel;
    while let Some(v) = q.pop_front() {
        if fuel == 0 {
            return (out, false);
        }
        fuel -= 1;
        out.push(v);
        match fwd(v) {
            Out::To(ds) => q.extend(ds),
            Out::Panic(_) => return (out, false),
        }
    }
    (out, true)
}

/// the property on a finished run: every validator but the leader received exactly once; the leader
/// at most once.
fn coverage_ok(n: usize, leader: usize, deliveries: &[usize], completed: bool) -> Result<(), String> {
    if !completed {
        return Err("run did not complete (panic or unbounded forwarding)".into());
    }
    let mut cnt = vec![0usize; n];
    for &d in deliveries {
        if d >= n {
            return Err(format!("delivery to unknown address {d}"));
        }
        cnt[d] += 1;
    }
    for (v, c) in cnt.iter().enumerate() {
        if v != leader && *c != 1 {
            return Err(format!("validator {v} received the shred {c} times"));
        }
        if v == leader && *c > 1 {
            return Err(format!("leader {v} received its own shred {c} times"));
        }
    }
    Ok(())
}

// ---------------------------------------------------------------- Rotor

#[allow(clippy::too_many_arguments)]
fn rotor_case<S, F>(cx: &mut Ctx, rng: &mut Rng, ctor: &str, quorum: usize, shape: &str, st: &[u64], positions: &[(u64, usize)], mk: F)
where
    S: QuorumSamplingStrategy + Send + Sync + 'static,
    F: Fn(RecNet, Arc<ValidatorEpochInfo>) -> Rotor<RecNet, S>,
{
    let n = st.len();
    let env = cx.env;
    let epoch = EpochInfo::new(env.validators(st));
    let desc = format!("Rotor::{ctor} n={n} stakes={shape}{:?}", &st[..n.min(8)]);
    cx.rec.begin_case(&format!("rotor-{ctor}-{shape}-{n}"));
    let mut class = fnv(0, &format!("{ctor}{shape}{n}"));
    // queries: every shred index of every position
    let queries: Vec<(u64, usize, usize)> = positions.iter().flat_map(|&(sl, sc)| (0..TOTAL_SHREDS).map(move |s| (sl, sc, s))).collect();
    let shreds: Vec<Shred> = queries.iter().map(|&(a, b, c)| env.shred(a, b, c)).collect();
    // per validator: two instances
    let mut sends: Vec<Vec<Out>> = Vec::with_capacity(n); // [v][q]  relay as seen by v
    let mut fwds: Vec<Vec<Out>> = Vec::with_capacity(n); // [v][q]
    let mut ctor_panic: Option<String> = None;
    for v in 0..n {
        let info = Arc::new(ValidatorEpochInfo::new(ValidatorIndex::new(v as u64), epoch.clone()));
        let (na, nb) = (RecNet::default(), RecNet::default());
        let a = match catch(|| mk(na.clone(), info.clone())) {
            Ok(a) => a,
            Err(m) => {
                ctor_panic = Some(m);
                break;
            }
        };
        let b = match catch(|| mk(nb.clone(), info.clone())) {
            Ok(b) => b,
            Err(m) => {
                ctor_panic = Some(m);
                break;
            }
        };
        let sa: Vec<Out> = shreds.iter().map(|s| env.call(&a, &na, s, false)).collect();
        let fa: Vec<Out> = shreds.iter().map(|s| env.call(&a, &na, s, true)).collect();
        // B: shuffled order, every query twice, forward before send
        let mut order: Vec<usize> = (0..queries.len()).collect();
        rng.shuffle(&mut order);
        let mut agree = true;
        let mut first_bad = String::new();
        for &q in &order {
            for rep in 0..2 {
                let fb = env.call(&b, &nb, &shreds[q], true);
                let sb = env.call(&b, &nb, &shreds[q], false);
                if (fb != fa[q] || sb != sa[q]) && agree {
                    agree = false;
                    first_bad = format!("query (slot,slice,shred)={:?} rep {rep}: instance A send={} forward={} ; instance B send={} forward={}", queries[q], sa[q].line(), fa[q].line(), sb.line(), fb.line());
                }
            }
        }
        cx.rec.oracle(agree, &format!("rotor-{ctor}-instances-disagree"), || format!("{desc}: two independently constructed instances of validator {v} route differently: {first_bad}"));
        sends.push(sa);
        fwds.push(fa);
    }
    if let Some(m) = ctor_panic {
        cx.rec.count(&format!("rotor-{ctor}:ctor-panic"));
        let site: String = m.chars().filter(|c| !c.is_ascii_digit()).take(60).collect();
        let cnt = cx.recorded.entry(format!("{ctor}|{site}")).or_default();
        *cnt += 1;
        if *cnt <= 6 {
            cx.rec.oracle(false, &format!("rotor-{ctor}-construct-panics"), || format!("{desc}: constructor panicked: {m}"));
        } else {
            cx.rec.oracle_checks += 1;
            cx.rec.count(&format!("oracle_fail_not_recorded(same class as 6 recorded):rotor-{ctor}-construct-panics|{site}"));
        }
        cx.rec.step("idx 0 0", "idx 0");
        cx.rec.end_case(class, false);
        return;
    }
    let mut all_ok = true;
    for (pi, &(slot, slice)) in positions.iter().enumerate() {
        let ldr = epoch.leader(Slot::new(slot)).id.as_usize();
        let base = pi * TOTAL_SHREDS;
        // committee as the leader's instance sees it
        let committee: Vec<Option<usize>> = (0..TOTAL_SHREDS).map(|s| sends[ldr][base + s].dests().first().copied()).collect();
        let cl: Vec<usize> = committee.iter().map(|c| c.unwrap_or(usize::MAX >> 1)).collect();
        cx.rec.step(&format!("rotor {n} {slot} {}", list(&cl)), &format!("leader {ldr}"));
        cx.rec.step(&format!("idx {slice} 63"), &format!("idx {}", env.shred(slot, slice, 63).payload().index_in_slot()));
        let shred_ids: Vec<usize> = if cx.thorough || n <= 8 { (0..TOTAL_SHREDS).collect() } else { vec![0, 1, 31, 32, 63, rng.below(64) as usize] };
        for &s in &shred_ids {
            let q = base + s;
            // all validators agree with the leader on the relay of this shred
            let relay_views: Vec<String> = (0..n).map(|v| sends[v][q].line()).collect();
            let agree = relay_views.iter().all(|l| *l == relay_views[ldr]);
            cx.rec.oracle(agree, &format!("rotor-{ctor}-relay-disagree"), || {
                let other = (0..n).find(|&v| relay_views[v] != relay_views[ldr]).unwrap_or(0);
                format!("{desc}: (slot {slot}, slice {slice}, shred {s}): leader {ldr} computes relay `{}`, validator {other} computes `{}`", relay_views[ldr], relay_views[other])
            });
            cx.rec.step(&format!("rsend {s}"), &sends[ldr][q].line());
            let relay = committee[s];
            // forward of relay, leader and a few others
            let mut owns: Vec<usize> = if n <= 70 { (0..n).collect() } else { (0..6).map(|_| rng.below(n as u64) as usize).collect() };
            owns.push(ldr);
            if let Some(r) = relay {
                owns.push(r);
            }
            owns.sort();
            owns.dedup();
            for &o in &owns {
                cx.rec.step(&format!("rfwd {o} {s}"), &fwds[o][q].line());
            }
            // exactly one relay broadcast
            let broadcasters: Vec<usize> = (0..n).filter(|&v| !fwds[v][q].dests().is_empty() || matches!(fwds[v][q], Out::Panic(_))).collect();
            let expect_ok = s < quorum; // beyond the sampler's quorum size `committee[shred]` panics (malformed configuration)
            let one = !expect_ok || n <= 2 || broadcasters.len() == 1 && Some(broadcasters[0]) == relay;
            // (with n <= 2 the relay has nobody left to broadcast to)
            cx.rec.oracle(one, &format!("rotor-{ctor}-not-exactly-one-relay-broadcast"), || format!("{desc}: (slot {slot}, slice {slice}, shred {s}): leader {ldr} sent to {relay:?} but validators {broadcasters:?} broadcast"));
            // full run
            let (del, done) = fifo(&sends[ldr][q], &|v| if v < n { fwds[v][q].clone() } else { Out::Panic("unknown".into()) }, 4 * n + 8);
            cx.rec.step(&format!("rrun {s}"), &format!("{} {}", if done { "deliver" } else { "deliver-incomplete" }, list(&del)).trim_end().to_string());
            let cov = coverage_ok(n, ldr, &del, done);
            all_ok &= (cov.is_ok() || !expect_ok) && one && agree;
            if !expect_ok {
                cx.rec.count("rotor:index-beyond-quorum-panics-as-expected");
                continue;
            }
            cx.rec.oracle(cov.is_ok(), &format!("rotor-{ctor}-coverage"), || format!("{desc}: (slot {slot}, slice {slice}, shred {s}), leader {ldr}, relay {relay:?}: {}", cov.clone().unwrap_err()));
            class = fnv(class, &format!("{}{}", relay == Some(ldr), del.len()));
        }
    }
    cx.rec.count(&format!("rotor-{ctor}:{}", if all_ok { "covered" } else { "failed" }));
    cx.rec.end_case(class, n >= 2 && all_ok);
}

// ---------------------------------------------------------------- Turbine

fn turbine_case(cx: &mut Ctx, rng: &mut Rng, shape: &str, st: &[u64], fanout: usize, positions: &[(u64, usize, usize)]) {
    let n = st.len();
    let env = cx.env;
    let epoch = EpochInfo::new(env.validators(st));
    let desc = format!("Turbine n={n} fanout={fanout} stakes={shape}{:?}", &st[..n.min(8)]);
    cx.rec.begin_case(&format!("turbine-{shape}-{n}-f{}", if fanout > 1 << 32 { "max".to_string() } else { fanout.to_string() }));
    let mut class = fnv(0, &format!("t{shape}{n}{fanout}"));
    let shreds: Vec<Shred> = positions.iter().map(|&(a, b, c)| env.shred(a, b, c)).collect();
    let mut sends: Vec<Vec<Out>> = Vec::with_capacity(n);
    let mut fwds: Vec<Vec<Out>> = Vec::with_capacity(n);
    for v in 0..n {
        let info = Arc::new(ValidatorEpochInfo::new(ValidatorIndex::new(v as u64), epoch.clone()));
        let (na, nb) = (RecNet::default(), RecNet::default());
        let a = Turbine::new(na.clone(), info.clone()).with_fanout(fanout);
        let b = Turbine::new(nb.clone(), info.clone()).with_fanout(fanout);
        let sa: Vec<Out> = shreds.iter().map(|s| env.call(&a, &na, s, false)).collect();
        let fa: Vec<Out> = shreds.iter().map(|s| env.call(&a, &na, s, true)).collect();
        let mut order: Vec<usize> = (0..shreds.len()).collect();
        rng.shuffle(&mut order);
        let mut agree = true;
        let mut first_bad = String::new();
        for &q in &order {
            for rep in 0..2 {
                let fb = env.call(&b, &nb, &shreds[q], true);
                let sb = env.call(&b, &nb, &shreds[q], false);
                if (fb != fa[q] || sb != sa[q]) && agree {
                    agree = false;
                    first_bad = format!("query (slot,slice,shred)={:?} rep {rep}: A send={} forward={} ; B send={} forward={}", positions[q], sa[q].line(), fa[q].line(), sb.line(), fb.line());
                }
            }
        }
        cx.rec.oracle(agree, "turbine-instances-disagree", || format!("{desc}: two independently constructed instances of validator {v} route differently: {first_bad}"));
        sends.push(sa);
        fwds.push(fa);
    }
    let mut all_ok = true;
    for (q, &(slot, slice, s)) in positions.iter().enumerate() {
        let ldr = epoch.leader(Slot::new(slot)).id.as_usize();
        // everybody agrees on the root
        let views: Vec<String> = (0..n).map(|v| sends[v][q].line()).collect();
        let agree = views.iter().all(|l| *l == views[ldr]);
        let expect_ok = fanout >= 1 && (n as u128) * (fanout as u128) + 1 < 1u128 << 64;
        cx.rec.oracle(agree || !expect_ok, "turbine-root-disagree", || {
            let other = (0..n).find(|&v| views[v] != views[ldr]).unwrap_or(0);
            format!("{desc}: (slot {slot}, slice {slice}, shred {s}): leader {ldr} computes root `{}`, validator {other} computes `{}`", views[ldr], views[other])
        });
        // reconstruct the permutation: FIFO order of the forwarding graph from the root
        let (del, done) = fifo(&sends[ldr][q], &|v| if v < n { fwds[v][q].clone() } else { Out::Panic("unknown".into()) }, 4 * n + 8);
        // the permutation handed to the model: the same FIFO order, but looking through panics
        // (degenerate fanouts) and starting from any root some instance reports; validators that
        // are never reached (their position is unobservable) are appended in ascending order.
        let any_root = (0..n).find_map(|v| sends[v][q].dests().first().copied()).map(|r| Out::To(vec![r])).unwrap_or(Out::To(vec![]));
        let (mut perm, _) = fifo(&any_root, &|v| if v < n { Out::To(fwds[v][q].dests().to_vec()) } else { Out::To(vec![]) }, 4 * n + 8);
        let mut seen = vec![false; n];
        perm.retain(|&d| d < n && !std::mem::replace(&mut seen[d], true));
        perm.extend((0..n).filter(|&v| !seen[v]));
        let is_perm = {
            let mut s2 = vec![false; n];
            del.len() == n && del.iter().all(|&d| d < n && !std::mem::replace(&mut s2[d], true))
        };
        cx.rec.step(&format!("turbine {n} {fanout} {}", list(&perm)), "perm true");
        cx.rec.step(&format!("idx {slice} {s}"), &format!("idx {}", shreds[q].payload().index_in_slot()));
        let owns: Vec<usize> = if n <= 70 || cx.thorough && n <= 300 {
            (0..n).collect()
        } else {
            let mut o: Vec<usize> = (0..10).map(|_| rng.below(n as u64) as usize).collect();
            o.extend(perm.iter().take(3));
            o.extend(perm.iter().rev().take(2));
            o.push(ldr);
            o.sort();
            o.dedup();
            o
        };
        for &o in &owns {
            cx.rec.step(&format!("tsend {o}"), &sends[o][q].line());
            cx.rec.step(&format!("tfwd {o}"), &fwds[o][q].line());
        }
        cx.rec.step(&format!("trun {ldr}"), &format!("{} {}", if done { "deliver" } else { "deliver-incomplete" }, list(&del)).trim_end().to_string());
        let _ = is_perm;
        let cov = coverage_ok(n, usize::MAX, &del, done);
        cx.rec.count(&format!("turbine:{}", if cov.is_ok() { "covered" } else if expect_ok { "failed" } else { "failed-as-expected-degenerate-fanout" }));
        if expect_ok {
            all_ok &= cov.is_ok() && agree;
            cx.rec.oracle(cov.is_ok(), "turbine-coverage", || format!("{desc}: (slot {slot}, slice {slice}, shred {s}), leader {ldr}, root {}: {}", views[ldr], cov.clone().unwrap_err()));
        } else {
            all_ok = false;
        }
        class = fnv(class, &format!("{}{}", del.len(), del.first().copied().unwrap_or(0) == ldr));
    }
    cx.rec.end_case(class, n >= 2 && all_ok);
}

// ---------------------------------------------------------------- trivial

fn trivial_case(cx: &mut Ctx, st: &[u64], slot: u64) {
    let n = st.len();
    let env = cx.env;
    let vals = env.validators(st);
    let epoch = EpochInfo::new(vals.clone());
    let ldr = epoch.leader(Slot::new(slot)).id.as_usize();
    cx.rec.begin_case(&format!("trivial-{n}"));
    let net = RecNet::default();
    let d = TrivialDisseminator::new(vals, net.clone());
    let sh = env.shred(slot, 0, 0);
    let send = env.call(&d, &net, &sh, false);
    let fwd = env.call(&d, &net, &sh, true);
    cx.rec.step(&format!("trivial {n}"), &send.line());
    let (del, done) = fifo(&send, &|_| fwd.clone(), 4 * n + 8);
    cx.rec.step(&format!("trivrun {n}"), &format!("deliver {}", list(&del)).trim_end().to_string());
    let cov = coverage_ok(n, ldr, &del, done);
    cx.rec.oracle(cov.is_ok(), "trivial-coverage", || format!("TrivialDisseminator n={n}: {}", cov.clone().unwrap_err()));
    cx.rec.end_case(fnv(0, &format!("triv{n}")), n >= 2);
}

/// The receive path of a real node (`Alpenglow::handle_disseminator_shred`, single-stepped through the verif hook)
/// must hand every authentic shred to `Disseminator::forward` — also when the node is the slot's leader and was
/// sampled as relay for its own shred, and whatever the node already holds of the block when the shred arrives —
/// so that the loss-free run of the forwarding tables is what nodes really do.
/// Oracle: for every shred of a leader-signed slice, the addresses the node's disseminator sends to equal those of
/// a bare `forward` on an independently built instance of the same validator.
///
/// `order` (arrival order of the shreds of the 1-3 slice block of each slot):
///   0 index order, slice after slice;  1 per slice: the shreds this node does not have to forward first, its own last;
///   2 of every slice the shreds of others first (block complete), then all shreds this node has to forward;
///   3 one random permutation of all shreds.
/// `complete`: the last slice carries the last-slice marker, so the block is reconstructed once 32 shreds of every
/// slice are in (without it the blockstore never completes the slot). In its own slot the node holds the block
/// beforehand when `own_first` (the leader's `add_own_slice` of every slice), its shreds then come back by loopback.
/// `finalize` > 0: while the shreds are arriving the node learns over all-to-all that the slot is finalized (the other
/// validators decoded the block from 32 of the 64 shreds of every slice and voted): 1 a fast-finalization certificate,
/// 2 notarization then finalization certificate, 3 finalization then notarization certificate - before the first shred
/// the node has to forward arrives (orders 1, 2), or at a random early point, every fourth time before any shred. The
/// shreds it is responsible for must be forwarded exactly as otherwise.
fn node_glue_case<D: Disseminator + Send + Sync + 'static>(cx: &mut Ctx, rng: &mut Rng, own: usize, n: usize, kind: &str, mk: &dyn Fn(RecNet, Arc<ValidatorEpochInfo>) -> D, order: usize, complete: bool, own_first: bool, finalize: usize) {
    let env = cx.env;
    cx.rec.begin_case(&format!("node-glue {kind} own={own} n={n} order={order} complete={complete} own-first={own_first} finalize={finalize}"));
    let sks: Vec<signature::SecretKey> = (0..n).map(|_| signature::SecretKey::new(rng)).collect();
    let vsks: Vec<aggsig::SecretKey> = (0..n).map(|_| aggsig::SecretKey::new(rng)).collect();
    let validators: Vec<ValidatorInfo> = (0..n)
        .map(|i| ValidatorInfo {
            id: ValidatorIndex::new(i as u64),
            stake: Stake::new(1 + (i as u64 % 3)),
            pubkey: sks[i].to_pk(),
            voting_pubkey: vsks[i].to_pk(),
            all2all_address: addr_of(i),
            disseminator_address: addr_of(i),
            repair_requester_address: addr_of(i),
            repair_responder_address: addr_of(i),
        })
        .collect();
    let epoch = EpochInfo::new(validators.clone());
    let vei = Arc::new(ValidatorEpochInfo::new(ValidatorIndex::new(own as u64), epoch.clone()));
    let net_node = RecNet::default();
    let net_ref = RecNet::default();
    let (node, reference) = {
        let _g = env.rt.enter();
        let a2a: UdpNetwork<ConsensusMessage, ConsensusMessage> = UdpNetwork::new_with_any_port();
        let rq: UdpNetwork<RepairRequest, RepairResponse> = UdpNetwork::new_with_any_port();
        let rp: UdpNetwork<RepairResponse, RepairRequest> = UdpNetwork::new_with_any_port();
        let txs: UdpNetwork<Transaction, Transaction> = UdpNetwork::new_with_any_port();
        let node = Alpenglow::new(sks[own].clone(), vsks[own].clone(), TrivialAll2All::new(validators.clone(), a2a), mk(net_node.clone(), vei.clone()), rq, rp, vei.clone(), txs);
        (node, mk(net_ref.clone(), vei.clone()))
    };
    let bs = node.verif_blockstore();
    // a pool of the same validator that is given the same certificates (the node's own pool cannot be read)
    let (twin, _twin_ev, _twin_rep) = {
        let (ev_tx, ev_rx) = tokio::sync::mpsc::channel(1 << 12);
        let (rep_tx, rep_rx) = tokio::sync::mpsc::channel(1 << 12);
        (tokio::sync::RwLock::new(PoolImpl::new(vei.clone(), ev_tx, rep_tx)), ev_rx, rep_rx)
    };
    // two slots: one led by the node itself, one led by somebody else
    let mut slots = Vec::new();
    // (certificates are only admitted for slots below finalized + 2 epochs = 36000; the second block names a made-up
    //  block of the slot before it as its parent, which must not be the first slot once that one is finalized)
    let mut s = 4 + rng.below(if finalize > 0 { 20_000 } else { 1 << 16 });
    while slots.len() < 2 {
        let l = epoch.leader(Slot::new(s)).id.as_usize();
        if (slots.is_empty() && l == own) || (slots.len() == 1 && l != own) { slots.push((s, l)); if finalize > 0 { s += 1; } }
        s += 1;
    }
    let mut class = 0u64;
    for (slot, leader) in slots {
        // a block of 1-3 slices (slice 0 names a parent, every slice holds an empty transaction list: 8 zero bytes)
        let nslices = 1 + rng.below(3) as usize;
        let first = if complete { 0 } else { rng.below(3) };
        let mut shreds: Vec<Vec<alpenglow::shredder::ValidatedShred>> = Vec::new();
        let mut payloads = Vec::new();
        for j in 0..nslices {
            let slice_index: SliceIndex = wincode::deserialize(&(first + j as u64).to_le_bytes()).expect("slice index");
            let hb: Vec<u8> = (0..32u64).map(|q| (slot + 7 * q) as u8).collect();
            let parent = if first == 0 && j == 0 { Some((Slot::new(slot - 1), wincode::deserialize(&hb).expect("hash"))) } else { None };
            let mut pb: Vec<u8> = match &parent { None => vec![0], Some(_) => { let mut v = vec![1]; v.extend_from_slice(&(slot - 1).to_le_bytes()); v.extend_from_slice(&hb); v } };
            pb.extend_from_slice(&8u64.to_le_bytes());
            pb.extend_from_slice(&[0u8; 8]);
            payloads.push(pb);
            let slice = Slice { slot: Slot::new(slot), slice_index, is_last: complete && j + 1 == nslices, parent, data: vec![0u8; 8] };
            shreds.push(RegularShredder::default().shred(&slice, &sks[leader]).expect("fits").to_vec());
        }
        // what this node has to send on for each shred (a bare `forward` of an independent instance)
        let wants: Vec<Vec<Out>> = shreds.iter().map(|sl| sl.iter().map(|v| env.call(&reference, &net_ref, v.as_shred(), true)).collect()).collect();
        let mine = |j: usize, i: usize| !wants[j][i].dests().is_empty();
        let mut arrivals: Vec<(usize, usize)> = Vec::new();
        match order {
            0 => for j in 0..nslices { for i in 0..TOTAL_SHREDS { arrivals.push((j, i)); } },
            1 => for j in 0..nslices {
                let mut a: Vec<(usize, usize)> = (0..TOTAL_SHREDS).map(|i| (j, i)).collect();
                rng.shuffle(&mut a);
                a.sort_by_key(|&(j, i)| mine(j, i));
                arrivals.extend(a);
            },
            2 => {
                let mut a: Vec<(usize, usize)> = (0..nslices).flat_map(|j| (0..TOTAL_SHREDS).map(move |i| (j, i))).collect();
                rng.shuffle(&mut a);
                a.sort_by_key(|&(j, i)| mine(j, i));
                arrivals = a;
            }
            _ => {
                arrivals = (0..nslices).flat_map(|j| (0..TOTAL_SHREDS).map(move |i| (j, i))).collect();
                rng.shuffle(&mut arrivals);
            }
        }
        // the certificates that finalize the slot and the arrival before which they are delivered
        let certs: Vec<Cert> = if finalize == 0 { vec![] } else {
            let roots: Vec<SliceRoot> = shreds.iter().map(|sl| sl[0].slice_root().clone()).collect();
            let hash = DoubleMerkleTree::new(roots.iter()).get_root();
            let vi = |i: usize| ValidatorIndex::new(i as u64);
            let nv: Vec<NotarVote> = (0..n).map(|i| NotarVote::new(Slot::new(slot), hash.clone(), &vsks[i], vi(i))).collect();
            let fv: Vec<FinalVote> = (0..n).map(|i| FinalVote::new(Slot::new(slot), &vsks[i], vi(i))).collect();
            match finalize {
                1 => vec![Cert::FastFinal(FastFinalCert::new(&nv, &validators))],
                2 => vec![Cert::Notar(NotarCert::new(&nv, &validators)), Cert::Final(FinalCert::new(&fv, &validators))],
                _ => vec![Cert::Final(FinalCert::new(&fv, &validators)), Cert::Notar(NotarCert::new(&nv, &validators))],
            }
        };
        let cut: Option<usize> = if finalize == 0 { None } else if rng.chance(1, 4) { Some(0) } else {
            match arrivals.iter().position(|&(j, i)| mine(j, i)) {
                Some(p) if order == 1 || order == 2 => Some(p),
                _ => Some(rng.below(arrivals.len() as u64 / 2 + 1) as usize),
            }
        };
        let mut finalized = false;
        let mut after_final = 0;
        if leader == own && own_first {
            for j in 0..nslices {
                let payload = alpenglow::types::slice::SlicePayload::try_from(&payloads[j][..]).expect("slice payload decodes");
                let arr: Box<[alpenglow::shredder::ValidatedShred; TOTAL_SHREDS]> = Box::new(shreds[j].clone().try_into().expect("64 shreds"));
                let r = catch(|| env.rt.block_on(async { bs.write().await.add_own_slice(payload, arr).await }));
                cx.rec.oracle(r.is_ok(), "node-receive-path-does-not-forward", || format!("node {own} of {n}: add_own_slice of slice {j} of its own slot {slot} panicked"));
            }
        }
        let (mut relayed_by_own, mut after_complete) = (0, 0);
        for (pos, &(j, i)) in arrivals.iter().enumerate() {
            if cut == Some(pos) {
                for c in &certs {
                    let r = catch(|| env.rt.block_on(node.verif_handle_all2all_message(ConsensusMessage::Cert(c.clone()))));
                    cx.rec.oracle(r.is_ok(), "node-receive-path-does-not-forward", || format!("{kind} node {own} of {n}: handling a certificate for slot {slot} received over all-to-all panicked: {:?}", r.as_ref().err()));
                    if let Ok(vc) = ValidatedCert::try_new(c.clone(), &epoch) {
                        let _ = catch(|| env.rt.block_on(async { twin.write().await.add_cert(vc).await }));
                    }
                }
                finalized = env.rt.block_on(async { twin.read().await.finalized_slot() }) >= Slot::new(slot);
                cx.rec.count(&format!("node-glue:finalize={finalize}:twin-pool-finalized-the-slot={finalized}"));
            }
            let sh = shreds[j][i].as_shred().clone();
            let want = wants[j][i].clone();
            let held = env.rt.block_on(async { bs.read().await.disseminated_block_hash(Slot::new(slot)).is_some() });
            net_node.log.lock().unwrap().clear();
            let r = catch(|| env.rt.block_on(node.verif_handle_disseminator_shred(sh.clone())));
            let got: Vec<usize> = net_node.log.lock().unwrap().drain(..).map(|a| idx_of(&a)).collect();
            let got = match r { Ok(Ok(())) => Out::To(got), Ok(Err(e)) => Out::Panic(format!("io error {e}")), Err(m) => Out::Panic(m) };
            if !want.dests().is_empty() { relayed_by_own += 1; if held { after_complete += 1; } if finalized { after_final += 1; } }
            let (_, sl, ix) = shred_position(&sh);
            cx.rec.oracle(got == want, "node-receive-path-does-not-forward", || format!("{kind} node {own} of {n} (leader of slot {slot}: {leader}; block of {nslices} slices, arrival order {order}, block already held by the node: {held}, slot finalized in the node's pool by certificates received before (variant {finalize}): {finalized}) handling shred (slot {slot}, slice {sl}, index {ix}) from the disseminator sent to {} but Disseminator::forward of the same validator sends to {}", got.line(), want.line()));
            class = fnv(class, &want.line());
        }
        let done = env.rt.block_on(async { bs.read().await.disseminated_block_hash(Slot::new(slot)).is_some() });
        cx.rec.count(&format!("node-glue:own-is-leader={}:relayed-by-own>0={}", leader == own, relayed_by_own > 0));
        cx.rec.count(&format!("node-glue:own-is-leader={}:block-held-at-the-end={done}:own-duty-after-block-held>0={}", leader == own, after_complete > 0));
        if finalize > 0 { cx.rec.count(&format!("node-glue:own-is-leader={}:own-duty-after-slot-finalized>0={}", leader == own, after_final > 0)); }
    }
    cx.rec.end_case(class, true);
}

fn main() {
    let args = Args::parse();
    quiet_panics();
    let mut rng = Rng::new(args.seed);
    let env = Env::new(&mut rng);
    let mut cx = Ctx { rec: Recorder::new(), env: &env, thorough: args.thorough, recorded: Default::default() };

    let shapes = ["equal1", "equalbig", "small", "heavy", "whale", "straddle", "random"];
    let ns: Vec<usize> = if args.thorough { vec![1, 2, 3, 4, 5, 7, 16, 63, 64, 65, 100, 200, 201, 202, 500, 1000, 2000] } else { vec![1, 2, 3, 5, 16, 64, 65, 200, 201, 1000] };

    // ---- Rotor, both constructors + with_sampler
    for &n in &ns {
        let nshapes = if n >= 500 { 2 } else if args.thorough { shapes.len() } else { 3 };
        for k in 0..nshapes {
            let shape = if n >= 500 || !args.thorough { shapes[(k + rng.below(shapes.len() as u64) as usize) % shapes.len()] } else { shapes[k] };
            let st = stakes(shape, n, &mut rng);
            // positions sharing the slot (different slice) and sharing the slice (different slot): a
            // cache keyed by too little would mix them up
            let (a, b) = if rng.chance(1, 2) { (rng.below(4 * n as u64 + 8), rng.below(4) as usize) } else { (rng.next() >> rng.range(1, 40), rng.below(1023) as usize) };
            let mut positions: Vec<(u64, usize)> = vec![(a, b), (a, b + 1)];
            if n < 500 {
                positions.push((a + 1, b));
            }
            if args.thorough && n < 500 {
                positions.push((rng.below(1 << 20), 1023));
            }
            rotor_case(&mut cx, &mut rng, "new", 64, shape, &st, &positions, Rotor::new);
            rotor_case(&mut cx, &mut rng, "new_fa1", 64, shape, &st, &positions, Rotor::new_fa1);
        }
    }
    // the validator sets on which `Rotor::new_fa1` could not be constructed before fix D8
    // (PartitionSampler left trailing bins empty): now ordinary positive cases
    for st in [vec![1u64; 100], vec![4, 2, 5, 2], vec![2, 5, 4, 2, 4, 5, 3, 1, 2, 2, 3, 1]] {
        let pos = [(rng.below(1000), rng.below(8) as usize)];
        cx.rec.count("rotor-new_fa1:former-D8-shape");
        rotor_case(&mut cx, &mut rng, "new_fa1", 64, "formerd8", &st, &pos, Rotor::new_fa1);
    }
    // with_sampler (same sampler type, rebuilt): regular quorum size, and a quorum shorter than
    // TOTAL_SHREDS (slice index panic for the shred indices beyond it: malformed stream)
    for &n in &[1usize, 4, 33, 150] {
        let st = stakes("random", n, &mut rng);
        let pos = [(rng.below(1000), rng.below(8) as usize)];
        let vals = env.validators(&st);
        let v1 = vals.clone();
        rotor_case(&mut cx, &mut rng, "with_sampler", 64, "random", &st, &pos, move |net, info| {
            Rotor::new(net, info).with_sampler(StakeWeightedSampler::new(v1.clone()).into_quorum_strategy(TOTAL_SHREDS))
        });
        let v2 = vals.clone();
        rotor_case(&mut cx, &mut rng, "with_sampler_short", 10, "random", &st, &pos, move |net, info| {
            Rotor::new(net, info).with_sampler(StakeWeightedSampler::new(v2.clone()).into_quorum_strategy(10))
        });
    }

    // ---- reconfiguration after use (oracle only): an instance that already routed shreds and is then given another
    // sampler / fanout must route exactly like an instance that was built with that configuration and never used
    for &n in &[4usize, 9, 33, 150] {
        let st = stakes("random", n, &mut rng);
        let vals = env.validators(&st);
        let epoch = EpochInfo::new(vals.clone());
        let own = rng.below(n as u64) as usize;
        let vei = Arc::new(ValidatorEpochInfo::new(ValidatorIndex::new(own as u64), epoch.clone()));
        cx.rec.begin_case("reconfigured-after-use");
        let queries: Vec<Shred> = (0..6).map(|k| env.shred(10 + (k / 3) as u64, k % 3, (7 * k) % 64)).collect();
        // Rotor: warm the cache with the default sampler, then switch to a plain stake-weighted sampler
        let (net_a, net_b) = (RecNet::default(), RecNet::default());
        let used = Rotor::new(net_a.clone(), vei.clone());
        for q in &queries { let _ = env.call(&used, &net_a, q, false); let _ = env.call(&used, &net_a, q, true); }
        // the new sampler weighs the validators differently (stakes reversed), so stale cached committees show
        let mut st2 = st.clone();
        st2.reverse();
        let vals2 = env.validators(&st2);
        let used = used.with_sampler(StakeWeightedSampler::new(vals2.clone()).into_quorum_strategy(TOTAL_SHREDS));
        let fresh = Rotor::new(net_b.clone(), vei.clone()).with_sampler(StakeWeightedSampler::new(vals2.clone()).into_quorum_strategy(TOTAL_SHREDS));
        for q in &queries {
            for fwd in [false, true] {
                let (a, b) = (env.call(&used, &net_a, q, fwd), env.call(&fresh, &net_b, q, fwd));
                let pos = shred_position(q);
                cx.rec.oracle(a == b, "rotor-reconfigured-instance-disagrees", || format!("Rotor n={n} validator {own}: instance that routed shreds before with_sampler answers {} for {:?} (forward={fwd}), a fresh instance with the same sampler answers {}", a.line(), (pos.0.inner(), pos.1, pos.2), b.line()));
            }
        }
        // Turbine: warm the cache with one fanout, then switch
        let (net_c, net_d) = (RecNet::default(), RecNet::default());
        let f1 = 2 + rng.below(3) as usize;
        let f2 = f1 + 1 + rng.below(3) as usize;
        let used_t = Turbine::new(net_c.clone(), vei.clone()).with_fanout(f1);
        for q in &queries { let _ = env.call(&used_t, &net_c, q, false); let _ = env.call(&used_t, &net_c, q, true); }
        let used_t = used_t.with_fanout(f2);
        let fresh_t = Turbine::new(net_d.clone(), vei.clone()).with_fanout(f2);
        for q in &queries {
            for fwd in [false, true] {
                let (a, b) = (env.call(&used_t, &net_c, q, fwd), env.call(&fresh_t, &net_d, q, fwd));
                let pos = shred_position(q);
                cx.rec.oracle(a == b, "turbine-reconfigured-instance-disagrees", || format!("Turbine n={n} validator {own}: instance that routed shreds with fanout {f1} and was then set to {f2} answers {} for {:?} (forward={fwd}), a fresh instance answers {}", a.line(), (pos.0.inner(), pos.1, pos.2), b.line()));
            }
        }
        cx.rec.step("idx 0 0", "idx 0");
        cx.rec.end_case(n as u64, true);
    }

    // ---- Turbine
    let fanouts: Vec<usize> = if args.thorough { vec![1, 2, 3, 7, 200, 1 << 40] } else { vec![1, 2, 3, 200] };
    for &n in &ns {
        for &f in &fanouts {
            if n >= 500 && !(f == 200 || f == 2 || (args.thorough && f == 1)) {
                continue;
            }
            let shape = if n >= 500 { *rng.pick(&["equal1", "heavy", "random"]) } else { *rng.pick(&["equal1", "small", "heavy", "whale", "random", "somezero"]) };
            let st = stakes(shape, n, &mut rng);
            let (a, b, c) = if rng.chance(1, 2) { (rng.below(4 * n as u64 + 8), rng.below(4) as usize, rng.below(64) as usize) } else { (rng.next() >> rng.range(1, 40), rng.below(1023) as usize, rng.below(64) as usize) };
            let mut positions: Vec<(u64, usize, usize)> = vec![(a, b, c), (a, b + 1, c)];
            if n < 500 {
                positions.push((a + 1, b, c));
                positions.push((a, b, (c + 1) % 64));
            }
            turbine_case(&mut cx, &mut rng, shape, &st, f, &positions);
        }
    }
    // degenerate fanouts (malformed stream): 0 and usize::MAX
    for &n in &[1usize, 2, 5, 40] {
        let st = stakes("small", n, &mut rng);
        let (p0, p1) = ((rng.below(100), 0, rng.below(64) as usize), (rng.below(100), 1, rng.below(64) as usize));
        turbine_case(&mut cx, &mut rng, "small", &st, 0, &[p0]);
        turbine_case(&mut cx, &mut rng, "small", &st, usize::MAX, &[p1]);
    }

    // ---- trivial
    for &n in &[1usize, 2, 3, 17, 300] {
        let st = vec![1; n];
        let slot = rng.below(64);
        trivial_case(&mut cx, &st, slot);
    }

    let extra = serde_json::json!({ "validator_counts": ns, "fanouts": fanouts });
    // ---- the node's receive path really forwards (also the leader's own shreds)
    // (arrival orders incl. "the shreds this node must forward arrive after it has reconstructed the block", Rotor and Turbine)
    // the first 10 (32) cases without certificates; then 8 (24) in which the slot is finalized in the node's pool
    // (certificates over all-to-all) before the shreds it has to forward arrive
    let (plain, fin) = if args.thorough { (32, 24) } else { (10, 8) };
    for k in 0..plain + fin {
        let n = [4usize, 5, 7, 3][k % 4];
        let own = k % n;
        let (order, complete, own_first) = match k % 10 {
            0 => (0, false, false),                 // the block never completes (no last-slice marker)
            9 => (3, true, k % 20 == 9),
            j => ([0, 1, 2][(j as usize - 1) % 3], true, j % 2 == 0),
        };
        let finalize = if k < plain { 0 } else { 1 + (k - plain) % 3 };
        if k % 5 == 3 || (k >= plain && (k - plain) % 4 == 1) {
            let f = [2usize, 1, 3][(k / 5) % 3];
            node_glue_case(&mut cx, &mut rng, own, n, &format!("turbine-f{f}"), &|net, vei| Turbine::new(net, vei).with_fanout(f), order, complete, own_first, finalize);
        } else {
            node_glue_case(&mut cx, &mut rng, own, n, "rotor", &|net, vei| Rotor::new(net, vei), order, complete, own_first, finalize);
        }
    }
    cx.rec.finish(&args, extra);
}
