//! C11 — erasure coding round trip: correspondence with `AgModel.Shred` + property oracle on the real
//! shredders (`RegularShredder`, `CodingOnlyShredder`, `PetsShredder`, `AontShredder`).
//!
//! ops (see lean/Driver/C11.lean):
//!   slice slot idx last hasParent pslot hseed len a b tail…   -> `plen <n> fp <fnv>`
//!   shred <r|c|p|a> keyseed [o]                                -> `ok sb <n> nd <n> nc <n> dfp <fnv|->` | `err TooMuchData` | `panic`
//!   deshred <r|c|p|a> <mask: 64 × 0/1> edits…                  -> `ok hdr s i l par <fnv|-> data <fnv> len <n> eq <n>` | `err <Kind> same <0|1>` | `panic`
//! (`o`: shredded by the shredder of ANOTHER node, not by the long-lived instance under test; the model has no instances)
//! edits: `f i` flips the (unauthenticated) data/coding tag of entry i on the wire and re-validates it;
//!        `m i j` stores entry i (also) at position j.
use ag_harness::*;
use alpenglow::crypto::merkle::BlockHash;
use alpenglow::crypto::signature::{PublicKey, SecretKey};
use alpenglow::shredder::{
    AontShredder, CodingOnlyShredder, DATA_SHREDS, DeshredError, MAX_DATA_PER_SLICE, PetsShredder, RegularShredder, Shred,
    Shredder, TOTAL_SHREDS, ValidatedShred, verif_shreds_from_raw,
};
use alpenglow::types::{Slice, SliceIndex, Slot};

#[path = "../shredwire.rs"]
mod shredwire;
use shredwire::Wire;

const KEY_BYTES: usize = 16;

fn fnv_bytes(bs: impl IntoIterator<Item = u64>) -> u64 {
    let mut h: u64 = 0xcbf29ce484222325;
    for b in bs {
        h ^= b;
        h = h.wrapping_mul(0x100000001b3);
    }
    h
}

fn gen_data(len: usize, a: u64, b: u64, tail: &[u8]) -> Vec<u8> {
    let mut v: Vec<u8> = (0..len as u64).map(|i| ((a * i + b + i / 251) % 256) as u8).collect();
    let t = &tail[tail.len().saturating_sub(len)..];
    let n = v.len();
    v[n - t.len()..].copy_from_slice(t);
    v
}

fn gen_hash(seed: u64) -> Vec<u8> {
    (0..32u64).map(|j| ((seed + 7 * j) % 256) as u8).collect()
}

#[derive(Clone)]
struct SliceSpec {
    slot: u64,
    idx: usize,
    last: bool,
    parent: Option<(u64, u64)>,
    len: usize,
    a: u64,
    b: u64,
    tail: Vec<u8>,
}

impl SliceSpec {
    fn build(&self) -> Slice {
        let slice_index: SliceIndex = wincode::deserialize(&(self.idx as u64).to_le_bytes()).expect("slice index");
        let parent = self.parent.map(|(ps, hs)| {
            let h: BlockHash = wincode::deserialize(&gen_hash(hs)).expect("32 bytes are a block hash");
            (Slot::new(ps), h)
        });
        Slice { slot: Slot::new(self.slot), slice_index, is_last: self.last, parent, data: gen_data(self.len, self.a, self.b, &self.tail) }
    }
    fn op(&self) -> String {
        let (hp, ps, hs) = match self.parent {
            Some((ps, hs)) => (1, ps, hs),
            None => (0, 0, 0),
        };
        let tail = self.tail.iter().map(|b| b.to_string()).collect::<Vec<_>>().join(" ");
        format!("slice {} {} {} {} {} {} {} {} {} {}", self.slot, self.idx, self.last as u8, hp, ps, hs, self.len, self.a, self.b, tail).trim_end().to_string()
    }
    /// the serialized payload, computed independently of the crate (tag, parent, u64 LE length, data)
    fn payload_ref(&self) -> Vec<u8> {
        let mut v = Vec::new();
        match self.parent {
            None => v.push(0),
            Some((ps, hs)) => {
                v.push(1);
                v.extend_from_slice(&ps.to_le_bytes());
                v.extend_from_slice(&gen_hash(hs));
            }
        }
        v.extend_from_slice(&(self.len as u64).to_le_bytes());
        v.extend_from_slice(&gen_data(self.len, self.a, self.b, &self.tail));
        v
    }
}

#[derive(Clone, Copy, PartialEq, Eq, Debug)]
enum V {
    R,
    C,
    P,
    A,
}

impl V {
    const ALL: [V; 4] = [V::R, V::C, V::P, V::A];
    fn tag(self) -> &'static str {
        match self {
            V::R => "r",
            V::C => "c",
            V::P => "p",
            V::A => "a",
        }
    }
    fn n_data(self) -> usize {
        match self {
            V::R | V::A => DATA_SHREDS,
            V::C => 0,
            V::P => DATA_SHREDS - 1,
        }
    }
    /// what the property calls "the size limit" of the shredder (in serialized payload bytes)
    fn limit(self) -> usize {
        match self {
            V::R | V::C => MAX_DATA_PER_SLICE,
            V::P | V::A => MAX_DATA_PER_SLICE - KEY_BYTES,
        }
    }
    fn overhead(self) -> usize {
        match self {
            V::R | V::C => 0,
            V::P | V::A => KEY_BYTES,
        }
    }
    // One long-lived shredder per variant for the whole run, as a node keeps (pools) its shredders: the outcome of an
    // operation must depend on its arguments only, not on what the instance was used for before (failed decodes
    // included). A panic may leave an instance in any state, so it is replaced after one.
    fn shred(self, slice: &Slice, sk: &SecretKey) -> Result<Result<[ValidatedShred; TOTAL_SHREDS], String>, String> {
        self.shred_on(false, slice, sk)
    }
    /// `other`: use the long-lived shredders of another node (a leader: they only ever shred)
    fn shred_on(self, other: bool, slice: &Slice, sk: &SecretKey) -> Result<Result<[ValidatedShred; TOTAL_SHREDS], String>, String> {
        (if other { &OTHER_POOL } else { &POOL }).with(|p| {
            let mut p = p.borrow_mut();
            let r = catch(|| match self {
                V::R => p.0.shred(slice, sk).map_err(|e| format!("{e:?}")),
                V::C => p.1.shred(slice, sk).map_err(|e| format!("{e:?}")),
                V::P => p.2.shred(slice, sk).map_err(|e| format!("{e:?}")),
                V::A => p.3.shred(slice, sk).map_err(|e| format!("{e:?}")),
            });
            if r.is_err() { *p = Default::default(); }
            r
        })
    }
    fn deshred(self, arr: &mut [Option<ValidatedShred>; TOTAL_SHREDS]) -> Result<Result<alpenglow::types::ReconstructedSlice, DeshredError>, String> {
        POOL.with(|p| {
            let mut p = p.borrow_mut();
            let r = catch(|| match self {
                V::R => p.0.deshred(arr),
                V::C => p.1.deshred(arr),
                V::P => p.2.deshred(arr),
                V::A => p.3.deshred(arr),
            });
            if r.is_err() { *p = Default::default(); }
            r
        })
    }
}

thread_local! {
    static POOL: std::cell::RefCell<(RegularShredder, CodingOnlyShredder, PetsShredder, AontShredder)> = std::cell::RefCell::new(Default::default());
    static OTHER_POOL: std::cell::RefCell<(RegularShredder, CodingOnlyShredder, PetsShredder, AontShredder)> = std::cell::RefCell::new(Default::default());
}

/// replaces the instances under test by freshly constructed ones (initial configuration of the coder)
fn fresh_pool() {
    POOL.with(|p| *p.borrow_mut() = Default::default());
}

/// bit-for-bit fingerprint of a validated shred: wire bytes of the shred + the cached root
fn wire(s: &ValidatedShred) -> Vec<u8> {
    let mut v = wincode::serialize(s.as_shred()).expect("serialize shred");
    v.extend_from_slice(AsRef::<[u8]>::as_ref(&s.commitment()));
    v
}

fn arr_wire(arr: &[Option<ValidatedShred>; TOTAL_SHREDS]) -> Vec<Option<Vec<u8>>> {
    arr.iter().map(|s| s.as_ref().map(wire)).collect()
}

/// flips the `ShredPayloadType` tag (first wire bytes: u32 LE enum tag) and re-validates without cache
fn flip_tag(s: &ValidatedShred, pk: &PublicKey) -> Option<ValidatedShred> {
    let mut w = Wire::of(s.as_shred());
    w.tag ^= 1;
    let shred: Shred = w.decode()?;
    ValidatedShred::try_new(shred, None, pk).ok()
}

struct Ctx {
    rec: Recorder,
    sk: SecretKey,
    pk: PublicKey,
    other_pk: PublicKey,
    spec: Option<SliceSpec>,
    out: Option<(V, Vec<ValidatedShred>)>,
    class: u64,
    /// what the long-lived instances under test did since the case began (for the failure text of history cases)
    hist: Vec<String>,
}

impl Ctx {
    fn slice(&mut self, spec: SliceSpec) {
        let slice = spec.build();
        let pb = spec.payload_ref();
        self.rec.step(&spec.op(), &format!("plen {} fp {}", pb.len(), fnv_bytes(pb.iter().map(|b| *b as u64))));
        let _ = slice;
        self.spec = Some(spec);
        self.out = None;
    }

    fn shred(&mut self, v: V, keyseed: u64) {
        self.shred_on(v, keyseed, false)
    }
    /// `other`: the slice is shredded by another node's shredder, not by the instance under test
    fn shred_on(&mut self, v: V, keyseed: u64, other: bool) {
        let spec = self.spec.clone().expect("slice first");
        let slice = spec.build();
        let pb = spec.payload_ref();
        let op = format!("shred {} {}{}", v.tag(), keyseed, if other { " o" } else { "" });
        let res = v.shred_on(other, &slice, &self.sk);
        let fits = pb.len() <= v.limit();
        let hist = if self.hist.is_empty() { String::new() } else { format!("; the same {} instance before: {}", v.tag(), self.hist.join(", ")) };
        if !other { self.hist.push(format!("shred {}B", pb.len())); }
        let what = |s: &str| format!("{op} on `{}` (payload {} bytes, limit {}): {s}{hist}", spec.op(), pb.len(), v.limit());
        match res {
            Err(msg) => {
                self.rec.step(&op, "panic");
                self.rec.count("shred:panic");
                self.rec.oracle(false, "shred-panics", || what(&format!("panicked: {msg}")));
                self.out = None;
            }
            Ok(Err(e)) => {
                self.rec.step(&op, &format!("err {e}"));
                self.rec.count("shred:err");
                self.rec.oracle(!fits, "shred-refuses-fitting-slice", || what(&format!("refused with {e} although the slice fits")));
                self.out = None;
            }
            Ok(Ok(shreds)) => {
                self.rec.count("shred:ok");
                self.rec.oracle(fits, "shred-accepts-oversized-slice", || what("accepted although above the size limit"));
                let ws: Vec<Wire> = shreds.iter().map(|s| Wire::of(s.as_shred())).collect();
                let sb = ws[0].data.len();
                let nd = shreds.iter().filter(|s| s.is_data()).count();
                let dfp = if v == V::R {
                    fnv_bytes(ws[..nd].iter().flat_map(|w| w.data.iter().map(|b| *b as u64))).to_string()
                } else {
                    "-".to_string()
                };
                self.rec.step(&op, &format!("ok sb {sb} nd {nd} nc {} dfp {dfp}", TOTAL_SHREDS - nd));
                // ---- oracle: shape of the leader's output
                let l = pb.len() + v.overhead();
                let exp_sb = 2 * (l / 64 + 1);
                let shape_ok = shreds.iter().zip(&ws).enumerate().all(|(i, (s, w))| {
                    w.shred_index == i as u64 && s.is_data() == (i < v.n_data()) && s.is_coding() == (i >= v.n_data()) && w.data.len() == exp_sb
                        && w.slot == spec.slot && w.slice_index == spec.idx as u64 && w.is_last == spec.last as u8
                });
                self.rec.oracle(shape_ok && exp_sb <= 1024, "shred-output-shape", || what(&format!("indices/kinds/sizes wrong (expected {} data shreds of {exp_sb} bytes)", v.n_data())));
                if v == V::R {
                    // naive reference of the padding scheme: payload ‖ 0x80 ‖ 0…0 cut into 32 equal pieces
                    let mut padded = pb.clone();
                    padded.push(0x80);
                    padded.resize(32 * exp_sb, 0);
                    let got: Vec<u8> = ws[..32].iter().flat_map(|w| w.data.clone()).collect();
                    self.rec.oracle(got == padded, "data-shreds-are-padded-payload", || what("data shreds are not payload‖0x80‖0…"));
                }
                let c0 = shreds[0].commitment();
                let root = shreds[0].slice_root().clone();
                let mut all_valid = true;
                for s in shreds.iter() {
                    let sh = s.as_shred().clone();
                    all_valid &= s.commitment() == c0
                        && sh.verify_path_only(&root)
                        && ValidatedShred::try_new(sh.clone(), None, &self.pk).is_ok()
                        && ValidatedShred::try_new(sh.clone(), Some(&c0), &self.pk).is_ok();
                }
                // one shred against a foreign key
                all_valid &= ValidatedShred::try_new(shreds[63].as_shred().clone(), None, &self.other_pk).is_err();
                self.rec.oracle(all_valid, "leader-shreds-validate", || what("a produced shred does not validate under the leader key / same root"));
                self.class = fnv(self.class, &format!("s{}{}", v.tag(), sb));
                self.out = Some((v, shreds.to_vec()));
            }
        }
    }

    /// `mask[i]`: entry i supplied. `edits`: see module doc.
    fn deshred(&mut self, v: V, mask: &[bool; 64], edits: &[(char, usize, usize)]) {
        let spec = self.spec.clone().expect("slice first");
        let Some((sv, leader)) = self.out.clone() else { return };
        let slice = spec.build();
        let mut arr: [Option<ValidatedShred>; TOTAL_SHREDS] = std::array::from_fn(|i| if mask[i] { Some(leader[i].clone()) } else { None });
        let mut op = format!("deshred {} {}", v.tag(), mask.iter().map(|b| if *b { '1' } else { '0' }).collect::<String>());
        for &(k, i, j) in edits {
            match k {
                'f' => {
                    if let Some(s) = &arr[i] {
                        let flipped = flip_tag(s, &self.pk);
                        self.rec.count(if flipped.is_some() { "tagflip:validates" } else { "tagflip:rejected" });
                        if let Some(f) = flipped {
                            arr[i] = Some(f);
                            op += &format!(" f {i}");
                        }
                    }
                }
                _ => {
                    arr[j] = arr[i].clone();
                    op += &format!(" m {i} {j}");
                }
            }
        }
        let honest = edits.is_empty() && sv == v;
        let n = arr.iter().flatten().count();
        let before = arr_wire(&arr);
        let res = v.deshred(&mut arr);
        let after = arr_wire(&arr);
        let hist = if self.hist.is_empty() { String::new() } else { format!("; the same {} instance before: {}", v.tag(), self.hist.join(", ")) };
        self.hist.push(format!("deshred {}B/{n}", spec.payload_ref().len()));
        if self.hist.len() > 24 { self.hist.remove(0); }
        let what = |s: &str| format!("{op} after `shred {}` of `{}` ({} shreds supplied): {s}{hist}", sv.tag(), spec.op(), n);
        let documented_panic = edits.iter().any(|e| e.0 == 'm');
        match res {
            Err(msg) => {
                self.rec.step(&op, "panic");
                self.rec.count("deshred:panic");
                self.rec.oracle(documented_panic, "deshred-panics", || what(&format!("panicked: {msg}")));
                self.class = fnv(self.class, "dp");
            }
            Ok(Err(e)) => {
                let same = before == after;
                self.rec.step(&op, &format!("err {e:?} same {}", same as u8));
                self.rec.count(&format!("deshred:{e:?}"));
                self.rec.oracle(same, "error-leaves-shreds-untouched", || what(&format!("returned {e:?} but modified the supplied shreds")));
                if honest {
                    self.rec.oracle(n < DATA_SHREDS, "enough-shreds-reconstruct", || what(&format!("{n} >= 32 honest shreds did not reconstruct: {e:?}")));
                    if n < DATA_SHREDS {
                        self.rec.oracle(e == DeshredError::NotEnoughShreds, "too-few-is-not-enough-shreds", || what(&format!("fewer than 32 honest shreds gave {e:?}")));
                    }
                }
                self.class = fnv(self.class, &format!("d{e:?}"));
            }
            Ok(Ok(rs)) => {
                let lw: Vec<Vec<u8>> = leader.iter().map(wire).collect();
                let eq = (0..TOTAL_SHREDS).filter(|&i| after[i].as_ref() == Some(&lw[i])).count();
                let par = match &rs.parent {
                    None => "-".to_string(),
                    Some((s, h)) => {
                        let hb: Vec<u8> = wincode::serialize(h).expect("hash");
                        fnv_bytes(std::iter::once(s.inner()).chain(hb.iter().map(|b| *b as u64))).to_string()
                    }
                };
                let idx: Vec<u8> = wincode::serialize(&rs.slice_index).expect("slice index");
                let idx = u64::from_le_bytes(idx[..8].try_into().expect("8 bytes"));
                self.rec.step(
                    &op,
                    &format!("ok hdr {} {} {} par {par} data {} len {} eq {eq}", rs.slot.inner(), idx, rs.is_last as u8, fnv_bytes(rs.data.iter().map(|b| *b as u64)), rs.data.len()),
                );
                self.rec.count("deshred:ok");
                self.rec.oracle(n >= DATA_SHREDS, "fewer-than-32-never-reconstruct", || what("reconstructed from fewer than 32 shreds"));
                if honest {
                    self.rec.oracle(*rs == slice, "slice-restored-bit-for-bit", || what("restored slice differs from the original (slot / index / last flag / parent / data)"));
                    self.rec.oracle(rs.slice_root() == leader[0].slice_root(), "slice-root-restored", || what("restored slice carries a different root"));
                    self.rec.oracle(eq == TOTAL_SHREDS, "missing-shreds-regenerated-identically", || what(&format!("only {eq} of 64 array entries equal the leader's shreds")));
                    // every regenerated shred validates on its own under the leader key and the same root
                    let root = leader[0].slice_root().clone();
                    let c0 = leader[0].commitment();
                    let mut ok = true;
                    for i in 0..TOTAL_SHREDS {
                        if !mask[i] {
                            match &arr[i] {
                                Some(s) => {
                                    let sh = s.as_shred().clone();
                                    ok &= sh.verify_path_only(&root) && ValidatedShred::try_new(sh, None, &self.pk).map(|x| x.commitment() == c0).unwrap_or(false);
                                }
                                None => ok = false,
                            }
                        }
                    }
                    self.rec.oracle(ok, "regenerated-shreds-validate", || what("a regenerated shred does not validate under the leader key and the signed root"));
                }
                // present entries are never overwritten
                let kept = (0..TOTAL_SHREDS).all(|i| before[i].is_none() || before[i] == after[i]);
                self.rec.oracle(kept, "present-shreds-untouched", || what("a supplied shred was overwritten"));
                self.class = fnv(self.class, &format!("dok{}", n.min(33)));
            }
        }
    }
}

fn random_mask(rng: &mut Rng, k: usize) -> [bool; 64] {
    let mut idx: Vec<usize> = (0..64).collect();
    for i in 0..k {
        let j = i + rng.below((64 - i) as u64) as usize;
        idx.swap(i, j);
    }
    let mut m = [false; 64];
    for &i in &idx[..k] {
        m[i] = true;
    }
    m
}

fn range_mask(lo: usize, hi: usize) -> [bool; 64] {
    std::array::from_fn(|i| i >= lo && i < hi)
}

fn main() {
    let args = Args::parse();
    if std::env::var("VERIF_LOUD").is_err() { quiet_panics(); }
    let mut rng = Rng::new(args.seed);
    let sk = SecretKey::new(&mut rng);
    let pk = sk.to_pk();
    let other_pk = SecretKey::new(&mut rng).to_pk();
    let mut cx = Ctx { rec: Recorder::new(), sk, pk, other_pk, spec: None, out: None, class: 0, hist: vec![] };

    // ---- payload lengths (in serialized bytes); the data length is derived from them
    // every residue mod 64 at small sizes, around a medium size, and up to (and beyond) both limits
    let mut plens: Vec<(usize, bool)> = Vec::new(); // (payload length, heavy = many subsets)
    let lim_r = MAX_DATA_PER_SLICE;
    let lim_k = MAX_DATA_PER_SLICE - KEY_BYTES;
    // thorough: the four shards (work/C11/shard<k>) split *every* length 9..=max+2 by residue mod 4
    let shard = args.out.file_name().and_then(|n| n.to_str()).and_then(|n| n.strip_prefix("shard")).and_then(|n| n.parse::<usize>().ok()).unwrap_or(0) % 4;
    if args.thorough {
        let mut l = 9 + (shard + 3) % 4; // 9 % 4 == 1
        while l % 4 != shard {
            l += 1;
        }
        while l <= lim_r + 2 {
            plens.push((l, l % 1024 < 4));
            l += 4;
        }
        for l in lim_k - 2..=lim_k + 2 {
            plens.push((l, true));
        }
        for l in lim_r - 2..=lim_r + 2 {
            plens.push((l, true));
        }
    } else {
        for l in 9..=140 {
            plens.push((l, true));
        }
        let mid = 4096 + 64 * rng.below(200) as usize;
        for l in mid - 2..mid + 66 {
            plens.push((l, l % 16 == 0));
        }
        for l in lim_k - 66..=lim_k + 2 {
            plens.push((l, l + 3 > lim_k));
        }
        for l in lim_r - 66..=lim_r + 2 {
            plens.push((l, l + 3 > lim_r));
        }
    }

    for &(plen, heavy) in &plens {
        // with parent (49 + 8 header bytes) where it fits, alternating
        let with_parent = plen >= 49 && rng.chance(1, 2);
        let hdr = if with_parent { 49 } else { 9 };
        let len = plen - hdr;
        let tail: Vec<u8> = match rng.below(6) {
            0 => vec![0; rng.range(1, 70) as usize],
            1 => vec![0x80],
            2 => {
                let mut t = vec![0x80];
                t.extend(vec![0; rng.range(1, 40) as usize]);
                t
            }
            3 => vec![0x80, 0x80, 0, 0x80],
            _ => vec![],
        };
        let spec = SliceSpec {
            slot: rng.below(1 << 40),
            idx: rng.below(1024) as usize,
            last: rng.chance(1, 2),
            parent: if with_parent { Some((rng.below(1 << 40), rng.below(256))) } else { None },
            len,
            a: rng.below(256),
            b: rng.below(256),
            tail,
        };
        cx.class = 0;
        cx.hist.clear();
        cx.rec.begin_case(if heavy { "roundtrip-heavy" } else { "roundtrip" });
        cx.slice(spec);
        // light cases: two of the four shredders (quick) / one (thorough: every length is visited), rotating
        let skip = if heavy { 5 } else { rng.below(2) as usize };
        let only = (plen / 4 + args.seed as usize) % 4;
        for (vi, v) in V::ALL.into_iter().enumerate() {
            if vi % 2 == skip || (args.thorough && !heavy && vi != only) {
                continue;
            }
            cx.shred(v, rng.below(256));
            if cx.out.is_none() {
                continue;
            }
            // subsets of every kind; sizes 0..64
            let mut masks: Vec<[bool; 64]> = vec![random_mask(&mut rng, 32), random_mask(&mut rng, 31)];
            if heavy {
                masks.push(range_mask(0, 64));
                masks.push(range_mask(0, 32));
                masks.push(range_mask(32, 64));
                masks.push(range_mask(16, 48));
                masks.push(range_mask(0, 0));
                masks.push(random_mask(&mut rng, 1));
                let k = 33 + rng.below(31) as usize;
                masks.push(random_mask(&mut rng, k));
                let k = 2 + rng.below(30) as usize;
                masks.push(random_mask(&mut rng, k));
                // exactly 32 with no data shred / all but one
                let mut m = range_mask(1, 64);
                m[1 + rng.below(63) as usize] = false;
                masks.push(m);
            } else if !args.thorough {
                let k = rng.below(65) as usize;
                masks.push(random_mask(&mut rng, k));
            }
            for m in &masks {
                cx.deshred(v, m, &[]);
            }
        }
        let class = cx.class;
        cx.rec.end_case(class, true);
    }

    // ---- layout cases: shredded by one shredder, deshredded by another; tag flips; misplaced entries
    let n_layout = if args.thorough { 300 } else { 40 };
    for _ in 0..n_layout {
        let plen = 9 + rng.below(3000) as usize;
        let spec = SliceSpec { slot: rng.below(1000), idx: rng.below(1024) as usize, last: rng.chance(1, 2), parent: None, len: plen - 9, a: rng.below(256), b: rng.below(256), tail: vec![] };
        cx.class = 0;
        cx.hist.clear();
        cx.rec.begin_case("layout");
        cx.slice(spec);
        let sv = V::ALL[rng.below(4) as usize];
        cx.shred(sv, rng.below(256));
        for dv in V::ALL {
            if dv.n_data() == sv.n_data() && dv != sv {
                // same layout (regular <-> RAONT): decoding and the Merkle check succeed, the payload is
                // cipher text (or decrypted with a garbage key) and does not parse: an error *after* the point
                // where the array could have been written
                let k = 32 + rng.below(33) as usize;
                let m = random_mask(&mut rng, k);
                cx.deshred(dv, &m, &[]);
                continue;
            }
            let k = rng.below(65) as usize;
            let mut m = random_mask(&mut rng, k);
            if dv != sv {
                // entries 0 and 31 have different kinds under any two different layouts: the verdict does
                // not depend on what the decoder makes of mismatched shards
                m[0] = true;
                m[31] = true;
                cx.deshred(dv, &m, &[]);
                cx.deshred(dv, &range_mask(0, 64), &[]);
            } else {
                // a relay flips the data/coding tag of one supplied shred (still validates: the tag is not authenticated)
                let present: Vec<usize> = (0..64).filter(|&i| m[i]).collect();
                if !present.is_empty() {
                    let i = present[rng.below(present.len() as u64) as usize];
                    cx.deshred(dv, &m, &[('f', i, 0)]);
                    cx.deshred(dv, &range_mask(0, 64), &[('f', i, 0)]);
                    let j = rng.below(64) as usize;
                    if j != i {
                        cx.deshred(dv, &range_mask(0, 64), &[('m', i, j)]);
                    }
                }
            }
        }
        let class = cx.class;
        cx.rec.end_case(class, true);
    }

    // ---- instance histories: ONE long-lived shredder instance restores slices of one size that ANOTHER node shredded and
    // shreds slices of another size itself, in every order. Every slice that fits must be shreddable and every >= 32 of its
    // shreds must restore it, whatever the instance did before (the property quantifies over slices and subsets, not over
    // histories). Sizes: the maximum slice (shard size 1024 = the coder's initial configuration), just below it, ~1000 bytes,
    // tiny, random. The model is stateless, so these cases are ordinary compared cases.
    {
        let n_hist = if args.thorough { 40 } else { 7 };
        for v in V::ALL {
            for hcase in 0..n_hist {
                let lim = v.limit();
                let ov = v.overhead();
                // payload lengths by shard-size class
                let pick_len = |rng: &mut Rng, class: u64| -> usize {
                    match class {
                        0 => lim,                                                  // maximum slice: shard size 1024
                        1 => lim - rng.below(64) as usize,                         // still shard size 1024 (l / 64 == 511)
                        2 => 1000 + rng.below(24) as usize,                        // the ~1000-byte slice
                        3 => 9 + rng.below(100) as usize,                          // tiny
                        4 => lim - 64 - rng.below(64) as usize,                    // shard size 1022
                        _ => 9 + rng.below((lim - 9) as u64) as usize,
                    }
                };
                let same_shard_size = |rng: &mut Rng, plen: usize| -> usize {
                    let l = plen + ov;
                    let l2 = 64 * (l / 64) + rng.below(64) as usize;
                    (l2.max(9 + ov) - ov).min(lim)
                };
                // (own = shredded by the instance under test, payload length)
                let mut plan: Vec<(bool, usize)> = vec![];
                let fresh;
                match hcase {
                    0 => {
                        // fresh instance, restore a ~1000-byte slice, then shred the maximum slice
                        fresh = true;
                        plan.push((false, pick_len(&mut rng, 2)));
                        plan.push((true, lim));
                        plan.push((false, pick_len(&mut rng, 3)));
                        plan.push((true, pick_len(&mut rng, 1)));
                    }
                    1 => {
                        // shred A, restore B, shred A again (same shard size, another slice), for two random classes
                        fresh = rng.chance(1, 2);
                        let (ca, cb) = (rng.below(6), rng.below(6));
                        let a = pick_len(&mut rng, ca);
                        let mut b = pick_len(&mut rng, cb);
                        if (a + ov) / 64 == (b + ov) / 64 { b = if a > 2000 { pick_len(&mut rng, 3) } else { pick_len(&mut rng, 0) }; }
                        plan.push((true, a));
                        plan.push((false, b));
                        plan.push((true, same_shard_size(&mut rng, a)));
                        plan.push((false, a));
                        plan.push((true, same_shard_size(&mut rng, b)));
                    }
                    2 => {
                        // fresh instance, restore the maximum slice first, then a small one, then shred both sizes
                        fresh = true;
                        plan.push((false, lim));
                        plan.push((false, pick_len(&mut rng, 3)));
                        plan.push((true, pick_len(&mut rng, 1)));
                        plan.push((false, pick_len(&mut rng, 2)));
                        plan.push((true, pick_len(&mut rng, 3)));
                    }
                    _ => {
                        fresh = rng.chance(1, 3);
                        let classes = [rng.below(6), rng.below(6), rng.below(3)];
                        let lens: Vec<usize> = classes.iter().map(|c| pick_len(&mut rng, *c)).collect();
                        for _ in 0..rng.range(4, 8) {
                            let l = *rng.pick(&lens);
                            let l = if rng.chance(1, 2) { same_shard_size(&mut rng, l) } else { l };
                            plan.push((rng.chance(1, 2), l));
                        }
                    }
                }
                cx.class = 0;
                cx.hist.clear();
                cx.rec.begin_case("instance-history");
                if fresh {
                    fresh_pool();
                    cx.rec.count("history:fresh-instance");
                } else {
                    cx.hist.push("(earlier cases)".to_string());
                }
                for (own, plen) in plan {
                    let with_parent = plen >= 49 && rng.chance(1, 2);
                    let hdr = if with_parent { 49 } else { 9 };
                    let spec = SliceSpec {
                        slot: rng.below(1 << 40),
                        idx: rng.below(1024) as usize,
                        last: rng.chance(1, 2),
                        parent: if with_parent { Some((rng.below(1 << 40), rng.below(256))) } else { None },
                        len: plen - hdr,
                        a: rng.below(256),
                        b: rng.below(256),
                        tail: if rng.chance(1, 4) { vec![0x80, 0, 0] } else { vec![] },
                    };
                    cx.slice(spec);
                    cx.shred_on(v, rng.below(256), !own);
                    cx.rec.count(if own { "history:shred-own" } else { "history:deshred-foreign" });
                    if cx.out.is_none() { continue; }
                    // a foreign slice is always restored by the instance under test; an own one sometimes
                    if !own || rng.chance(1, 3) {
                        let k = match rng.below(4) { 0 => 32, 1 => 64, _ => 32 + rng.below(33) as usize };
                        let m = random_mask(&mut rng, k);
                        cx.deshred(v, &m, &[]);
                    }
                    // fewer than 32 shreds: refused before the coder is touched
                    if rng.chance(1, 6) {
                        let k = rng.below(32) as usize;
                        let m = random_mask(&mut rng, k);
                        cx.deshred(v, &m, &[]);
                    }
                }
                let class = cx.class;
                cx.rec.end_case(class, true);
            }
        }
    }

    // ---- history independence (oracle only, outside the compared stream): on one long-lived shredder a decode that
    // fails inside the Reed-Solomon layer (validly signed shards without a padding marker / of unequal or oversize
    // length) must not influence the next decode of a good slice
    {
        let n_hist = if args.thorough { 60 } else { 12 };
        for k in 0..n_hist {
            let slot = Slot::new(50_000 + k as u64);
            let si: SliceIndex = wincode::deserialize(&(rng.below(8)).to_le_bytes()).expect("si");
            let glen = rng.below(2000) as usize;
            let good = Slice { slot, slice_index: si, is_last: rng.chance(1, 2), parent: None, data: rng.bytes(glen) };
            let Ok(Ok(good_shreds)) = V::R.shred(&good, &cx.sk) else { continue };
            let shard = 2 * (1 + rng.below(40) as usize);
            let (data, what): (Vec<Vec<u8>>, &str) = match k % 3 {
                0 => ((0..DATA_SHREDS).map(|_| vec![0u8; shard]).collect(), "no padding marker"),
                1 => ((0..DATA_SHREDS).map(|_| vec![0x55u8; 1100]).collect(), "oversize shards without marker"),
                _ => ((0..DATA_SHREDS).map(|i| vec![0x11u8; shard + 2 * (i % 2)]).collect(), "unequal shard sizes"),
            };
            let coding: Vec<Vec<u8>> = (0..TOTAL_SHREDS - DATA_SHREDS).map(|_| vec![0u8; data[0].len()]).collect();
            let bad = catch(|| verif_shreds_from_raw(slot, si, false, data, coding, &cx.sk));
            let Ok(bad) = bad else { continue };
            let mut arr_bad: [Option<ValidatedShred>; TOTAL_SHREDS] = std::array::from_fn(|i| if i < DATA_SHREDS { Some(bad[i].clone()) } else { None });
            let r_bad = V::R.deshred(&mut arr_bad);
            cx.rec.count(&format!("history:bad-decode:{}", match &r_bad { Ok(Ok(_)) => "ok".to_string(), Ok(Err(e)) => format!("{e:?}"), Err(_) => "panic".to_string() }));
            let keep: Vec<usize> = { let mut v: Vec<usize> = (0..TOTAL_SHREDS).collect(); rng.shuffle(&mut v); v.truncate(DATA_SHREDS + rng.below(5) as usize); v };
            let mut arr: [Option<ValidatedShred>; TOTAL_SHREDS] = std::array::from_fn(|i| if keep.contains(&i) { Some(good_shreds[i].clone()) } else { None });
            let r = V::R.deshred(&mut arr);
            let ok = matches!(&r, Ok(Ok(rs)) if rs.data == good.data);
            cx.rec.oracle(ok, "deshred-depends-on-history", || format!("a good slice ({} data bytes, {} of its shreds) no longer reconstructs ({:?}) on a shredder instance that just failed to decode validly signed shards ({what})", good.data.len(), keep.len(), r.as_ref().map(|x| x.as_ref().map(|_| "other data").map_err(|e| format!("{e:?}")))));
        }
    }

    let extra = serde_json::json!({ "payload_lengths": plens.len(), "assumption_checks": "MDS / cipher involution / key mask are exercised by every successful round trip of the real shredders" });
    cx.rec.finish(&args, extra);
}
