//! C20 — execution state: correspondence with `AgModel.Trie` / `AgModel.LtHash` / `AgModel.Exec`
//! + property oracle on the real `State`, `LtHash`, `DummyExecution`.
//!
//! Op lines: see `lean/Driver/C20.lean`. Case shapes:
//!   trie     random inserts / removals / lookups / forks over adversarially clustered keys
//!   canon    equal contents reached by different operation orders (with detours) must be `==`
//!   lthash   incremental `observe` vs recomputation, `+=` / `-=`, with the real per-entry lanes
//!            handed to the model
//!   engine   block trees fed to `DummyExecution` in random interleavings
//!   chaos    engine fed with arbitrary (also malformed) calls: correspondence + no panic only
//!
//! The oracle never looks at the model: `BTreeMap` reference per fork, an independent SHA-256
//! (crate `sha2`) re-implementation of the lattice hash, and the engine's seed rule evaluated on
//! the events the real engine emitted.
use std::collections::{BTreeMap, BTreeSet};

use ag_harness::*;
use alpenglow::crypto::merkle::BlockHash;
use alpenglow::execution::commitment::LtHash;
use alpenglow::execution::state::{Address, State};
use alpenglow::execution::{DummyExecution, ExecutionEngine, ExecutionEvent, InProgressBlock};
use alpenglow::Transaction;
use alpenglow::types::Slot;
use sha2::{Digest, Sha256};
use tokio::sync::mpsc;

// ---------------------------------------------------------------------------------------------
// values, keys
// ---------------------------------------------------------------------------------------------

/// value id -> bytes (injective; id 0 is the empty vector)
fn value(id: u64) -> Vec<u8> {
    if id == 0 {
        return Vec::new();
    }
    let mut v = (id as u32).to_le_bytes().to_vec();
    v.extend(std::iter::repeat_n(0xEE, (id % 5) as usize));
    v
}

fn value_id(bytes: &[u8]) -> u64 {
    if bytes.is_empty() { 0 } else { u32::from_le_bytes([bytes[0], bytes[1], bytes[2], bytes[3]]) as u64 }
}

fn hex(b: &[u8]) -> String {
    b.iter().map(|x| format!("{x:02x}")).collect()
}

fn flip(k: &mut Address, bit: usize) {
    k[bit / 8] ^= 0x80 >> (bit % 8);
}

fn get_bit(k: &Address, bit: usize) -> bool {
    k[bit / 8] & (0x80 >> (bit % 8)) != 0
}

/// A pool of distinct keys with long shared prefixes: every new key copies an existing pool key up
/// to a chosen bit position, differs at that bit, and has random / copied / zero bits after it.
fn key_pool(rng: &mut Rng, n: usize) -> Vec<Address> {
    let mut pool: Vec<Address> = Vec::new();
    let mut seen = BTreeSet::new();
    let first: Address = match rng.below(4) {
        0 => [0; 32],
        1 => [0xFF; 32],
        _ => rng.bytes(32).try_into().unwrap(),
    };
    pool.push(first);
    seen.insert(first);
    // a third of the pools split at uniformly random bit positions only (mid-depth tries)
    let uniform_only = rng.chance(1, 3);
    while pool.len() < n {
        let mut k: Address = *rng.pick(&pool);
        if rng.chance(1, 8) {
            k = rng.bytes(32).try_into().unwrap(); // unrelated key
        } else {
            let bit = match if uniform_only { 9 } else { rng.below(10) } {
                0 => 255,
                1 => 250 + rng.below(6) as usize,
                2 => 240 + rng.below(16) as usize,
                3 => (rng.below(52) * 5) as usize,          // first bit of a chunk
                4 => (rng.below(51) * 5 + 4) as usize,      // last bit of a chunk
                5 => rng.below(16) as usize,
                _ => rng.below(256) as usize,
            };
            flip(&mut k, bit);
            match rng.below(3) {
                0 => {
                    for b in bit + 1..256 {
                        if rng.chance(1, 2) {
                            flip(&mut k, b);
                        }
                    }
                }
                1 => {
                    for b in bit + 1..256 {
                        if get_bit(&k, b) {
                            flip(&mut k, b);
                        }
                    }
                }
                _ => {}
            }
        }
        if seen.insert(k) {
            pool.push(k);
        }
    }
    pool
}

// ---------------------------------------------------------------------------------------------
// independent lattice hash (sha2), structure dump
// ---------------------------------------------------------------------------------------------

fn ref_hash_entry(key: &Address, value: &[u8]) -> Vec<u16> {
    let mut h = Sha256::new();
    h.update(key);
    h.update(value);
    let seed: [u8; 32] = h.finalize().into();
    let mut lanes = Vec::with_capacity(1024);
    for counter in 0u64..64 {
        let mut h = Sha256::new();
        h.update(seed);
        h.update(counter.to_le_bytes());
        let block: [u8; 32] = h.finalize().into();
        for j in 0..16 {
            lanes.push(u16::from_le_bytes([block[2 * j], block[2 * j + 1]]));
        }
    }
    lanes
}

fn ref_commit<'a>(entries: impl Iterator<Item = (&'a Address, &'a Vec<u8>)>) -> Vec<u16> {
    let mut acc = vec![0u16; 1024];
    for (k, v) in entries {
        for (a, b) in acc.iter_mut().zip(ref_hash_entry(k, v)) {
            *a = a.wrapping_add(b);
        }
    }
    acc
}

fn ref_digest(lanes: &[u16]) -> [u8; 32] {
    let mut bytes = Vec::with_capacity(2048);
    for l in lanes {
        bytes.extend_from_slice(&l.to_le_bytes());
    }
    Sha256::digest(&bytes).into()
}

fn checksum(lanes: &[u16]) -> u64 {
    let mut acc: u64 = 7;
    let mut i: u64 = 1;
    for l in lanes {
        acc = acc.wrapping_mul(31).wrapping_add(*l as u64).wrapping_add(i);
        i += 1;
    }
    acc
}

/// Parses the derived `Debug` output of `State` into the canonical structure string
/// `B<bitmap>[child,...]` / `L<key id>:<value id>`; returns (string, max depth of a leaf).
struct ShapeParser<'a> {
    s: &'a [u8],
    pos: usize,
    kid: &'a BTreeMap<Address, usize>,
    maxdepth: usize,
}

impl ShapeParser<'_> {
    fn eat(&mut self, lit: &str) -> bool {
        if self.s[self.pos..].starts_with(lit.as_bytes()) {
            self.pos += lit.len();
            true
        } else {
            false
        }
    }
    fn expect(&mut self, lit: &str) {
        assert!(self.eat(lit), "shape parser: expected `{lit}` at {}: {}", self.pos, String::from_utf8_lossy(&self.s[self.pos..(self.pos + 40).min(self.s.len())]));
    }
    fn number(&mut self) -> u64 {
        let st = self.pos;
        while self.pos < self.s.len() && self.s[self.pos].is_ascii_digit() {
            self.pos += 1;
        }
        std::str::from_utf8(&self.s[st..self.pos]).unwrap().parse().expect("number")
    }
    fn bytes(&mut self) -> Vec<u8> {
        self.expect("[");
        let mut v = Vec::new();
        while !self.eat("]") {
            self.eat(", ");
            v.push(self.number() as u8);
        }
        v
    }
    fn node(&mut self, depth: usize, out: &mut String) {
        if self.eat("Branch(Branch { bitmap: ") {
            let bm = self.number();
            self.expect(", children: [");
            out.push_str(&format!("B{bm}["));
            let mut first = true;
            while !self.eat("]") {
                self.eat(", ");
                if !first {
                    out.push(',');
                }
                first = false;
                self.node(depth + 1, out);
            }
            self.expect(" })");
            out.push(']');
        } else {
            self.expect("Leaf(Leaf { key: ");
            let k: Address = self.bytes().try_into().expect("32 key bytes");
            self.expect(", value: ");
            let v = self.bytes();
            self.expect(" })");
            self.maxdepth = self.maxdepth.max(depth);
            let id = self.kid.get(&k).map(|i| i.to_string()).unwrap_or("?".into());
            out.push_str(&format!("L{id}:{}", value_id(&v)));
        }
    }
}

fn shape_of(state: &State, kid: &BTreeMap<Address, usize>) -> (String, usize) {
    let dbg = format!("{state:?}");
    let mut p = ShapeParser { s: dbg.as_bytes(), pos: 0, kid, maxdepth: 0 };
    p.expect("State { root: ");
    let mut out = String::new();
    p.node(0, &mut out);
    (out, p.maxdepth)
}

// ---------------------------------------------------------------------------------------------
// trie cases
// ---------------------------------------------------------------------------------------------

struct Fork {
    state: State,
    commit: LtHash,
    reference: BTreeMap<Address, Vec<u8>>,
}

struct TrieCx {
    rec: Recorder,
    keys: Vec<Address>,
    kid: BTreeMap<Address, usize>,
    forks: Vec<Fork>,
    class: u64,
    maxdepth: usize,
    hits: u64,
    /// lthash cases: tell the model the lanes of every entry used
    with_lanes: bool,
    hents: BTreeSet<(usize, u64)>,
}

impl TrieCx {
    fn start(&mut self, tag: &str, keys: Vec<Address>, with_lanes: bool) {
        self.rec.begin_case(tag);
        self.kid = keys.iter().enumerate().map(|(i, k)| (*k, i)).collect();
        for (i, k) in keys.iter().enumerate() {
            self.rec.step(&format!("key {i} {}", hex(k)), "ok");
        }
        self.keys = keys;
        self.forks.clear();
        self.class = 0;
        self.maxdepth = 0;
        self.hits = 0;
        self.with_lanes = with_lanes;
        self.hents.clear();
    }
    fn new_state(&mut self) -> usize {
        let id = self.forks.len();
        self.rec.step(&format!("new {id}"), "ok");
        if self.with_lanes {
            self.rec.step(&format!("lnew {id}"), "ok");
        }
        self.forks.push(Fork { state: State::new(), commit: LtHash::identity(), reference: BTreeMap::new() });
        id
    }
    fn fork(&mut self, s: usize) -> usize {
        let id = self.forks.len();
        self.rec.step(&format!("fork {id} {s}"), "ok");
        if self.with_lanes {
            self.rec.step(&format!("lfork {id} {s}"), "ok");
        }
        let f = &self.forks[s];
        let nf = Fork { state: f.state.clone(), commit: f.commit.clone(), reference: f.reference.clone() };
        self.forks.push(nf);
        self.rec.count("op:fork");
        id
    }
    fn hent(&mut self, k: usize, v: u64) {
        if self.with_lanes && self.hents.insert((k, v)) {
            let mut h = LtHash::identity();
            h.add_entry(&self.keys[k], &value(v));
            let lanes: Vec<String> = h.verif_lanes().iter().map(|l| l.to_string()).collect();
            self.rec.step(&format!("hent {k} {v} {}", lanes.join(" ")), "ok");
            let r = ref_hash_entry(&self.keys[k], &value(v));
            self.rec.oracle(r.as_slice() == h.verif_lanes().as_slice(), "lthash-entry-hash", || format!("hash_entry(key {k}, value {v}) differs from SHA-256 counter-mode expansion"));
        }
    }
    /// after a write to fork `s`: every *other* fork must still show exactly its own contents
    fn check_isolation(&mut self, s: usize, op: &str) {
        for (i, f) in self.forks.iter().enumerate() {
            if i == s {
                continue;
            }
            let same = f.state.len() == f.reference.len() && f.state.iter().eq(f.reference.iter().map(|(k, v)| (k, v.as_slice())));
            self.rec.oracle(same, "fork-isolation", || format!("after `{op}` on fork {s}, fork {i} no longer shows its own contents"));
        }
    }
    fn check_commit(&mut self, s: usize, op: &str) {
        let f = &self.forks[s];
        let mut recomputed = LtHash::identity();
        for (k, v) in &f.state {
            recomputed.add_entry(k, v);
        }
        let ok = f.commit == recomputed && f.commit.digest() == recomputed.digest();
        self.rec.oracle(ok, "lthash-incremental-vs-recomputed", || format!("after `{op}` on fork {s}: incrementally maintained commitment differs from the one recomputed from the contents"));
    }
    fn ins(&mut self, s: usize, k: usize, v: u64) {
        self.hent(k, v);
        let key = self.keys[k];
        let op = format!("ins {s} {k} {v}");
        let f = &mut self.forks[s];
        let res = catch(|| f.state.insert(key, value(v)));
        let expect = f.reference.insert(key, value(v));
        let out = match &res {
            Ok(old) => format!("r {} {}", old.as_ref().map(|o| value_id(o).to_string()).unwrap_or("-".into()), f.state.len()),
            Err(_) => "panic".into(),
        };
        self.rec.step(&op, &out);
        self.rec.oracle(res.is_ok(), "state-panic", || format!("`{op}` panicked: {:?}", res.as_ref().err()));
        if let Ok(old) = &res {
            let f = &mut self.forks[s];
            f.commit.observe(&key, old.as_deref(), Some(&value(v)));
            let (len, rlen) = (f.state.len(), f.reference.len());
            self.rec.oracle(*old == expect, "map-insert-result", || format!("`{op}` returned {:?}, an ordered map returns {:?}", old.as_ref().map(|o| value_id(o)), expect.as_ref().map(|o| value_id(o))));
            self.rec.oracle(len == rlen, "map-len", || format!("after `{op}` len() = {len}, an ordered map has {rlen}"));
            self.rec.count(if old.is_some() { "ins:replace" } else { "ins:new" });
            self.class = fnv(self.class, if old.is_some() { "iR" } else { "iN" });
            if self.with_lanes {
                let o = old.as_ref().map(|o| value_id(o).to_string()).unwrap_or("-".into());
                if let Some(ov) = old {
                    self.hent(k, value_id(ov));
                }
                let c = checksum(self.forks[s].commit.verif_lanes());
                self.rec.step(&format!("lobs {s} {k} {o} {v}"), &format!("c {c}"));
            }
        }
        self.check_isolation(s, &op);
        self.check_commit(s, &op);
    }
    fn rem(&mut self, s: usize, k: usize) {
        let key = self.keys[k];
        let op = format!("rem {s} {k}");
        let f = &mut self.forks[s];
        let res = catch(|| f.state.remove(&key));
        let expect = f.reference.remove(&key);
        let out = match &res {
            Ok(old) => format!("r {} {}", old.as_ref().map(|o| value_id(o).to_string()).unwrap_or("-".into()), f.state.len()),
            Err(_) => "panic".into(),
        };
        self.rec.step(&op, &out);
        self.rec.oracle(res.is_ok(), "state-panic", || format!("`{op}` panicked: {:?}", res.as_ref().err()));
        if let Ok(old) = &res {
            let f = &mut self.forks[s];
            f.commit.observe(&key, old.as_deref(), None);
            let (len, rlen) = (f.state.len(), f.reference.len());
            self.rec.oracle(*old == expect, "map-remove-result", || format!("`{op}` returned {:?}, an ordered map returns {:?}", old.as_ref().map(|o| value_id(o)), expect.as_ref().map(|o| value_id(o))));
            self.rec.oracle(len == rlen, "map-len", || format!("after `{op}` len() = {len}, an ordered map has {rlen}"));
            self.rec.count(if old.is_some() { "rem:hit" } else { "rem:miss" });
            self.class = fnv(self.class, if old.is_some() { "rH" } else { "rM" });
            if old.is_some() {
                self.hits += 1;
            }
            if self.with_lanes {
                let o = old.as_ref().map(|o| value_id(o).to_string()).unwrap_or("-".into());
                let c = checksum(self.forks[s].commit.verif_lanes());
                self.rec.step(&format!("lobs {s} {k} {o} -"), &format!("c {c}"));
            }
        }
        self.check_isolation(s, &op);
        self.check_commit(s, &op);
    }
    fn get(&mut self, s: usize, k: usize) {
        let key = self.keys[k];
        let f = &self.forks[s];
        let got = f.state.get(&key).map(|v| v.to_vec());
        let expect = f.reference.get(&key).cloned();
        let op = format!("get {s} {k}");
        self.rec.step(&op, &format!("g {}", got.as_ref().map(|o| value_id(o).to_string()).unwrap_or("-".into())));
        self.rec.oracle(got == expect, "map-get", || format!("`{op}` = {:?}, an ordered map has {:?}", got.as_ref().map(|o| value_id(o)), expect.as_ref().map(|o| value_id(o))));
        self.rec.count(if got.is_some() { "get:hit" } else { "get:miss" });
    }
    fn iter(&mut self, s: usize) {
        let f = &self.forks[s];
        let items: Vec<(Address, Vec<u8>)> = f.state.iter().map(|(k, v)| (*k, v.to_vec())).collect();
        let line: Vec<String> = items.iter().map(|(k, v)| format!("{}:{}", self.kid[k], value_id(v))).collect();
        let expect: Vec<(Address, Vec<u8>)> = f.reference.iter().map(|(k, v)| (*k, v.clone())).collect();
        let op = format!("iter {s}");
        self.rec.step(&op, &std::iter::once("it".to_string()).chain(line).collect::<Vec<_>>().join(" "));
        self.rec.oracle(items == expect, "map-iter-order", || format!("`{op}` does not enumerate the contents in lexicographic key order ({} vs {} entries)", items.len(), expect.len()));
    }
    fn shape(&mut self, s: usize) {
        let (sh, d) = shape_of(&self.forks[s].state, &self.kid);
        self.maxdepth = self.maxdepth.max(d);
        self.rec.step(&format!("shape {s}"), &format!("sh {sh}"));
    }
    fn eq(&mut self, s: usize, t: usize) {
        let got = self.forks[s].state == self.forks[t].state;
        let expect = self.forks[s].reference == self.forks[t].reference;
        let op = format!("eq {s} {t}");
        self.rec.step(&op, &got.to_string());
        self.rec.oracle(got == expect, "state-eq-iff-equal-contents", || format!("`{op}` = {got} but the contents are {}", if expect { "equal" } else { "different" }));
        self.rec.count(if got { "eq:true" } else { "eq:false" });
    }
    /// a state rebuilt from the contents in a random order must be `==` and have the same structure
    fn check_canonical(&mut self, s: usize, rng: &mut Rng) {
        let mut entries: Vec<(Address, Vec<u8>)> = self.forks[s].reference.iter().map(|(k, v)| (*k, v.clone())).collect();
        rng.shuffle(&mut entries);
        let mut rebuilt = State::new();
        for (k, v) in entries {
            rebuilt.insert(k, v);
        }
        let ok = rebuilt == self.forks[s].state && format!("{rebuilt:?}") == format!("{:?}", self.forks[s].state);
        self.rec.oracle(ok, "canonical-structure", || format!("fork {s} is not `==` / not structurally identical to a state rebuilt from its {} entries", self.forks[s].reference.len()));
        // independent commitment
        let r = ref_commit(self.forks[s].reference.iter());
        let f = &self.forks[s];
        let ok = r.as_slice() == f.commit.verif_lanes().as_slice() && ref_digest(&r).as_slice() == AsRef::<[u8]>::as_ref(&alpenglow::crypto::Hash::from(f.commit.digest()));
        self.rec.oracle(ok, "lthash-vs-reference", || format!("fork {s}: maintained commitment / digest differs from the independent SHA-256 lattice sum over its contents"));
    }
    fn finish_case(&mut self, rng: &mut Rng) {
        let n = self.forks.len();
        for s in 0..n {
            self.iter(s);
            self.shape(s);
            self.check_canonical(s, rng);
            if self.with_lanes {
                let mut recomputed = LtHash::identity();
                for (k, v) in &self.forks[s].state {
                    recomputed.add_entry(k, v);
                }
                self.rec.step(&format!("lrec {s}"), &format!("c {}", checksum(recomputed.verif_lanes())));
            }
        }
        for s in 0..n {
            for t in s + 1..n {
                self.eq(s, t);
            }
        }
        for k in 0..self.keys.len().min(12) {
            let s = rng.below(n as u64) as usize;
            self.get(s, k);
        }
        let bucket = match self.maxdepth { 0..=1 => "0-1", 2..=5 => "2-5", 6..=20 => "6-20", 21..=45 => "21-45", _ => "46-52" };
        self.rec.count(&format!("maxdepth:{bucket}"));
        let class = fnv(self.class, &format!("{}", self.maxdepth));
        self.rec.end_case(class, self.maxdepth >= 2 && self.hits > 0);
    }
}

fn trie_case(cx: &mut TrieCx, rng: &mut Rng, nops: usize, with_lanes: bool) {
    let nkeys = if with_lanes { rng.range(2, 6) } else { rng.range(2, 40) } as usize;
    let keys = key_pool(rng, nkeys);
    cx.start(if with_lanes { "lthash" } else { "trie" }, keys, with_lanes);
    cx.new_state();
    let nvals = if with_lanes { 3 } else { 9 };
    for _ in 0..nops {
        let n = cx.forks.len();
        let s = rng.below(n as u64) as usize;
        let k = rng.below(nkeys as u64) as usize;
        match rng.below(100) {
            0..=44 => cx.ins(s, k, rng.below(nvals)),
            45..=74 => cx.rem(s, k),
            75..=82 => cx.get(s, k),
            83..=87 => {
                if n < 5 {
                    cx.fork(s);
                } else {
                    cx.iter(s);
                }
            }
            88..=91 => cx.iter(s),
            92..=96 => cx.shape(s),
            _ => {
                let t = rng.below(n as u64) as usize;
                cx.eq(s, t);
            }
        }
    }
    if with_lanes && cx.forks.len() >= 2 {
        // `+=` / `-=` of whole commitments
        let (c0, c1) = (cx.forks[0].commit.clone(), cx.forks[1].commit.clone());
        let mut sum = c0.clone();
        sum += &c1;
        // the model's commitment array index of the copy is forks.len() (states and commitments are pushed in lock step)
        cx.rec.step(&format!("lfork {} 0", cx.forks.len()), "ok");
        cx.rec.step(&format!("ladd {} 1", cx.forks.len()), &format!("c {}", checksum(sum.verif_lanes())));
        let mut back = sum.clone();
        back -= &c1;
        cx.rec.step(&format!("lsub {} 1", cx.forks.len()), &format!("c {}", checksum(back.verif_lanes())));
        cx.rec.oracle(back == c0, "lthash-add-sub-inverse", || "(a += b) -= b is not a".to_string());
    }
    cx.finish_case(rng);
}

/// equal contents via different orders and detours
fn canon_case(cx: &mut TrieCx, rng: &mut Rng) {
    let nkeys = rng.range(3, 30) as usize;
    let keys = key_pool(rng, nkeys);
    cx.start("canon", keys, false);
    let ntarget = rng.range(1, nkeys as u64 - 1) as usize;
    let mut idx: Vec<usize> = (0..nkeys).collect();
    rng.shuffle(&mut idx);
    let target: Vec<(usize, u64)> = idx[..ntarget].iter().map(|k| (*k, rng.below(5))).collect();
    let extra: Vec<usize> = idx[ntarget..].to_vec();
    let nstates = rng.range(2, 4) as usize;
    for s in 0..nstates {
        cx.new_state();
        let mut order = target.clone();
        rng.shuffle(&mut order);
        match s {
            0 => {
                for (k, v) in &order {
                    cx.ins(s, *k, *v);
                }
            }
            1 => {
                // extras first, then target, then remove the extras
                for k in &extra {
                    cx.ins(s, *k, 7);
                }
                for (k, v) in &order {
                    cx.ins(s, *k, *v);
                }
                let mut ex = extra.clone();
                rng.shuffle(&mut ex);
                for k in &ex {
                    cx.rem(s, *k);
                }
            }
            _ => {
                // interleaved, with overwritten intermediate values and re-insertions
                let mut ex = extra.clone();
                for (k, v) in &order {
                    if rng.chance(1, 2) {
                        cx.ins(s, *k, v + 1);
                    }
                    if let Some(e) = ex.pop() {
                        cx.ins(s, e, 8);
                    }
                    cx.ins(s, *k, *v);
                    if rng.chance(1, 3) {
                        cx.rem(s, *k);
                        cx.ins(s, *k, *v);
                    }
                }
                let mut ex2 = extra.clone();
                rng.shuffle(&mut ex2);
                for k in &ex2 {
                    cx.rem(s, *k);
                }
            }
        }
    }
    // all built states must be equal; then empty one of them completely
    cx.finish_case(rng);
}

// ---------------------------------------------------------------------------------------------
// engine cases
// ---------------------------------------------------------------------------------------------

#[derive(Clone)]
struct Blk {
    slot: u64,
    hash: usize,
    parent: Option<(u64, usize)>,
    known: bool,
    chunks: Vec<Vec<u64>>,
}

fn tx_bytes(id: u64) -> Vec<u8> {
    let mut v = vec![(id & 0xff) as u8, (id >> 8) as u8];
    v.extend(std::iter::repeat_n(0x5A, (id % 4) as usize));
    v
}

struct EngCx {
    engine: DummyExecution,
    rx: mpsc::Receiver<ExecutionEvent>,
    hashes: Vec<[u8; 32]>,
    seen: Vec<[u8; 32]>,
}

impl EngCx {
    fn new(rng: &mut Rng, nhashes: usize) -> Self {
        let (tx, rx) = mpsc::channel(64);
        let mut hashes = vec![[0u8; 32]];
        for _ in 1..nhashes {
            hashes.push(rng.bytes(32).try_into().unwrap());
        }
        Self { engine: DummyExecution::new(tx), rx, hashes, seen: Vec::new() }
    }
    fn block_hash(&self, id: usize) -> BlockHash {
        wincode::deserialize(&self.hashes[id]).expect("32 bytes are a block hash")
    }
    fn ipb(&self, known: bool, slot: u64, hash: usize) -> (InProgressBlock, String) {
        if known {
            (InProgressBlock::Known((Slot::new(slot), self.block_hash(hash))), format!("K {slot} {hash}"))
        } else {
            (InProgressBlock::Pending(Slot::new(slot)), format!("P {slot} -"))
        }
    }
    fn intern(&mut self, c: [u8; 32]) -> usize {
        if let Some(i) = self.seen.iter().position(|x| *x == c) {
            i
        } else {
            self.seen.push(c);
            self.seen.len() - 1
        }
    }
}

fn fold_txs(seed: [u8; 32], txs: &[u64]) -> [u8; 32] {
    let mut h = seed;
    for t in txs {
        let mut s = Sha256::new();
        s.update(h);
        s.update(tx_bytes(*t));
        h = s.finalize().into();
    }
    h
}

#[derive(Clone)]
enum EOp {
    Begin(usize),
    Exec(usize, usize),
    End(usize),
    Fin(usize),
}

fn engine_case(rec: &mut Recorder, rng: &mut Rng, chaos: bool) {
    rec.begin_case(if chaos { "chaos" } else { "engine" });
    let nblocks = rng.range(2, 9) as usize;
    let mut blocks: Vec<Blk> = Vec::new();
    let mut pending_slots = BTreeSet::new();
    let mut next_hash = 1usize;
    for i in 0..nblocks {
        // slot: mostly increasing, sometimes the same slot as an earlier block (equivocation)
        let slot = if i > 0 && rng.chance(1, 4) { blocks[rng.below(i as u64) as usize].slot } else { 1 + i as u64 + rng.below(2) };
        let hash = next_hash;
        next_hash += 1;
        let parent = match rng.below(10) {
            0 => None,
            1 => {
                // a block that is never delivered (possibly in a slot where another block is pending)
                let h = next_hash;
                next_hash += 1;
                let s = if i > 0 && rng.chance(2, 3) { blocks[rng.below(i as u64) as usize].slot } else { slot.saturating_sub(1) };
                Some((s, h))
            }
            2 => Some((0, 0)), // genesis by id
            _ if i > 0 => {
                let p = &blocks[rng.below(i as u64) as usize];
                Some((p.slot, p.hash))
            }
            _ => None,
        };
        // at most one block per slot travels as Pending in the well-formed stream
        let known = if chaos { rng.chance(1, 2) } else { pending_slots.contains(&slot) || rng.chance(1, 3) };
        if !known {
            pending_slots.insert(slot);
        }
        let nchunks = rng.below(4) as usize;
        let chunks = (0..nchunks).map(|_| (0..rng.below(4)).map(|_| rng.below(6)).collect()).collect();
        blocks.push(Blk { slot, hash, parent, known, chunks });
    }
    let mut cx = EngCx::new(rng, next_hash + 2);
    // the same block delivered a second time by repair (as `Known`) after dissemination completed it as `Pending`:
    // children that begin while the repair copy is still in progress must be seeded from the completed copy
    let mut redelivery: BTreeMap<usize, usize> = BTreeMap::new();
    if !chaos {
        for i in 0..nblocks {
            if !blocks[i].known && rng.chance(1, 3) {
                let mut d = blocks[i].clone();
                d.known = true;
                redelivery.insert(i, blocks.len());
                blocks.push(d);
            }
        }
    }
    // per-block op streams, interleaved
    let mut streams: Vec<Vec<EOp>> = blocks
        .iter()
        .enumerate()
        .take(nblocks)
        .map(|(i, b)| {
            let mut v = vec![EOp::Begin(i)];
            v.extend((0..b.chunks.len()).map(|c| EOp::Exec(i, c)));
            v.push(EOp::End(i));
            if let Some(&j) = redelivery.get(&i) {
                v.push(EOp::Begin(j));
                v.extend((0..b.chunks.len()).map(|c| EOp::Exec(j, c)));
                v.push(EOp::End(j));
            }
            v.reverse();
            v
        })
        .collect();
    let sequential = rng.chance(1, 3);
    let mut schedule: Vec<EOp> = Vec::new();
    loop {
        let live: Vec<usize> = (0..streams.len()).filter(|i| !streams[*i].is_empty()).collect();
        if live.is_empty() {
            break;
        }
        let i = if sequential || rng.chance(1, 2) { live[0] } else { *rng.pick(&live) };
        let op = streams[i].pop().unwrap();
        if chaos && rng.chance(1, 6) {
            // malformed: repeat / reorder / drop
            match rng.below(3) {
                0 => schedule.push(op.clone()),
                1 => continue,
                _ => schedule.push(EOp::End(rng.below(nblocks as u64) as usize)),
            }
        }
        let was_end = matches!(op, EOp::End(_));
        schedule.push(op);
        if was_end && rng.chance(1, 8) {
            schedule.push(EOp::Fin(i));
        }
    }

    // oracle bookkeeping (from observed events only)
    let mut reported: BTreeMap<(u64, usize), [u8; 32]> = BTreeMap::new(); // block id -> last reported commitment, still held
    let mut seed_rule: BTreeMap<usize, ([u8; 32], String)> = BTreeMap::new(); // block -> required seed at its begin, why
    let mut class = 0u64;
    let mut kinds = BTreeSet::new();
    // well-formed stream: a block that was in flight when a later slot was finalized has been pruned;
    // further calls on its behalf are outside the engine's contract (like calls without begin_block)
    // and only made in the chaos shape
    let mut in_flight: BTreeSet<usize> = BTreeSet::new();
    let mut dead: BTreeSet<usize> = BTreeSet::new();
    for op in schedule {
        if !chaos {
            match &op {
                EOp::Begin(i) => {
                    in_flight.insert(*i);
                }
                EOp::Exec(i, _) if dead.contains(i) => continue,
                EOp::End(i) => {
                    if dead.contains(i) {
                        continue;
                    }
                    in_flight.remove(i);
                }
                EOp::Fin(i) => {
                    let fs = blocks[*i].slot;
                    for j in in_flight.clone() {
                        if blocks[j].slot < fs {
                            in_flight.remove(&j);
                            dead.insert(j);
                        }
                    }
                }
                _ => {}
            }
        }
        match op {
            EOp::Begin(i) => {
                let b = blocks[i].clone();
                let (id, ids) = cx.ipb(b.known, b.slot, b.hash);
                let parent = b.parent.map(|(s, h)| (Slot::new(s), cx.block_hash(h)));
                let ps = b.parent.map(|(s, h)| format!("{s} {h}")).unwrap_or("- -".into());
                let r = catch(|| cx.engine.begin_block(id, parent));
                rec.step(&format!("begin {ids} {ps}"), if r.is_ok() { "ok" } else { "panic" });
                rec.oracle(r.is_ok(), "engine-panic", || format!("begin_block panicked: {:?}", r.as_ref().err()));
                // the seed the property demands: the commitment reported for exactly the parent id,
                // if reported before this begin and not pruned since; otherwise the parent block hash
                let seed = match b.parent {
                    None => (cx.hashes[0], "no parent: genesis hash".to_string()),
                    Some((s, h)) => match reported.get(&(s, h)) {
                        Some(c) => {
                            kinds.insert("seed:parent-commitment");
                            (*c, format!("parent ({s},{h}) was executed to completion before this block began: its reported commitment"))
                        }
                        None => {
                            kinds.insert("seed:parent-block-hash");
                            let other = blocks.iter().any(|o| o.slot == s && o.hash != h && !o.known);
                            (cx.hashes[h], format!("parent ({s},{h}) unknown to the engine when this block began (never completed{}): parent block hash", if other { "; a different block of that slot travels as Pending" } else { "" }))
                        }
                    },
                };
                seed_rule.insert(i, seed);
                // a re-begun key loses what was reported for blocks stored under it
                if chaos {
                    reported.retain(|(s, _), _| *s != b.slot);
                }
            }
            EOp::Exec(i, c) => {
                let b = blocks[i].clone();
                let (id, ids) = cx.ipb(b.known, b.slot, b.hash);
                let txs: Vec<Transaction> = b.chunks[c].iter().map(|t| Transaction(tx_bytes(*t))).collect();
                let ts: Vec<String> = b.chunks[c].iter().map(|t| t.to_string()).collect();
                let r = catch(|| cx.engine.execute_transactions(id, txs));
                rec.step(&format!("exec {ids} {}", ts.join(" ")).trim_end().to_string(), if r.is_ok() { "ok" } else { "panic" });
                rec.oracle(r.is_ok(), "engine-panic", || format!("execute_transactions panicked: {:?}", r.as_ref().err()));
            }
            EOp::End(i) => {
                let b = blocks[i].clone();
                let bid = (Slot::new(b.slot), cx.block_hash(b.hash));
                let r = catch(|| cx.engine.end_block(bid));
                let ev = cx.rx.try_recv().ok();
                let op = format!("end {} {}", b.slot, b.hash);
                let out = match (&r, &ev) {
                    (Err(_), _) => "panic".to_string(),
                    (_, None) => "none".to_string(),
                    (_, Some(ExecutionEvent::BlockExecuted { result, .. })) => {
                        let res = result.clone().expect("dummy engine never fails");
                        let c: [u8; 32] = AsRef::<[u8]>::as_ref(&alpenglow::crypto::Hash::from(res.state_commitment)).try_into().unwrap();
                        format!("ev {} {}", res.tx_count, cx.intern(c))
                    }
                };
                rec.step(&op, &out);
                rec.count(&format!("end:{}", out.split(' ').next().unwrap()));
                class = fnv(class, out.split(' ').next().unwrap());
                rec.oracle(r.is_ok(), "engine-panic", || format!("end_block panicked: {:?}", r.as_ref().err()));
                if let Some(ExecutionEvent::BlockExecuted { block_id, result }) = ev {
                    let res = result.expect("dummy engine never fails");
                    let c: [u8; 32] = AsRef::<[u8]>::as_ref(&alpenglow::crypto::Hash::from(res.state_commitment)).try_into().unwrap();
                    rec.oracle(block_id == (Slot::new(b.slot), cx.block_hash(b.hash)), "engine-event-block-id", || format!("`{op}` emitted an event for another block"));
                    if !chaos {
                        let all: Vec<u64> = b.chunks.iter().flatten().copied().collect();
                        rec.oracle(res.tx_count == all.len(), "engine-tx-count", || format!("`{op}`: tx_count {} but {} transactions were streamed", res.tx_count, all.len()));
                        if let Some((seed, why)) = seed_rule.get(&i) {
                            let want = fold_txs(*seed, &all);
                            rec.oracle(c == want, "engine-commitment-seed", || format!("`{op}`: reported commitment is not the fold of the block's {} transactions over the required seed [{why}]; block delivered as {}", all.len(), if b.known { "Known" } else { "Pending" }));
                        }
                        reported.insert((b.slot, b.hash), c);
                    }
                }
            }
            EOp::Fin(i) => {
                let b = blocks[i].clone();
                let bid = (Slot::new(b.slot), cx.block_hash(b.hash));
                let r = catch(|| cx.engine.finalize(bid));
                rec.step(&format!("fin {} {}", b.slot, b.hash), if r.is_ok() { "ok" } else { "panic" });
                rec.oracle(r.is_ok(), "engine-panic", || format!("finalize panicked: {:?}", r.as_ref().err()));
                reported.retain(|(s, _), _| *s >= b.slot);
                class = fnv(class, "fin");
            }
        }
    }
    for k in &kinds {
        rec.count(k);
    }
    if !redelivery.is_empty() { rec.count("engine:block-redelivered-by-repair"); }
    rec.end_case(fnv(class, &format!("{kinds:?}{nblocks}")), kinds.len() == 2);
}

fn main() {
    let args = Args::parse();
    quiet_panics();
    let mut rng = Rng::new(args.seed);
    let mut cx = TrieCx {
        rec: Recorder::new(),
        keys: vec![],
        kid: BTreeMap::new(),
        forks: vec![],
        class: 0,
        maxdepth: 0,
        hits: 0,
        with_lanes: false,
        hents: BTreeSet::new(),
    };
    let (ntrie, ncanon, nlt, neng, nchaos, nops) = if args.thorough { (6000, 2000, 150, 20000, 5000, 250) } else { (2400, 800, 40, 8000, 2000, 160) };
    // a panic of the real code outside the individually caught calls (get / iter / == / Debug) ends
    // the case and is reported as an oracle failure with the case as replay
    for _ in 0..ntrie {
        let n = rng.range(20, nops) as usize;
        let r = catch(|| trie_case(&mut cx, &mut rng, n, false));
        cx.rec.oracle(r.is_ok(), "state-panic", || format!("the case panicked outside insert/remove: {:?}", r.as_ref().err()));
    }
    for _ in 0..ncanon {
        let r = catch(|| canon_case(&mut cx, &mut rng));
        cx.rec.oracle(r.is_ok(), "state-panic", || format!("the case panicked outside insert/remove: {:?}", r.as_ref().err()));
    }
    for _ in 0..nlt {
        let r = catch(|| trie_case(&mut cx, &mut rng, 40, true));
        cx.rec.oracle(r.is_ok(), "state-panic", || format!("the case panicked outside insert/remove: {:?}", r.as_ref().err()));
    }
    let mut rec = cx.rec;
    for _ in 0..neng {
        engine_case(&mut rec, &mut rng, false);
    }
    for _ in 0..nchaos {
        engine_case(&mut rec, &mut rng, true);
    }
    let extra = serde_json::json!({ "trie_cases": ntrie, "canon_cases": ncanon, "lthash_cases": nlt, "engine_cases": neng, "chaos_cases": nchaos });
    rec.finish(&args, extra);
}
