//! C14 — repair: correspondence with `AgModel.Repair` + property oracle on the real `Repair`,
//! `RepairRequestHandler` and `BlockstoreImpl`. Ops / outputs: see `lean/Driver/C14.lean`.
use std::collections::HashMap;
use std::marker::PhantomData;
use std::net::SocketAddr;
use std::sync::{Arc, Mutex};

use ag_harness::*;
use alpenglow::consensus::{BlockstoreEvent, BlockstoreImpl, EpochInfo, PoolImpl, SharedBlockstore, SharedPool, ValidatorEpochInfo};
use alpenglow::crypto::Hash;
use alpenglow::crypto::merkle::{BlockHash, DoubleMerkleProof, DoubleMerkleTree, SliceRoot};
use alpenglow::crypto::signature::{PublicKey, SecretKey};
use alpenglow::network::Network;
use alpenglow::repair::{Repair, RepairRequest, RepairRequestHandler, RepairRequestType, RepairResponse};
use alpenglow::shredder::{DATA_SHREDS, RegularShredder, Shred, ShredIndex, Shredder, TOTAL_SHREDS, ValidatedShred};
use alpenglow::types::{Slice, SliceIndex, Slot};
use alpenglow::{BlockId, Transaction, ValidatorIndex};
use tokio::sync::{RwLock, mpsc};

#[path = "../shredwire.rs"]
mod shredwire;

struct RecNet<S, R> {
    sent: Arc<Mutex<Vec<S>>>,
    _r: PhantomData<fn() -> R>,
}
impl<S: Clone + Send + Sync, R: Send + Sync> Network for RecNet<S, R> {
    type Send = S;
    type Recv = R;
    async fn send(&self, message: &S, _addr: SocketAddr) -> std::io::Result<()> {
        self.sent.lock().unwrap().push(message.clone());
        Ok(())
    }
    async fn send_to_many(&self, message: &S, _addrs: impl IntoIterator<Item = SocketAddr> + Send) -> std::io::Result<()> {
        self.sent.lock().unwrap().push(message.clone());
        Ok(())
    }
    async fn receive(&self) -> std::io::Result<R> {
        std::future::pending().await
    }
}

fn slice_index(i: usize) -> SliceIndex {
    wincode::deserialize::<SliceIndex>(&(i as u64).to_le_bytes()).expect("slice index in range")
}
fn si_usize(s: SliceIndex) -> usize {
    s.to_string().parse().unwrap()
}
fn hash_from(bytes: &[u8]) -> Hash {
    wincode::deserialize::<Hash>(bytes).expect("32 bytes")
}
fn tx_bytes(id: u64) -> Vec<u8> {
    let mut v = id.to_le_bytes().to_vec();
    v.extend(std::iter::repeat_n(0xabu8, (id % 5) as usize));
    v
}
fn tx_id(tx: &Transaction) -> u64 {
    let mut b = [0u8; 8];
    if tx.0.len() >= 8 {
        b.copy_from_slice(&tx.0[..8]);
        u64::from_le_bytes(b)
    } else {
        u64::MAX
    }
}
fn checksum(ids: &[u64]) -> u64 {
    ids.iter().fold(7u64, |c, t| (c * 31 + t + 1) % 1_000_000_007)
}

#[derive(Clone, Debug)]
struct Spec {
    index: usize,
    is_last: bool,
    parent: Option<(u64, usize)>,
    txs: Option<Vec<u64>>,
}
#[derive(Clone)]
struct Built {
    spec: Spec,
    shreds: Vec<ValidatedShred>,
    rid: u64,
    root: SliceRoot,
}
#[derive(Clone)]
#[allow(dead_code)]
struct Blk {
    slot: u64,
    hid: u64,
    hash: BlockHash,
    built: Vec<Built>,
    tree: Arc<DoubleMerkleTree>,
}

struct World {
    rec: Recorder,
    rt: tokio::runtime::Runtime,
    store: SharedBlockstore,
    bs_rx: mpsc::Receiver<BlockstoreEvent>,
    _pool_rx: mpsc::Receiver<alpenglow::consensus::PoolEvent>,
    _repair_rx: mpsc::Receiver<BlockId>,
    repair: Repair<RecNet<RepairRequest, RepairResponse>>,
    handler: RepairRequestHandler<RecNet<RepairResponse, RepairRequest>>,
    req_sent: Arc<Mutex<Vec<RepairRequest>>>,
    resp_sent: Arc<Mutex<Vec<RepairResponse>>>,
    roots: HashMap<Vec<u8>, u64>,
    hashes: Vec<(u64, BlockHash)>,
    parents: Vec<BlockHash>,
    sk: SecretKey,
    pk: PublicKey,
    class: u64,
    events: Vec<String>,
    /// the requests put on the network by the last requester step, in sending order
    last_sent: Vec<RepairRequestType>,
}

fn make_node(pk: &PublicKey) -> (
    SharedBlockstore,
    mpsc::Receiver<BlockstoreEvent>,
    mpsc::Receiver<alpenglow::consensus::PoolEvent>,
    mpsc::Receiver<BlockId>,
    Repair<RecNet<RepairRequest, RepairResponse>>,
    RepairRequestHandler<RecNet<RepairResponse, RepairRequest>>,
    Arc<Mutex<Vec<RepairRequest>>>,
    Arc<Mutex<Vec<RepairResponse>>>,
) {
    let (_, epoch) = alpenglow::test_utils::generate_validators(4);
    let mut validators = epoch.validators().to_vec();
    for v in validators.iter_mut() {
        v.pubkey = *pk;
    }
    let epoch = EpochInfo::new(validators);
    let epoch_info = Arc::new(ValidatorEpochInfo::new(ValidatorIndex::new(1), epoch));
    let (bs_tx, bs_rx) = mpsc::channel(100_000);
    let store: SharedBlockstore = Arc::new(RwLock::new(BlockstoreImpl::new(bs_tx)));
    let (pool_tx, pool_rx) = mpsc::channel(100_000);
    let (repair_tx, repair_rx) = mpsc::channel(100_000);
    let pool: SharedPool = Arc::new(RwLock::new(PoolImpl::new(epoch_info.clone(), pool_tx, repair_tx)));
    let req_sent = Arc::new(Mutex::new(vec![]));
    let resp_sent = Arc::new(Mutex::new(vec![]));
    let repair = Repair::new(store.clone(), pool, RecNet { sent: req_sent.clone(), _r: PhantomData }, epoch_info.clone());
    let handler = RepairRequestHandler::new(epoch_info, store.clone(), RecNet { sent: resp_sent.clone(), _r: PhantomData });
    (store, bs_rx, pool_rx, repair_rx, repair, handler, req_sent, resp_sent)
}

#[derive(Clone, Debug)]
enum PRef {
    P(u64, usize),
    PT(u64, usize, usize),
    PJ(u64, usize, usize),
    PX(u64, usize),
    PE,
}

impl World {
    fn begin(&mut self, tag: &str) {
        self.rec.begin_case(tag);
        self.roots.clear();
        self.hashes.clear();
        self.events.clear();
        self.class = fnv(0, tag);
        let (store, bs_rx, pool_rx, repair_rx, repair, handler, req_sent, resp_sent) = make_node(&self.pk);
        self.store = store;
        self.bs_rx = bs_rx;
        self._pool_rx = pool_rx;
        self._repair_rx = repair_rx;
        self.repair = repair;
        self.handler = handler;
        self.req_sent = req_sent;
        self.resp_sent = resp_sent;
    }
    fn real_parent(&self, p: &Option<(u64, usize)>) -> Option<BlockId> {
        p.map(|(s, h)| (Slot::new(s), self.parents[h].clone()))
    }
    fn build(&mut self, slot: u64, spec: &Spec) -> Built {
        let data = match &spec.txs {
            None => vec![0xff; 11],
            Some(v) => wincode::serialize(&v.iter().map(|i| Transaction(tx_bytes(*i))).collect::<Vec<_>>()).unwrap(),
        };
        let slice = Slice { slot: Slot::new(slot), slice_index: slice_index(spec.index), is_last: spec.is_last, parent: self.real_parent(&spec.parent), data };
        let shreds = RegularShredder::default().shred(&slice, &self.sk).expect("fits").to_vec();
        let root = shreds[0].slice_root().clone();
        let key = root.as_ref().to_vec();
        let rid = match self.roots.get(&key) {
            Some(r) => *r,
            None => {
                let r = self.roots.len() as u64 + 1;
                self.roots.insert(key, r);
                let p = match spec.parent {
                    None => "-".to_string(),
                    Some((s, h)) => format!("{s}:{h}"),
                };
                let t = match &spec.txs {
                    None => "x".to_string(),
                    Some(v) if v.is_empty() => "e".to_string(),
                    Some(v) => v.iter().map(|x| x.to_string()).collect::<Vec<_>>().join(","),
                };
                self.rec.step(&format!("root {r} ok {p} {t}"), "ok");
                r
            }
        };
        Built { spec: spec.clone(), shreds, rid, root }
    }
    fn declare(&mut self, slot: u64, built: Vec<Built>) -> Blk {
        let roots: Vec<SliceRoot> = built.iter().map(|b| b.root.clone()).collect();
        let tree = DoubleMerkleTree::new(roots.iter());
        let hash = tree.get_root();
        let hid = self.hashes.len() as u64;
        let ids = built.iter().map(|b| b.rid.to_string()).collect::<Vec<_>>().join(" ");
        self.rec.step(&format!("hash {hid} {ids}"), "ok");
        self.hashes.push((hid, hash.clone()));
        Blk { slot, hid, hash, built, tree: Arc::new(tree) }
    }
    fn declare_junk(&mut self, rng: &mut Rng) -> (u64, BlockHash) {
        let h: BlockHash = hash_from(&rng.bytes(32)).into();
        let hid = self.hashes.len() as u64;
        self.rec.step(&format!("hash {hid} junk"), "ok");
        self.hashes.push((hid, h.clone()));
        (hid, h)
    }
    fn hid(&self, h: &BlockHash) -> String {
        self.hashes.iter().find(|(_, x)| x == h).map(|(i, _)| i.to_string()).unwrap_or("h?".into())
    }
    fn ph(&self, h: &BlockHash) -> String {
        self.parents.iter().position(|x| x == h).map(|i| i.to_string()).unwrap_or("p?".into())
    }
    fn req_str(&self, r: &RepairRequestType) -> String {
        match r {
            RepairRequestType::LastSliceRoot((s, h)) => format!("L:{}:{}", s.inner(), self.hid(h)),
            RepairRequestType::SliceRoot((s, h), i) => format!("R:{}:{}:{}", s.inner(), self.hid(h), si_usize(*i)),
            RepairRequestType::Shred((s, h), i, j) => format!("S:{}:{}:{}:{}", s.inner(), self.hid(h), si_usize(*i), j.inner()),
        }
    }
    fn drain_events(&mut self) -> String {
        let mut out = vec![];
        while let Ok(e) = self.bs_rx.try_recv() {
            let s = match &e {
                BlockstoreEvent::FirstShred(_) => "first".to_string(),
                BlockstoreEvent::InvalidBlock(_) => "invalid".to_string(),
                BlockstoreEvent::Block { block_info, .. } => {
                    let p = block_info.verif_parent();
                    format!("block {} {}:{}", self.hid(block_info.verif_hash()), p.0.inner(), self.ph(&p.1))
                }
            };
            self.rec.count(&format!("event:{}", s.split(' ').next().unwrap()));
            self.events.push(s.clone());
            out.push(format!("[{s}]"));
        }
        while self._pool_rx.try_recv().is_ok() {}
        while self._repair_rx.try_recv().is_ok() {}
        out.join(" ")
    }
    fn outstanding(&self) -> Vec<RepairRequestType> {
        let mut v = self.repair.verif_outstanding();
        v.sort_by_key(|r| self.req_str(r));
        v
    }
    fn step_line(&mut self, panicked: bool) -> String {
        let sent: Vec<RepairRequest> = std::mem::take(&mut *self.req_sent.lock().unwrap());
        self.last_sent = sent.iter().map(|r| r.verif_req_type().clone()).collect();
        let evs = self.drain_events();
        if panicked {
            return "panic".into();
        }
        let fl = match sent.first() {
            None => "- -".to_string(),
            Some(f) => format!("{} {}", self.req_str(f.verif_req_type()), self.req_str(sent.last().unwrap().verif_req_type())),
        };
        let out = self.repair.verif_outstanding();
        let a = out.iter().filter(|r| matches!(r, RepairRequestType::LastSliceRoot(_))).count();
        let b = out.iter().filter(|r| matches!(r, RepairRequestType::SliceRoot(..))).count();
        let c = out.iter().filter(|r| matches!(r, RepairRequestType::Shred(..))).count();
        let (to, roots) = self.repair.verif_sizes();
        format!("sent={} {fl} out={a},{b},{c} to={to} roots={roots} ev={evs}", sent.len())
    }
    fn attrs(&self, vs_root: &SliceRoot, parts: (Slot, SliceIndex, bool, usize, &[u8]), is_data: bool) -> String {
        let (_, si, il, idx, data) = parts;
        let rid = self.roots.get(vs_root.as_ref()).copied().unwrap_or(0);
        let sz = if data.is_empty() || data.len() % 2 == 1 { 0 } else { data.len() };
        let ty = is_data == (idx < DATA_SHREDS);
        format!("{} {} {} {} {} {}", si_usize(si), il as u8, rid, idx, sz, ty as u8)
    }
    fn dis(&mut self, slot: u64, vs: &ValidatedShred) {
        let a = self.attrs(vs.slice_root(), vs.payload().verif_parts(), vs.is_data());
        let store = self.store.clone();
        let vs = vs.clone();
        let res = catch(|| self.rt.block_on(async { store.write().await.add_shred_from_dissemination(vs).await }));
        let r = match &res {
            Err(_) => "panic".to_string(),
            Ok(Ok(None)) => "none".to_string(),
            Ok(Ok(Some(info))) => {
                let p = info.verif_parent();
                format!("block {} {}:{}", self.hid(info.verif_hash()), p.0.inner(), self.ph(&p.1))
            }
            Ok(Err(e)) => match e {
                alpenglow::consensus::AddShredError::Duplicate => "dup",
                alpenglow::consensus::AddShredError::Equivocation => "equiv",
                alpenglow::consensus::AddShredError::InvalidShred => "invalidshred",
                // (`WrongType` since the D15 fix; matched by name so that the harness also builds against a tree without it)
                #[allow(unreachable_patterns)]
                other if format!("{other:?}") == "WrongType" => "wrongtype",
                #[allow(unreachable_patterns)]
                _ => "other-error",
            }
            .to_string(),
        };
        let evs = self.drain_events();
        self.rec.step(&format!("dis {slot} {a}"), &format!("{r} | {evs}"));
    }
    /// D34: a copy of the genuine shred `vs` whose signature bytes a relay replaced by garbage arrives from
    /// dissemination and is validated as the node does (`try_new` with the blockstore's cached commitment). It must be
    /// refused (oracle only). If it is accepted it is stored, as the node would: the responder oracles then show what
    /// the node serves to its repair peers.
    fn junk_sig_attempt(&mut self, vs: &ValidatedShred, rng: &mut Rng) {
        let mut w = shredwire::Wire::of(vs.as_shred());
        w.sig = rng.bytes(64);
        let Some(junk) = w.decode() else { return };
        let (slot, si, _, idx, _) = vs.payload().verif_parts();
        let store = self.store.clone();
        let cached = self.rt.block_on(async { store.read().await.cached_commitment(slot, si) });
        let r = catch(|| ValidatedShred::try_new(junk, cached.as_ref(), &self.pk));
        let verdict = match &r {
            Err(_) => "panic",
            Ok(Ok(_)) => "accepted",
            Ok(Err(alpenglow::shredder::ShredValidationError::InvalidSignature)) => "InvalidSignature",
            Ok(Err(alpenglow::shredder::ShredValidationError::Equivocation)) => "Equivocation",
        };
        self.rec.count(&format!("junk-signature:cache={}:{verdict}", cached.is_some()));
        self.rec.oracle(verdict == "InvalidSignature", "unverified-signature-accepted-on-cache-hit", || {
            format!("shred {idx} of slice {} of slot {} of a correct leader, signature bytes replaced by garbage, validated with the blockstore's cached commitment (present: {}): try_new answered {verdict}", si_usize(si), slot.inner(), cached.is_some())
        });
        if let Ok(Ok(v)) = r {
            let _ = catch(|| self.rt.block_on(async { store.write().await.add_shred_from_dissemination(v).await }));
        }
    }
    fn repair_block(&mut self, slot: u64, hid: u64, h: &BlockHash) {
        let bid = (Slot::new(slot), h.clone());
        let rep = &mut self.repair;
        let rt = &self.rt;
        let res = catch(|| rt.block_on(rep.repair_block(bid)));
        let line = self.step_line(res.is_err());
        self.rec.oracle(res.is_ok(), "repair-task-panics", || format!("repair_block panicked: {res:?}"));
        self.rec.step(&format!("repair L:{slot}:{hid}"), &line);
    }
    fn timeout(&mut self) {
        let rep = &mut self.repair;
        let rt = &self.rt;
        let res = catch(|| rt.block_on(rep.verif_fire_next_timeout()));
        let line = self.step_line(res.is_err());
        self.rec.oracle(res.is_ok(), "repair-task-panics", || format!("timeout handling panicked: {res:?}"));
        self.rec.step("timeout", &line);
    }
    fn proof(&self, blocks: &[Blk], p: &PRef, rng_junk: &Hash) -> (String, DoubleMerkleProof) {
        let get = |hid: u64, i: usize| -> Vec<Hash> {
            let b = blocks.iter().find(|b| b.hid == hid).expect("tree");
            let pr = b.tree.create_proof(i);
            let s: &[Hash] = pr.as_ref();
            s.to_vec()
        };
        let (s, v) = match p {
            PRef::P(h, i) => (format!("P:{h}:{i}"), get(*h, *i)),
            PRef::PT(h, i, n) => (format!("PT:{h}:{i}:{n}"), get(*h, *i).into_iter().take(*n).collect()),
            PRef::PJ(h, i, k) => {
                let mut v = get(*h, *i);
                if *k < v.len() {
                    v[*k] = rng_junk.clone();
                }
                (format!("PJ:{h}:{i}:{k}"), v)
            }
            PRef::PX(h, i) => {
                let mut v = get(*h, *i);
                v.push(rng_junk.clone());
                (format!("PX:{h}:{i}"), v)
            }
            PRef::PE => ("PE".to_string(), vec![]),
        };
        (s, v.into())
    }
    /// sends one response to the requester; `op` is the op line
    fn respond(&mut self, op: String, resp: RepairResponse, kind: &str) -> bool {
        let rep = &mut self.repair;
        let rt = &self.rt;
        let res = catch(|| rt.block_on(rep.verif_handle_response(resp)));
        let line = self.step_line(res.is_err());
        self.rec.count(&format!("resp:{kind}"));
        self.rec.oracle(res.is_ok(), "repair-task-panics", || format!("`{op}` crashed the repair task: {:?}", res.as_ref().err()));
        self.class = fnv(self.class, &format!("{kind}{}", line.split(' ').next().unwrap()));
        self.rec.step(&op, &line);
        res.is_ok()
    }
    fn shred_resp_op(&self, req: &RepairRequestType, shred: &Shred) -> String {
        let sig_ok = ValidatedShred::try_new(shred.clone(), None, &self.pk).is_ok();
        let root = shred.slice_root();
        let parts = shred.payload().verif_parts();
        format!("resp shred {} {} {} {}", self.req_str(req), parts.0.inner(), self.attrs(&root, parts, shred.is_data()), sig_ok as u8)
    }
    fn q_blk(&mut self, slot: u64, hid: u64, h: &BlockHash) -> Option<(BlockHash, BlockId, Vec<u64>)> {
        let store = self.store.clone();
        let bid = (Slot::new(slot), h.clone());
        let res = catch(|| {
            self.rt.block_on(async {
                store.read().await.get_block(&bid).map(|b| (b.verif_hash().clone(), b.verif_parent(), b.verif_transactions().iter().map(tx_id).collect::<Vec<_>>()))
            })
        });
        let (out, r) = match res {
            Err(_) => ("panic".to_string(), None),
            Ok(None) => ("-".to_string(), None),
            Ok(Some((hash, parent, ids))) => (format!("{} {}:{} {} {}", self.hid(&hash), parent.0.inner(), self.ph(&parent.1), ids.len(), checksum(&ids)), Some((hash, parent, ids))),
        };
        self.rec.oracle(out != "panic", "blockstore-query-panics", || format!("get_block(slot {slot}, hash {hid}) panicked"));
        self.rec.step(&format!("q blk {slot} {hid}"), &out);
        r
    }
    /// asks the responder; returns the response
    fn ask(&mut self, req: RepairRequestType) -> Option<RepairResponse> {
        let op = format!("ask {}", self.req_str(&req));
        let request = RepairRequest::verif_new(ValidatorIndex::new(0), req.clone());
        let h = &self.handler;
        let rt = &self.rt;
        let res = catch(|| rt.block_on(h.verif_answer_request(request)));
        let resp = self.resp_sent.lock().unwrap().pop();
        self.resp_sent.lock().unwrap().clear();
        let out = match (&res, &resp) {
            (Err(_), _) => "panic".to_string(),
            (_, None) => "noresponse".to_string(),
            (_, Some(RepairResponse::Nack(r))) => format!("nack {}", self.req_str(r)),
            (_, Some(RepairResponse::LastSliceRoot(r, l, root, proof))) => {
                let h = match r {
                    RepairRequestType::LastSliceRoot((_, h)) | RepairRequestType::SliceRoot((_, h), _) | RepairRequestType::Shred((_, h), _, _) => h,
                };
                let ok = DoubleMerkleTree::check_proof_last(root, si_usize(*l), h, proof);
                let n: &[Hash] = proof.as_ref();
                format!("last {} {} {} len={} ok={}", self.req_str(r), si_usize(*l), self.roots.get(root.as_ref()).copied().unwrap_or(0), n.len(), ok as u8)
            }
            (_, Some(RepairResponse::SliceRoot(r, root, proof))) => {
                let (h, i) = match r {
                    RepairRequestType::SliceRoot((_, h), i) => (h, si_usize(*i)),
                    RepairRequestType::LastSliceRoot((_, h)) | RepairRequestType::Shred((_, h), _, _) => (h, 0),
                };
                let ok = DoubleMerkleTree::check_proof(root, i, h, proof);
                let n: &[Hash] = proof.as_ref();
                format!("root {} {} len={} ok={}", self.req_str(r), self.roots.get(root.as_ref()).copied().unwrap_or(0), n.len(), ok as u8)
            }
            (_, Some(RepairResponse::Shred(r, shred))) => {
                format!("shred {} {}", self.req_str(r), self.attrs(&shred.slice_root(), shred.payload().verif_parts(), shred.is_data()))
            }
        };
        self.rec.count(&format!("answer:{}", out.split(' ').next().unwrap()));
        self.rec.oracle(res.is_ok(), "responder-panics", || format!("`{op}` crashed the responder"));
        self.rec.step(&op, &out);
        resp
    }
}

fn honest_specs(rng: &mut Rng, n: usize, slot: u64, base_tx: u64) -> Vec<Spec> {
    let mut next_tx = base_tx;
    let switch_at = if n > 1 && rng.chance(1, 3) { Some(rng.range(1, n as u64 - 1) as usize) } else { None };
    (0..n)
        .map(|i| {
            let parent = if i == 0 {
                Some((rng.below(slot), 0usize))
            } else if Some(i) == switch_at {
                Some((rng.below(slot), 1 + rng.below(3) as usize))
            } else {
                None
            };
            let k = rng.below(3);
            let mut ids = vec![];
            for _ in 0..k {
                ids.push(next_tx);
                next_tx += 1;
            }
            Spec { index: i, is_last: i == n - 1, parent, txs: Some(ids) }
        })
        .collect()
}

fn tamper(shred: &Shred, offset_from_end: Option<usize>, offset: Option<usize>) -> Option<Shred> {
    let mut bytes = wincode::serialize(shred).ok()?;
    let n = bytes.len();
    if let Some(o) = offset_from_end {
        bytes[n - 1 - o] ^= 0x01;
    }
    if let Some(o) = offset {
        bytes[o] ^= 0x01;
    }
    wincode::deserialize::<Shred>(&bytes).ok()
}

/// the correct response of an honest peer holding `blk` to request `req`
fn correct_response(w: &World, blk: &Blk, req: &RepairRequestType) -> (String, RepairResponse) {
    let n = blk.built.len();
    match req {
        RepairRequestType::LastSliceRoot(_) => (
            format!("resp last {} {} {} P:{}:{}", w.req_str(req), n - 1, blk.built[n - 1].rid, blk.hid, n - 1),
            RepairResponse::LastSliceRoot(req.clone(), slice_index(n - 1), blk.built[n - 1].root.clone(), blk.tree.create_proof(n - 1)),
        ),
        RepairRequestType::SliceRoot(_, i) => {
            let i = si_usize(*i);
            (
                format!("resp root {} {} P:{}:{}", w.req_str(req), blk.built[i].rid, blk.hid, i),
                RepairResponse::SliceRoot(req.clone(), blk.built[i].root.clone(), blk.tree.create_proof(i)),
            )
        }
        RepairRequestType::Shred(_, i, j) => {
            let shred = blk.built[si_usize(*i)].shreds[j.inner()].clone().into_shred();
            (w.shred_resp_op(req, &shred), RepairResponse::Shred(req.clone(), shred))
        }
    }
}

fn main() {
    let args = Args::parse();
    quiet_panics();
    let mut rng = Rng::new(args.seed);
    let rt = tokio::runtime::Builder::new_current_thread().enable_all().build().unwrap();
    let mut krng = rng.fork();
    let sk = SecretKey::new(&mut krng);
    let pk = sk.to_pk();
    let parents: Vec<BlockHash> = (0..4).map(|_| hash_from(&rng.bytes(32)).into()).collect();
    let (store, bs_rx, pool_rx, repair_rx, repair, handler, req_sent, resp_sent) = make_node(&pk);
    let mut w = World {
        rec: Recorder::new(),
        rt,
        store,
        bs_rx,
        _pool_rx: pool_rx,
        _repair_rx: repair_rx,
        repair,
        handler,
        req_sent,
        resp_sent,
        roots: HashMap::new(),
        hashes: vec![],
        parents,
        sk,
        pk,
        class: 0,
        events: vec![],
        last_sent: vec![],
    };
    let rounds = if args.thorough { 40 } else { 16 };
    let max_n = if args.thorough { 5 } else { 3 };

    for round in 0..rounds {
        // ================= requester under hostile / delayed / duplicated responses =================
        for hostile_level in 0..3u64 {
            let n = rng.range(1, max_n) as usize;
            let slot = rng.range(2, 30);
            w.begin(["repair-honest", "repair-hostile", "repair-very-hostile"][hostile_level as usize]);
            let specs = honest_specs(&mut rng, n, slot, 1);
            let built: Vec<Built> = specs.iter().map(|s| w.build(slot, s)).collect();
            let blk = w.declare(slot, built);
            // material of a Byzantine leader: conflicting slice, early last marker, another block
            let j = rng.below(n as u64) as usize;
            let mut alt = specs[j].clone();
            alt.txs = Some(vec![900 + rng.below(9)]);
            let alt_b = w.build(slot, &alt);
            let mut early = specs[j].clone();
            early.is_last = !early.is_last;
            let early_b = w.build(slot, &early);
            let other_specs = honest_specs(&mut rng, n.max(2), slot, 500);
            let other_built: Vec<Built> = other_specs.iter().map(|s| w.build(slot, s)).collect();
            let other = w.declare(slot, other_built);
            let junk = w.declare_junk(&mut rng);
            let junk_hash = hash_from(&rng.bytes(32));
            let blocks = vec![blk.clone(), other.clone()];
            // a different block of the same slot arrives through dissemination meanwhile (untouched by repair)
            let dissem_other = rng.chance(1, 2);
            if dissem_other {
                for b in &other.built {
                    for i in 0..DATA_SHREDS {
                        w.dis(slot, &b.shreds[i]);
                    }
                }
            }
            w.repair_block(slot, blk.hid, &blk.hash);
            let bid: BlockId = (Slot::new(slot), blk.hash.clone());
            let mut history: Vec<(String, RepairResponse)> = vec![];
            let mut budget = 40 + 200 * n;
            let mut stored_at_some_point = false;
            let mut reissued = 0;
            while budget > 0 {
                budget -= 1;
                let out = w.outstanding();
                if out.is_empty() {
                    break;
                }
                // the pool asks again for the block while its repair is in flight (duplicate repair requests are normal):
                // the LastSliceRoot request is re-issued in a state in which slice roots of the block are already proven,
                // and the hostile peer answers it like the first one
                if hostile_level > 0 && reissued < 2 && rng.chance(1, 30) && !out.iter().any(|r| matches!(r, RepairRequestType::LastSliceRoot(_))) {
                    reissued += 1;
                    w.rec.count("reissued-while-in-flight");
                    w.repair_block(slot, blk.hid, &blk.hash);
                    continue;
                }
                let non_shred: Vec<&RepairRequestType> = out.iter().filter(|r| !matches!(r, RepairRequestType::Shred(..))).collect();
                let req = if !non_shred.is_empty() && rng.chance(2, 3) { non_shred[rng.below(non_shred.len() as u64) as usize].clone() } else { out[rng.below(out.len() as u64) as usize].clone() };
                let roll = rng.below(100);
                let is_shred_req = matches!(req, RepairRequestType::Shred(..));
                let hostile = roll < 12 * hostile_level || (!is_shred_req && hostile_level > 0 && roll < 70);
                if hostile {
                    // ---------- hostile responses ----------
                    let before = w.repair.verif_outstanding().len();
                    let kind = rng.below(12);
                    let (op, resp, name): (String, RepairResponse, &str) = match (&req, kind) {
                        (_, 0) => {
                            // unsolicited: a response to a request never made (other block)
                            let r2 = RepairRequestType::LastSliceRoot((Slot::new(slot), other.hash.clone()));
                            if out.contains(&r2) { continue; }
                            let (op, resp) = correct_response(&w, &other, &r2);
                            (op, resp, "unsolicited")
                        }
                        (_, 1) if !history.is_empty() => {
                            let (op, resp) = history[rng.below(history.len() as u64) as usize].clone();
                            (op, resp, "replay")
                        }
                        (RepairRequestType::LastSliceRoot(_), 2) => {
                            // wrong variant
                            let (s, p) = w.proof(&blocks, &PRef::P(blk.hid, 0), &junk_hash);
                            (format!("resp root {} {} {s}", w.req_str(&req), blk.built[0].rid), RepairResponse::SliceRoot(req.clone(), blk.built[0].root.clone(), p), "wrong-variant")
                        }
                        (RepairRequestType::LastSliceRoot(_), 3 | 4) if n > 1 => {
                            // claims an earlier slice is the last one (valid membership proof, not a last-leaf proof)
                            let k = rng.below(n as u64 - 1) as usize;
                            let (s, p) = w.proof(&blocks, &PRef::P(blk.hid, k), &junk_hash);
                            (format!("resp last {} {k} {} {s}", w.req_str(&req), blk.built[k].rid), RepairResponse::LastSliceRoot(req.clone(), slice_index(k), blk.built[k].root.clone(), p), "last-too-small")
                        }
                        (RepairRequestType::LastSliceRoot(_), 5 | 6) => {
                            // inflated / aliased slice count: index n-1 + k*2^h with the proof of the real last leaf
                            let hgt = blk.tree.height();
                            let k = (n - 1) + (1usize << hgt) * rng.range(1, 3) as usize;
                            if k >= 1024 { continue; }
                            let (s, p) = w.proof(&blocks, &PRef::P(blk.hid, n - 1), &junk_hash);
                            (format!("resp last {} {k} {} {s}", w.req_str(&req), blk.built[n - 1].rid), RepairResponse::LastSliceRoot(req.clone(), slice_index(k), blk.built[n - 1].root.clone(), p), "last-aliased")
                        }
                        (RepairRequestType::LastSliceRoot(_), _) | (RepairRequestType::SliceRoot(..), 2..=7) => {
                            // corrupted proof / wrong root / proof of another tree
                            let i = match &req { RepairRequestType::SliceRoot(_, i) => si_usize(*i), _ => n - 1 };
                            let pl = blk.tree.height();
                            let pref = match rng.below(6) {
                                0 => PRef::PE,
                                1 => PRef::PT(blk.hid, i, pl.saturating_sub(1)),
                                2 => PRef::PJ(blk.hid, i, rng.below(pl.max(1) as u64) as usize),
                                3 => PRef::PX(blk.hid, i),
                                4 => PRef::P(other.hid, i.min(other.built.len() - 1)),
                                _ => PRef::P(blk.hid, i),
                            };
                            let wrong_root = matches!(pref, PRef::P(h, _) if h == blk.hid);
                            // a 1-leaf tree has the empty proof: PE / PT are then the correct proof, use a wrong root instead
                            let wrong_root = wrong_root || pl == 0;
                            let (rid, root) = if wrong_root { (alt_b.rid, alt_b.root.clone()) } else { (blk.built[i].rid, blk.built[i].root.clone()) };
                            let (s, p) = w.proof(&blocks, &pref, &junk_hash);
                            match &req {
                                RepairRequestType::SliceRoot(..) => (format!("resp root {} {rid} {s}", w.req_str(&req)), RepairResponse::SliceRoot(req.clone(), root, p), "bad-proof-or-root"),
                                _ => (format!("resp last {} {} {rid} {s}", w.req_str(&req), n - 1), RepairResponse::LastSliceRoot(req.clone(), slice_index(n - 1), root, p), "bad-proof-or-root"),
                            }
                        }
                        (RepairRequestType::SliceRoot(_, i), _) => {
                            // wrong variant: LastSliceRoot / Shred response carrying a SliceRoot request
                            let i = si_usize(*i);
                            if rng.chance(1, 2) {
                                let (s, p) = w.proof(&blocks, &PRef::P(blk.hid, i), &junk_hash);
                                (format!("resp last {} {i} {} {s}", w.req_str(&req), blk.built[i].rid), RepairResponse::LastSliceRoot(req.clone(), slice_index(i), blk.built[i].root.clone(), p), "wrong-variant")
                            } else {
                                let shred = blk.built[i].shreds[0].clone().into_shred();
                                (w.shred_resp_op(&req, &shred), RepairResponse::Shred(req.clone(), shred), "wrong-variant")
                            }
                        }
                        (RepairRequestType::Shred(_, i, jx), k) => {
                            let (i, jx) = (si_usize(*i), jx.inner());
                            let good = blk.built[i].shreds[jx].clone().into_shred();
                            let (shred, name): (Shred, &str) = match k {
                                2 => (blk.built[i].shreds[(jx + 1) % TOTAL_SHREDS].clone().into_shred(), "shred-wrong-index"),
                                3 => (blk.built[(i + 1) % n].shreds[jx].clone().into_shred(), if n > 1 { "shred-wrong-slice" } else { "shred-same" }),
                                4 => (alt_b.shreds[jx].clone().into_shred(), "shred-conflicting-slice"),
                                5 => (early_b.shreds[jx].clone().into_shred(), "shred-other-last-marker"),
                                6 => match tamper(&good, Some(40), None) { Some(s) => (s, "shred-tampered-tail"), None => continue },
                                7 => match tamper(&good, None, Some(20)) { Some(s) => (s, "shred-tampered-header"), None => continue },
                                8 => match tamper(&good, None, Some(45)) { Some(s) => (s, "shred-tampered-data"), None => continue },
                                9 => (other.built[i.min(other.built.len() - 1)].shreds[jx].clone().into_shred(), "shred-other-block"),
                                _ => {
                                    // wrong variant: a SliceRoot response carrying a Shred request
                                    let (s, p) = w.proof(&blocks, &PRef::P(blk.hid, i), &junk_hash);
                                    let op = format!("resp root {} {} {s}", w.req_str(&req), blk.built[i].rid);
                                    let resp = RepairResponse::SliceRoot(req.clone(), blk.built[i].root.clone(), p);
                                    let ok = w.respond(op, resp, "wrong-variant");
                                    let _ = ok;
                                    continue;
                                }
                            };
                            if name == "shred-same" { continue; }
                            // a leader-signed shred with the proven root and the requested indices is a correct answer,
                            // whichever block it was cut from (slices with equal content have equal roots)
                            {
                                let parts = shred.payload().verif_parts();
                                if shred.slice_root() == blk.built[i].root && si_usize(parts.1) == i && parts.3 == jx && parts.2 == blk.built[i].spec.is_last
                                    && ValidatedShred::try_new(shred.clone(), None, &w.pk).is_ok() { continue; }
                            }
                            (w.shred_resp_op(&req, &shred), RepairResponse::Shred(req.clone(), shred), name)
                        }
                    };
                    // (a leader-signed shred with the proven root and the requested indices but the *other* last-slice
                    //  marker, whichever block it was cut from, is an invalid answer since fix D26: the requester compares
                    //  the marker with the last slice index it proved, so it is treated like every other hostile response)
                    // a "hostile" response that happens to be byte-identical to the honest one (blocks with equal
                    // slices have equal roots / trees) is simply a correct response
                    let same_as_correct = wincode::serialize(&resp).ok() == wincode::serialize(&correct_response(&w, &blk, &req).1).ok();
                    let name = if same_as_correct { "correct" } else { name };
                    w.respond(op.clone(), resp, name);
                    if same_as_correct { continue; }
                    // a hostile response must not cancel the request it claims to answer
                    let still = w.repair.verif_outstanding().contains(&req);
                    if name != "unsolicited" && name != "replay" {
                        let rs = w.req_str(&req);
                        w.rec.oracle(still, "hostile-response-cancels-request", || format!("after `{op}` ({name}) the request {rs} is no longer outstanding (had {before} outstanding)"));
                        if name == "last-too-small" || name == "last-aliased" {
                            let nsent = w.last_sent.len();
                            w.rec.oracle(still && nsent == 0, "repair-last-slice-misreported", || format!("`{op}` ({name}; {reissued} re-issued repair requests before) was accepted as the last slice of a {n}-slice block: request {rs} still outstanding: {still}, {nsent} follow-up requests sent"));
                        }
                    }
                } else if roll < 12 * hostile_level + 6 {
                    w.timeout();
                } else if roll < 12 * hostile_level + 10 {
                    let op = format!("resp nack {}", w.req_str(&req));
                    w.respond(op, RepairResponse::Nack(req.clone()), "nack");
                } else {
                    let (op, resp) = correct_response(&w, &blk, &req);
                    if history.len() < 50 {
                        history.push((op.clone(), resp.clone()));
                    }
                    w.respond(op, resp, "correct");
                }
                // integrity at every point: whatever is stored under an id hashes to it
                let got = w.rt.block_on(async { w.store.read().await.get_block(&bid).map(|b| b.verif_hash().clone()) });
                if let Some(h) = &got {
                    stored_at_some_point = true;
                    w.rec.oracle(*h == blk.hash, "stored-under-wrong-id", || "get_block(id) returns a block whose hash is not id".to_string());
                }
            }
            // final phase: an honest peer answers everything that is still outstanding (timeouts fire in between)
            let mut rounds_left = 3 * (n * TOTAL_SHREDS + n + 2);
            loop {
                let done = w.rt.block_on(async { w.store.read().await.get_block(&bid).is_some() });
                if done || rounds_left == 0 { break; }
                rounds_left -= 1;
                let out = w.outstanding();
                if out.is_empty() { break; }
                let req = out[0].clone();
                if !matches!(&req, RepairRequestType::LastSliceRoot((_, h)) | RepairRequestType::SliceRoot((_, h), _) | RepairRequestType::Shred((_, h), _, _) if *h == blk.hash) {
                    // a request about another block (none is ever made here)
                    break;
                }
                let (op, resp) = correct_response(&w, &blk, &req);
                w.respond(op, resp, "correct");
            }
            let res = w.q_blk(slot, blk.hid, &blk.hash);
            let fp = {
                let mut p = specs[0].parent.unwrap();
                for s in &specs[1..] { if let Some(q) = s.parent { p = q; } }
                (Slot::new(p.0), w.parents[p.1].clone())
            };
            let txs: Vec<u64> = specs.iter().flat_map(|s| s.txs.clone().unwrap()).collect();
            let flagged = w.events.iter().any(|e| e == "invalid");
            // no exemption any more: since fix D26 no response of this generator (in particular no leader-signed shred with the
            // other last-slice marker) may reach the blockstore except the leader's own shreds of this block
            {
                let outs = w.outstanding().iter().map(|r| w.req_str(r)).collect::<Vec<_>>();
                w.rec.oracle(res.as_ref().is_some_and(|(h, p, ids)| *h == blk.hash && *p == fp && *ids == txs), "repair-derailed", || {
                    format!("repair of a {n}-slice block did not complete although every outstanding request was finally answered correctly (hostile level {hostile_level}, slot flagged: {flagged}, stored at some point: {stored_at_some_point}); outstanding now: {:?}", outs)
                });
            }
            if let Some((h, _, _)) = &res {
                w.rec.oracle(*h == blk.hash, "stored-under-wrong-id", || "get_block(id) returns a block whose hash is not id".to_string());
            }
            w.q_blk(slot, junk.0, &junk.1);
            let o = w.q_blk(slot, other.hid, &other.hash);
            if dissem_other && !flagged {
                w.rec.oracle(o.as_ref().is_some_and(|(h, _, _)| *h == other.hash), "repair-corrupts-dissemination", || "the disseminated block of the slot was disturbed by the repair".to_string());
            }
            let c = w.class;
            w.rec.end_case(c, true);
        }

        // ================= two blocks of one slot repaired concurrently; a repair re-requested while in flight =================
        {
            let n = rng.range(1, max_n) as usize;
            let slot = rng.range(2, 30);
            w.begin("repair-two-blocks-one-slot");
            let specs_a = honest_specs(&mut rng, n, slot, 1);
            let built_a: Vec<Built> = specs_a.iter().map(|s| w.build(slot, s)).collect();
            let a = w.declare(slot, built_a);
            let nb = rng.range(1, max_n) as usize;
            let specs_b = honest_specs(&mut rng, nb, slot, 700);
            let built_b: Vec<Built> = specs_b.iter().map(|s| w.build(slot, s)).collect();
            let b = w.declare(slot, built_b);
            w.repair_block(slot, a.hid, &a.hash);
            w.repair_block(slot, b.hid, &b.hash);
            let mut guard = 0usize;
            let mut rerequested = 0;
            loop {
                guard += 1;
                let out = w.outstanding();
                if out.is_empty() || guard > 6000 { break; }
                // correct answers only, in any order; sometimes a timeout; sometimes the pool asks again for a block
                // whose repair is in flight (duplicate repair requests are normal)
                let roll = rng.below(100);
                if roll < 4 {
                    w.timeout();
                    continue;
                }
                if roll < 8 && rerequested < 6 {
                    rerequested += 1;
                    let which = if rng.chance(1, 2) { &a } else { &b };
                    let (hid, h) = (which.hid, which.hash.clone());
                    w.repair_block(slot, hid, &h);
                    continue;
                }
                let req = out[rng.below(out.len() as u64) as usize].clone();
                let h = match &req { RepairRequestType::LastSliceRoot((_, h)) | RepairRequestType::SliceRoot((_, h), _) | RepairRequestType::Shred((_, h), _, _) => h.clone() };
                let blk = if h == a.hash { &a } else { &b };
                let (op, resp) = correct_response(&w, blk, &req);
                if !w.respond(op, resp, "correct") { break; }
            }
            for (blk, specs) in [(&a, &specs_a), (&b, &specs_b)] {
                let res = w.q_blk(slot, blk.hid, &blk.hash);
                let txs: Vec<u64> = specs.iter().flat_map(|s| s.txs.clone().unwrap()).collect();
                let outs = w.outstanding().iter().map(|r| w.req_str(r)).collect::<Vec<_>>();
                w.rec.oracle(res.as_ref().is_some_and(|(h, _, ids)| *h == blk.hash && *ids == txs), "repair-derailed", || {
                    format!("two blocks of slot {slot} under repair at once, every request answered correctly ({rerequested} duplicate repair requests): block {} was not completed; outstanding now {:?}", blk.hid, outs)
                });
            }
            let c = w.class;
            w.rec.end_case(c, true);
        }

        // ================= re-issued LastSliceRoot request answered with an INNER slice whose root was proven before =================
        // history: LastSliceRoot + SliceRoot responses handled (roots proven by check_proof_last / check_proof), block still
        // incomplete, repair_block called again; a hostile peer answers LastSliceRoot(k < last, root_k, membership proof of k):
        // root_k is a proven slice root, but proven by position only - it says nothing about last-ness (C15, second sentence)
        {
            let n = rng.range(2, max_n.max(2)) as usize;
            let slot = rng.range(2, 30);
            w.begin("repair-reissued-last-root");
            let specs = honest_specs(&mut rng, n, slot, 1);
            let built: Vec<Built> = specs.iter().map(|s| w.build(slot, s)).collect();
            let blk = w.declare(slot, built);
            let blocks = vec![blk.clone()];
            let junk_hash = hash_from(&rng.bytes(32));
            let bid: BlockId = (Slot::new(slot), blk.hash.clone());
            w.repair_block(slot, blk.hid, &blk.hash);
            // phase 1: an honest peer answers every root request and part of the shred requests: slice `hold` stays below
            // 32 shreds (block incomplete), at most 40 shred requests of the last slice are answered
            let hold = rng.below(n as u64) as usize;
            let hold_served = rng.below(32) as usize;
            let mut served = vec![0usize; n];
            let mut guard = 0;
            loop {
                guard += 1;
                let mut out = w.outstanding();
                rng.shuffle(&mut out);
                let req = out.into_iter().find(|r| match r {
                    RepairRequestType::Shred(_, i, _) => { let i = si_usize(*i); served[i] < if i == hold { hold_served } else if i == n - 1 { 40 } else { TOTAL_SHREDS } }
                    _ => true,
                });
                let Some(req) = req else { break };
                if guard > 4000 { break; }
                if let RepairRequestType::Shred(_, i, _) = &req { served[si_usize(*i)] += 1; }
                let (op, resp) = correct_response(&w, &blk, &req);
                if !w.respond(op, resp, "correct") { break; }
            }
            let stored_early = w.rt.block_on(async { w.store.read().await.get_block(&bid).is_some() });
            // phase 2: the pool asks for the block again; the hostile peer names every inner slice as the last one
            w.repair_block(slot, blk.hid, &blk.hash);
            let lreq = RepairRequestType::LastSliceRoot(bid.clone());
            let reissued = w.repair.verif_outstanding().contains(&lreq);
            w.rec.oracle(reissued || stored_early, "repair-not-reissued", || format!("repair_block for an incomplete {n}-slice block (slice {hold} has {hold_served} shreds) whose roots are proven did not issue a LastSliceRoot request"));
            let mut ks: Vec<usize> = (0..n - 1).collect();
            rng.shuffle(&mut ks);
            let mut claims: Vec<(usize, PRef)> = ks.iter().map(|&k| (k, PRef::P(blk.hid, k))).collect();
            // ... and with proofs that prove nothing at all
            let k = ks[0];
            claims.push((k, PRef::PE));
            claims.push((k, PRef::PJ(blk.hid, k, rng.below(blk.tree.height().max(1) as u64) as usize)));
            claims.push((k, PRef::P(blk.hid, n - 1)));
            if reissued {
                for (k, pref) in claims {
                    let (ps, p) = w.proof(&blocks, &pref, &junk_hash);
                    let op = format!("resp last {} {k} {} {ps}", w.req_str(&lreq), blk.built[k].rid);
                    let resp = RepairResponse::LastSliceRoot(lreq.clone(), slice_index(k), blk.built[k].root.clone(), p);
                    if !w.respond(op.clone(), resp, "last-inner-slice-proven-root") { break; }
                    let still = w.repair.verif_outstanding().contains(&lreq);
                    let nsent = w.last_sent.len();
                    w.rec.oracle(still, "hostile-response-cancels-request", || format!("after `{op}` (inner slice {k} of a {n}-slice block whose root was proven earlier by a membership proof, answered to a re-issued LastSliceRoot request) the request is no longer outstanding"));
                    w.rec.oracle(still && nsent == 0, "repair-last-slice-misreported", || format!("`{op}`: slice {k} of a {n}-slice block accepted as the LAST slice on a re-issued LastSliceRoot request (its root was proven earlier, by position only): request still outstanding: {still}, {nsent} follow-up requests sent"));
                }
                // the recorded last slice did not change: a genuine shred of the real last slice is still what the requester accepts
                let last_req = w.outstanding().into_iter().find(|r| matches!(r, RepairRequestType::Shred(_, i, _) if si_usize(*i) == n - 1));
                if let Some(req) = last_req {
                    let (op, resp) = correct_response(&w, &blk, &req);
                    w.respond(op.clone(), resp, "correct");
                    let gone = !w.repair.verif_outstanding().contains(&req);
                    w.rec.oracle(gone, "repair-last-slice-misreported", || format!("after hostile LastSliceRoot answers naming inner slices of a {n}-slice block, the correct answer `{op}` (genuine shred of the real last slice {}) is no longer accepted", n - 1));
                }
            }
            // phase 3: an honest peer answers everything that is outstanding
            let mut guard = 0;
            loop {
                guard += 1;
                let done = w.rt.block_on(async { w.store.read().await.get_block(&bid).is_some() });
                let out = w.outstanding();
                if done || out.is_empty() || guard > 3 * (n * TOTAL_SHREDS + n + 2) { break; }
                let req = out[rng.below(out.len() as u64) as usize].clone();
                let (op, resp) = correct_response(&w, &blk, &req);
                if !w.respond(op, resp, "correct") { break; }
            }
            let res = w.q_blk(slot, blk.hid, &blk.hash);
            let txs: Vec<u64> = specs.iter().flat_map(|s| s.txs.clone().unwrap()).collect();
            let outs = w.outstanding().len();
            w.rec.oracle(res.as_ref().is_some_and(|(h, _, ids)| *h == blk.hash && *ids == txs), "repair-derailed", || {
                format!("{n}-slice block, roots proven, repair re-requested, hostile LastSliceRoot answers naming inner slices, then every outstanding request answered correctly: the block is not stored ({outs} requests outstanding)")
            });
            let c = w.class;
            w.rec.end_case(c, true);
        }

        // ================= a repair that was started and abandoned, then the same block completes through dissemination =================
        {
            let n = rng.range(1, max_n) as usize;
            let slot = rng.range(2, 30);
            w.begin("repair-then-dissemination");
            let specs = honest_specs(&mut rng, n, slot, 1);
            let built: Vec<Built> = specs.iter().map(|s| w.build(slot, s)).collect();
            let blk = w.declare(slot, built);
            w.repair_block(slot, blk.hid, &blk.hash);
            // answer the root requests and a few shred requests correctly: an incomplete repair entry for the hash exists
            let mut shreds_served = 0;
            let mut guard = 0;
            loop {
                guard += 1;
                let out = w.outstanding();
                if out.is_empty() || guard > 400 { break; }
                let req = out[rng.below(out.len() as u64) as usize].clone();
                if matches!(req, RepairRequestType::Shred(..)) {
                    if shreds_served >= 3 { if out.iter().all(|r| matches!(r, RepairRequestType::Shred(..))) { break; } else { continue; } }
                    shreds_served += 1;
                }
                let (op, resp) = correct_response(&w, &blk, &req);
                if !w.respond(op, resp, "correct") { break; }
            }
            // now the block arrives through dissemination, completely
            for b in &blk.built {
                let mut idx: Vec<usize> = (0..TOTAL_SHREDS).collect();
                rng.shuffle(&mut idx);
                for &i in idx.iter().take(DATA_SHREDS + rng.below(8) as usize) {
                    w.dis(slot, &b.shreds[i]);
                }
            }
            let res = w.q_blk(slot, blk.hid, &blk.hash);
            w.rec.oracle(res.as_ref().is_some_and(|(h, _, _)| *h == blk.hash), "served-after-mixed-paths", || format!("block {} of slot {slot} completed through dissemination while an unfinished repair entry for the same hash exists ({shreds_served} repaired shreds): get_block does not return it", blk.hid));
            // and it is served to peers: last slice root, a slice root, shreds (also ones never received)
            let bid: BlockId = (Slot::new(slot), blk.hash.clone());
            let asks = vec![
                RepairRequestType::LastSliceRoot(bid.clone()),
                RepairRequestType::SliceRoot(bid.clone(), slice_index(rng.below(n as u64) as usize)),
                RepairRequestType::Shred(bid.clone(), slice_index(rng.below(n as u64) as usize), ShredIndex::new(rng.below(TOTAL_SHREDS as u64) as usize).expect("idx")),
                RepairRequestType::Shred(bid.clone(), slice_index(0), ShredIndex::new(TOTAL_SHREDS - 1).expect("idx")),
            ];
            for rq in asks {
                let what = w.req_str(&rq);
                let resp = w.ask(rq);
                w.rec.oracle(matches!(resp, Some(RepairResponse::LastSliceRoot(..)) | Some(RepairResponse::SliceRoot(..)) | Some(RepairResponse::Shred(..))), "served-after-mixed-paths", || format!("request {what} for a completely held block (dissemination completed it, an unfinished repair entry exists) is not served"));
            }
            let c = w.class;
            w.rec.end_case(c, true);
        }

        // ================= Byzantine leader: slice j < n-1 also signed with the last marker, served by a hostile responder =================
        // (before fix D26 every such shred was accepted: the prefix block was built under the long block's hash, D19; now each of
        //  them is dropped by the requester, the request stays outstanding, and an honest peer can still complete the repair)
        {
            let n = rng.range(2, max_n.max(2)) as usize;
            let slot = rng.range(2, 30);
            w.begin("repair-early-last-marker");
            let specs = honest_specs(&mut rng, n, slot, 1);
            let built: Vec<Built> = specs.iter().map(|s| w.build(slot, s)).collect();
            let blk = w.declare(slot, built);
            let j = rng.below(n as u64 - 1) as usize;
            let mut early = specs[j].clone();
            early.is_last = true;
            let early_b = w.build(slot, &early);
            let mut prefix: Vec<Built> = blk.built[..j].to_vec();
            prefix.push(early_b.clone());
            let pre = w.declare(slot, prefix);
            w.repair_block(slot, blk.hid, &blk.hash);
            let bid: BlockId = (Slot::new(slot), blk.hash.clone());
            // the responder answers root requests honestly but serves slice j with the last marker (each request once), slices 0..j first
            let mut tried: Vec<RepairRequestType> = vec![];
            let mut guard = 0;
            loop {
                guard += 1;
                let out = w.outstanding();
                if out.is_empty() || guard > 4000 { break; }
                let req = out.iter().find(|r| match r { RepairRequestType::Shred(_, i, _) => si_usize(*i) <= j && !tried.contains(r), _ => true }).cloned();
                let Some(req) = req else { break };
                let (op, resp, evil) = match &req {
                    RepairRequestType::Shred(_, i, jx) if si_usize(*i) == j => {
                        let shred = early_b.shreds[jx.inner()].clone().into_shred();
                        (w.shred_resp_op(&req, &shred), RepairResponse::Shred(req.clone(), shred), true)
                    }
                    _ => { let (op, resp) = correct_response(&w, &blk, &req); (op, resp, false) }
                };
                if !w.respond(op.clone(), resp, if evil { "early-last-marker" } else { "correct" }) { break; }
                if evil {
                    tried.push(req.clone());
                    let still = w.repair.verif_outstanding().contains(&req);
                    let rs = w.req_str(&req);
                    w.rec.oracle(still, "hostile-response-cancels-request", || format!("after `{op}` (slice {j} of a {n}-slice block signed with the last-slice marker) the request {rs} is no longer outstanding"));
                }
                let got = w.rt.block_on(async { w.store.read().await.get_block(&bid).map(|b| b.verif_hash().clone()) });
                if let Some(h) = &got {
                    w.rec.oracle(*h == blk.hash, "stored-under-wrong-id", || format!("prefix block of {} slices stored under the hash of the {n}-slice block", j + 1));
                }
            }
            w.q_blk(slot, blk.hid, &blk.hash);
            w.q_blk(slot, pre.hid, &pre.hash);
            w.rec.oracle(!w.events.iter().any(|e| e.starts_with("block")), "announced-under-wrong-id", || format!("events {:?}", w.events));
            // an honest peer now answers everything that is still outstanding: the repair must complete
            let mut guard = 0;
            loop {
                guard += 1;
                let out = w.outstanding();
                if out.is_empty() || guard > 4000 { break; }
                let req = out[0].clone();
                let (op, resp) = correct_response(&w, &blk, &req);
                if !w.respond(op, resp, "correct") { break; }
            }
            let res = w.q_blk(slot, blk.hid, &blk.hash);
            w.q_blk(slot, pre.hid, &pre.hash);
            let outs = w.outstanding().len();
            let txs: Vec<u64> = specs.iter().flat_map(|s| s.txs.clone().unwrap()).collect();
            w.rec.oracle(res.as_ref().is_some_and(|(h, _, ids)| *h == blk.hash && *ids == txs), "repair-derailed", || {
                format!("a hostile responder served slice {j} of a {n}-slice block with the last-slice marker, then an honest peer answered every outstanding request: the block is not stored ({outs} requests outstanding)")
            });
            let want = format!("block {} ", blk.hid);
            w.rec.oracle(w.events.iter().filter(|e| e.starts_with("block")).all(|e| e.starts_with(&want)), "announced-under-wrong-id", || format!("events {:?}", w.events));
            let c = w.class;
            w.rec.end_case(c, true);
        }

        // ================= regression D26 (fixed): leader-signed shreds with the other last-slice marker are dropped, the repair completes =================
        // (Lean: `AgModel.Repair.last_marker_no_longer_derails`; before the fix ONE such shred derailed the repair for good)
        {
            let n = rng.range(2, max_n.max(2)) as usize;
            let slot = rng.range(2, 30);
            w.begin("repair-other-marker-derails");
            let specs = honest_specs(&mut rng, n, slot, 1);
            let built: Vec<Built> = specs.iter().map(|s| w.build(slot, s)).collect();
            let blk = w.declare(slot, built);
            // the Byzantine leader signed a non-last slice j (same content, hence same slice root) also with the last marker,
            // and the last slice also without it
            let j = rng.below(n as u64 - 1) as usize;
            let mut early = specs[j].clone();
            early.is_last = true;
            let early_b = w.build(slot, &early);
            let mut late = specs[n - 1].clone();
            late.is_last = false;
            let late_b = w.build(slot, &late);
            w.repair_block(slot, blk.hid, &blk.hash);
            let mut evil_sent = [false, false];
            let mut dropped = 0;
            let mut guard = 0;
            loop {
                guard += 1;
                let out = w.outstanding();
                if out.is_empty() || guard > 4000 { break; }
                // a hostile peer answers the first shred request of slice j and of the last slice; an honest peer answers everything else
                let mut evil: Option<(usize, RepairRequestType, &Built)> = None;
                for (k, (sl, b)) in [(j, &early_b), (n - 1, &late_b)].into_iter().enumerate() {
                    if evil.is_none() && !evil_sent[k] {
                        if let Some(r) = out.iter().find(|r| matches!(r, RepairRequestType::Shred(_, i, _) if si_usize(*i) == sl)) {
                            evil = Some((k, r.clone(), b));
                        }
                    }
                }
                if let Some((k, req, b)) = evil {
                    let jx = match &req { RepairRequestType::Shred(_, _, jx) => jx.inner(), _ => 0 };
                    let shred = b.shreds[jx].clone().into_shred();
                    let op = w.shred_resp_op(&req, &shred);
                    evil_sent[k] = true;
                    if !w.respond(op.clone(), RepairResponse::Shred(req.clone(), shred), "other-last-marker") { break; }
                    let still = w.repair.verif_outstanding().contains(&req);
                    if still { dropped += 1; }
                    let rs = w.req_str(&req);
                    w.rec.oracle(still, "hostile-response-cancels-request", || format!("after `{op}` (leader-signed shred with the proven slice root but the other last-slice marker) the request {rs} is no longer outstanding"));
                    continue;
                }
                let req = out[0].clone();
                let (op, resp) = correct_response(&w, &blk, &req);
                if !w.respond(op, resp, "correct") { break; }
            }
            let res = w.q_blk(slot, blk.hid, &blk.hash);
            let outs = w.outstanding().len();
            if dropped > 0 { w.rec.count("other-last-marker:dropped"); }
            if res.is_none() { w.rec.count("derailed-by-other-last-marker"); }
            let flagged = w.events.iter().any(|e| e == "invalid");
            let txs: Vec<u64> = specs.iter().flat_map(|s| s.txs.clone().unwrap()).collect();
            w.rec.oracle(res.as_ref().is_some_and(|(h, _, ids)| *h == blk.hash && *ids == txs) && !flagged, "repair-derailed-by-signed-variant", || {
                format!("leader-signed shreds of slice {j} / of the last slice carrying the other last-slice marker (same slice root) were sent by a hostile peer for a {n}-slice block; every request was then answered correctly by an honest peer while outstanding; now {outs} requests are outstanding and the block is not stored (slot flagged: {flagged})")
            });
            let c = w.class;
            w.rec.end_case(c, true);
        }

        // ================= the slot's leader is flagged as misbehaving before / while a block of that slot is repaired =================
        // Repaired data is filed per requested block hash precisely so that a block of an equivocating leader that got
        // certified anyway can still be fetched. The flag is raised (a) by two validly signed conflicting shreds on the
        // dissemination path, or (b) by the repair path itself: the repair of a sibling block of the slot ends in
        // InvalidShred (its first slice has no parent / its transactions do not decode). Before the repair starts
        // (variants 0, 2) or while it is in flight (1, 3). Honest answers must still complete the repair.
        {
            let variant = (round % 4) as usize;
            let n = rng.range(1, max_n) as usize;
            let slot = rng.range(2, 30);
            w.begin("repair-flagged-slot");
            let specs = honest_specs(&mut rng, n, slot, 1);
            let built: Vec<Built> = specs.iter().map(|s| w.build(slot, s)).collect();
            let blk = w.declare(slot, built);
            let bid: BlockId = (Slot::new(slot), blk.hash.clone());
            // (a) a conflicting validly signed slice j (other content; every third time also the other last-slice marker)
            let j = rng.below(n as u64) as usize;
            let mut alt = specs[j].clone();
            alt.txs = Some(vec![900 + rng.below(9)]);
            if rng.chance(1, 3) { alt.is_last = !alt.is_last; }
            let alt_b = w.build(slot, &alt);
            // (b) a sibling block of the slot whose repair fails in the blockstore
            let ns = rng.range(1, max_n) as usize;
            let mut sib_specs = honest_specs(&mut rng, ns, slot, 300);
            let bad_kind = rng.below(2);
            if bad_kind == 0 { sib_specs[0].parent = None; } else { sib_specs[rng.below(ns as u64) as usize].txs = None; }
            let sib_built: Vec<Built> = sib_specs.iter().map(|s| w.build(slot, s)).collect();
            let sib = w.declare(slot, sib_built);
            let req_hash = |r: &RepairRequestType| match r { RepairRequestType::LastSliceRoot((_, h)) | RepairRequestType::SliceRoot((_, h), _) | RepairRequestType::Shred((_, h), _, _) => h.clone() };
            let by_dissemination = variant < 2;
            let in_flight = variant % 2 == 1;
            // (a repair needs at least 1 + n + 32 n answers: the flag is raised while the block is incomplete)
            let flag_after = if in_flight { 1 + rng.below((n * (DATA_SHREDS + 1)) as u64) as usize } else { 0 };
            let mut incomplete_at_flag = false;
            let mut flag_done = false;
            let mut flagged_at_answers: Option<usize> = None;
            let mut answers = 0usize;
            if in_flight { w.repair_block(slot, blk.hid, &blk.hash); }
            let mut guard = 0;
            loop {
                guard += 1;
                if guard > 8 * (n * TOTAL_SHREDS + n + 2) { break; }
                if !flag_done && answers >= flag_after {
                    flag_done = true;
                    if by_dissemination {
                        // some shreds of the block itself came through dissemination (never 32 of a slice), then the conflict
                        for _ in 0..rng.below(20) {
                            let sl = rng.below(n as u64) as usize;
                            w.dis(slot, &blk.built[sl].shreds[rng.below(TOTAL_SHREDS as u64) as usize]);
                        }
                        w.dis(slot, &blk.built[j].shreds[rng.below(TOTAL_SHREDS as u64) as usize]);
                        w.dis(slot, &alt_b.shreds[rng.below(TOTAL_SHREDS as u64) as usize]);
                        w.dis(slot, &blk.built[rng.below(n as u64) as usize].shreds[rng.below(TOTAL_SHREDS as u64) as usize]);
                    } else {
                        // the sibling's repair, answered correctly by a peer holding it, until the blockstore gives up on it
                        w.repair_block(slot, sib.hid, &sib.hash);
                        let mut g2 = 0;
                        while !w.events.iter().any(|e| e == "invalid") && g2 < 2 * (ns * TOTAL_SHREDS + ns + 2) {
                            g2 += 1;
                            let out: Vec<RepairRequestType> = w.outstanding().into_iter().filter(|r| req_hash(r) == sib.hash).collect();
                            if out.is_empty() { break; }
                            let req = out[rng.below(out.len() as u64) as usize].clone();
                            let (op, resp) = correct_response(&w, &sib, &req);
                            if !w.respond(op, resp, "correct-sibling") { break; }
                        }
                    }
                    if w.events.iter().any(|e| e == "invalid") { flagged_at_answers = Some(answers); }
                    incomplete_at_flag = !w.rt.block_on(async { w.store.read().await.get_block(&bid).is_some() });
                    if !in_flight { w.repair_block(slot, blk.hid, &blk.hash); }
                    continue;
                }
                let done = w.rt.block_on(async { w.store.read().await.get_block(&bid).is_some() });
                let out: Vec<RepairRequestType> = w.outstanding().into_iter().filter(|r| req_hash(r) == blk.hash).collect();
                if out.is_empty() || done {
                    if flag_done { break; }
                    // completed (or stuck) before the flag was due: raise it now, nothing more to answer afterwards
                    answers = flag_after;
                    continue;
                }
                let req = out[rng.below(out.len() as u64) as usize].clone();
                let roll = rng.below(100);
                if roll < 2 {
                    w.timeout();
                } else if roll < 4 {
                    let op = format!("resp nack {}", w.req_str(&req));
                    if !w.respond(op, RepairResponse::Nack(req.clone()), "nack") { break; }
                } else {
                    answers += 1;
                    let (op, resp) = correct_response(&w, &blk, &req);
                    if !w.respond(op.clone(), resp, "correct") { break; }
                    let gone = !w.repair.verif_outstanding().contains(&req);
                    let rs = w.req_str(&req);
                    w.rec.oracle(gone, "correct-response-not-accepted", || format!("the correct answer `{op}` to the outstanding request {rs} was not accepted (slot flagged: {})", flagged_at_answers.is_some()));
                }
            }
            let flagged = w.events.iter().any(|e| e == "invalid");
            w.rec.count(&format!("flagged-slot:{}:flagged={flagged}", ["dissemination-before", "dissemination-in-flight", "sibling-repair-before", "sibling-repair-in-flight"][variant]));
            let res = w.q_blk(slot, blk.hid, &blk.hash);
            w.q_blk(slot, sib.hid, &sib.hash);
            w.rec.count(&format!("flagged-slot:block-incomplete-when-flagged={}", flagged && incomplete_at_flag));
            let fp = {
                let mut p = specs[0].parent.unwrap();
                for s in &specs[1..] { if let Some(q) = s.parent { p = q; } }
                (Slot::new(p.0), w.parents[p.1].clone())
            };
            let txs: Vec<u64> = specs.iter().flat_map(|s| s.txs.clone().unwrap()).collect();
            let outs = w.outstanding().iter().filter(|r| req_hash(r) == blk.hash).count();
            let how = if by_dissemination { format!("two validly signed conflicting shreds of slice {j} arrived through dissemination") } else { format!("the repair of a sibling block ({ns} slices, {}) ended in InvalidShred", if bad_kind == 0 { "first slice without parent" } else { "undecodable transactions" }) };
            w.rec.oracle(res.as_ref().is_some_and(|(h, p, ids)| *h == blk.hash && *p == fp && *ids == txs), "repair-derailed-in-flagged-slot", || {
                format!("{n}-slice block of slot {slot}: {how} ({}; leader flagged: {flagged}, after {:?} correct answers); every request about the block was answered correctly by an honest peer while outstanding ({answers} answers): the block is not stored, {outs} of its requests outstanding", if in_flight { "while the repair was in flight" } else { "before the repair started" }, flagged_at_answers)
            });
            let c = w.class;
            w.rec.end_case(c, true);
        }

        // ================= D15 on the repair path: ONE genuine shred with its data/coding tag flipped derails the repair =================
        // (correct leader; Lean witness `AgModel.Repair.derail_by_tag`)
        {
            let n = rng.range(1, max_n) as usize;
            let slot = rng.range(2, 30);
            w.begin("repair-tag-flip-derails");
            let specs = honest_specs(&mut rng, n, slot, 1);
            let built: Vec<Built> = specs.iter().map(|s| w.build(slot, s)).collect();
            let blk = w.declare(slot, built);
            let j = rng.below(n as u64) as usize;
            w.repair_block(slot, blk.hid, &blk.hash);
            let mut evil_sent = false;
            let mut flipped = false;
            let mut guard = 0;
            loop {
                guard += 1;
                let out = w.outstanding();
                if out.is_empty() || guard > 4000 { break; }
                let evil_req = if evil_sent { None } else { out.iter().find(|r| matches!(r, RepairRequestType::Shred(_, i, _) if si_usize(*i) == j)).cloned() };
                if let Some(req) = evil_req {
                    evil_sent = true;
                    let jx = match &req { RepairRequestType::Shred(_, _, jx) => jx.inner(), _ => 0 };
                    let good = blk.built[j].shreds[jx].clone().into_shred();
                    // the tag is the leading enum discriminant on the wire
                    if let Some(shred) = tamper(&good, None, Some(0)) {
                        if shred.is_data() != good.is_data() && ValidatedShred::try_new(shred.clone(), None, &w.pk).is_ok() {
                            flipped = true;
                            let op = w.shred_resp_op(&req, &shred);
                            if !w.respond(op, RepairResponse::Shred(req.clone(), shred), "tag-flipped") { break; }
                            continue;
                        }
                    }
                }
                let req = out[0].clone();
                let (op, resp) = correct_response(&w, &blk, &req);
                if !w.respond(op, resp, "correct") { break; }
            }
            let res = w.q_blk(slot, blk.hid, &blk.hash);
            let outs = w.outstanding().len();
            w.rec.count(if flipped { "tagflip:sent" } else { "tagflip:not-constructible" });
            if flipped && res.is_none() { w.rec.count("derailed-by-tag-flip"); }
            let flagged = w.events.iter().any(|e| e == "invalid");
            w.rec.oracle(res.is_some(), "repair-derailed-by-tag-flip", || {
                format!("one genuine shred of slice {j} of a correct leader's {n}-slice block with its data/coding tag flipped by the responding peer was accepted; every request was then answered correctly by an honest peer while outstanding; now {outs} requests are outstanding, the block is not stored (leader flagged: {flagged})")
            });
            let c = w.class;
            w.rec.end_case(c, true);
        }

        // ================= responder =================
        for variant in 0..3 {
            let n = rng.range(1, max_n + 1) as usize;
            let slot = rng.range(2, 30);
            w.begin(["responder-disseminated", "responder-repaired", "responder-partial"][variant]);
            let specs = honest_specs(&mut rng, n, slot, 1);
            let built: Vec<Built> = specs.iter().map(|s| w.build(slot, s)).collect();
            let blk = w.declare(slot, built);
            let junk = w.declare_junk(&mut rng);
            let other_specs = honest_specs(&mut rng, 1, slot, 700);
            let ob: Vec<Built> = other_specs.iter().map(|s| w.build(slot, s)).collect();
            let other = w.declare(slot, ob);
            let mut junk_victims: Vec<(usize, usize)> = vec![];
            let held = match variant {
                0 => {
                    for (s, b) in blk.built.iter().enumerate() {
                        let mut idx: Vec<usize> = (0..TOTAL_SHREDS).collect();
                        rng.shuffle(&mut idx);
                        idx.truncate(rng.range(32, 64) as usize);
                        // D34: the lowest index that arrives (moved off the first place) is preceded by a copy with a
                        // garbage signature; `deshred` takes header and signature from the lowest index present
                        let victim = *idx.iter().min().expect("32 shreds");
                        if idx[0] == victim { idx.swap(0, 1); }
                        for i in idx.iter().copied() {
                            if i == victim {
                                w.junk_sig_attempt(&b.shreds[i], &mut rng);
                                junk_victims.push((s, victim));
                            }
                            w.dis(slot, &b.shreds[i]);
                        }
                    }
                    true
                }
                1 => {
                    // obtain it through repair from an honest peer
                    w.repair_block(slot, blk.hid, &blk.hash);
                    let bid: BlockId = (Slot::new(slot), blk.hash.clone());
                    let mut guard = 0;
                    loop {
                        guard += 1;
                        let out = w.outstanding();
                        let done = w.rt.block_on(async { w.store.read().await.get_block(&bid).is_some() });
                        if done || out.is_empty() || guard > 5000 { break; }
                        let req = out[rng.below(out.len() as u64) as usize].clone();
                        let (op, resp) = correct_response(&w, &blk, &req);
                        w.respond(op, resp, "correct");
                    }
                    true
                }
                _ => {
                    // fewer than 32 shreds of the last slice
                    for (s, b) in blk.built.iter().enumerate() {
                        let cnt = if s == n - 1 { rng.below(32) as usize } else { 40 };
                        for i in 0..cnt {
                            w.dis(slot, &b.shreds[i]);
                        }
                    }
                    false
                }
            };
            let bid: BlockId = (Slot::new(slot), blk.hash.clone());
            let mut reqs: Vec<RepairRequestType> = vec![RepairRequestType::LastSliceRoot(bid.clone())];
            for s in 0..n {
                reqs.push(RepairRequestType::SliceRoot(bid.clone(), slice_index(s)));
                for _ in 0..3 {
                    reqs.push(RepairRequestType::Shred(bid.clone(), slice_index(s), ShredIndex::new(rng.below(64) as usize).unwrap()));
                }
            }
            for &(s, v) in &junk_victims {
                // the shred a garbage copy of which was offered, a stored one and the highest index (regenerated unless stored)
                for j in [v, 63] {
                    reqs.push(RepairRequestType::Shred(bid.clone(), slice_index(s), ShredIndex::new(j).unwrap()));
                }
            }
            // out of range / unknown
            for s in [n, n + 1, 1023, rng.range(n as u64, 1023) as usize] {
                reqs.push(RepairRequestType::SliceRoot(bid.clone(), slice_index(s)));
                reqs.push(RepairRequestType::Shred(bid.clone(), slice_index(s), ShredIndex::new(rng.below(64) as usize).unwrap()));
            }
            let jb: BlockId = (Slot::new(slot), junk.1.clone());
            let ob: BlockId = (Slot::new(slot), other.hash.clone());
            let wrong_slot: BlockId = (Slot::new(slot + 1), blk.hash.clone());
            for b in [jb, ob, wrong_slot] {
                reqs.push(RepairRequestType::LastSliceRoot(b.clone()));
                reqs.push(RepairRequestType::SliceRoot(b.clone(), slice_index(0)));
                reqs.push(RepairRequestType::Shred(b.clone(), slice_index(0), ShredIndex::new(0).unwrap()));
            }
            rng.shuffle(&mut reqs);
            for req in reqs {
                let about_held = held && matches!(&req, RepairRequestType::LastSliceRoot(b) | RepairRequestType::SliceRoot(b, _) | RepairRequestType::Shred(b, _, _) if *b == bid);
                let in_range = match &req { RepairRequestType::SliceRoot(_, i) | RepairRequestType::Shred(_, i, _) => si_usize(*i) < n, _ => true };
                let resp = w.ask(req.clone());
                let what = w.req_str(&req);
                match (&req, &resp) {
                    (_, None) => w.rec.oracle(false, "responder-silent", || format!("no response to {what}")),
                    (_, Some(RepairResponse::Nack(r))) => {
                        w.rec.oracle(*r == req, "responder-nack-wrong-request", || format!("nack for a different request than {what}"));
                        w.rec.oracle(!(about_held && in_range), "responder-nacks-held-data", || format!("NACK for {what} although the block is held ({n} slices)"));
                    }
                    (RepairRequestType::LastSliceRoot((_, h)), Some(RepairResponse::LastSliceRoot(r, l, root, proof))) => {
                        let ok = *r == req && DoubleMerkleTree::check_proof_last(root, si_usize(*l), h, proof);
                        w.rec.oracle(ok, "responder-last-root-does-not-verify", || format!("answer to {what} does not verify as a last-leaf proof against the block hash"));
                        w.rec.oracle(!about_held || (si_usize(*l) == n - 1 && *root == blk.built[n - 1].root), "responder-last-root-wrong", || format!("answer to {what}: last slice {} of {n}", si_usize(*l)));
                    }
                    (RepairRequestType::SliceRoot((_, h), i), Some(RepairResponse::SliceRoot(r, root, proof))) => {
                        let ok = *r == req && DoubleMerkleTree::check_proof(root, si_usize(*i), h, proof);
                        w.rec.oracle(ok, "responder-slice-root-does-not-verify", || format!("answer to {what} does not verify against the block hash"));
                    }
                    (RepairRequestType::Shred((s, _), i, j), Some(RepairResponse::Shred(r, shred))) => {
                        let parts = shred.payload().verif_parts();
                        let ok = *r == req && parts.0 == *s && si_usize(parts.1) == si_usize(*i) && parts.3 == j.inner() && ValidatedShred::try_new(shred.clone(), None, &w.pk).is_ok();
                        w.rec.oracle(ok, "responder-shred-does-not-verify", || format!("answer to {what}: shred with wrong indices or without the leader's signature"));
                        if about_held && in_range {
                            let want = blk.built[si_usize(*i)].shreds[j.inner()].as_shred();
                            w.rec.oracle(wincode::serialize(shred).unwrap() == wincode::serialize(want).unwrap(), "responder-shred-differs", || format!("answer to {what} is not the leader's shred"));
                        }
                    }
                    _ => w.rec.oracle(false, "responder-wrong-variant", || format!("response variant does not match request {what}")),
                }
            }
            let c = w.class;
            w.rec.end_case(c, true);
        }
    }
    // ================= one large repair per run: > 1024 requests outstanding at once, answered in FIFO order =================
    // a block of 17..20 slices and two small blocks (another slot / the same slot) repaired concurrently by one honest peer that
    // answers the requests in the order they were sent: all LastSliceRoot, then all SliceRoot answers (each fans out into 64
    // shred requests), then the shreds. Occasionally a NACK or a timeout (the re-sent request joins the end of the queue).
    // Every request that is outstanding is eventually answered correctly, so every block must complete.
    {
        let na = 17 + rng.below(4) as usize;
        let slot = rng.range(2, 30);
        w.begin("repair-large-fifo");
        let mut blks: Vec<(Blk, Vec<Spec>)> = vec![];
        for (bn, bslot, base) in [(na, slot, 1u64), (rng.range(1, 4) as usize, slot, 5000), (rng.range(2, 5) as usize, slot + 1, 7000)] {
            let specs = honest_specs(&mut rng, bn, bslot, base);
            let built: Vec<Built> = specs.iter().map(|s| w.build(bslot, s)).collect();
            blks.push((w.declare(bslot, built), specs));
        }
        let mut queue: std::collections::VecDeque<RepairRequestType> = Default::default();
        for (b, _) in &blks {
            let (bslot, hid, h) = (b.slot, b.hid, b.hash.clone());
            w.repair_block(bslot, hid, &h);
            queue.extend(w.last_sent.drain(..));
        }
        let mut peak = 0usize;
        let mut answered = 0usize;
        let mut disturbances = 0usize;
        let limit = 6 * (blks.iter().map(|(b, _)| b.built.len()).sum::<usize>() * (TOTAL_SHREDS + 1) + 3);
        while let Some(req) = queue.pop_front() {
            if answered > limit { break; }
            let outs = w.repair.verif_outstanding();
            peak = peak.max(outs.len());
            if !outs.contains(&req) { continue; } // answered meanwhile (a request sent twice)
            let h = match &req { RepairRequestType::LastSliceRoot((_, h)) | RepairRequestType::SliceRoot((_, h), _) | RepairRequestType::Shred((_, h), _, _) => h.clone() };
            let blk = &blks.iter().find(|(b, _)| b.hash == h).expect("request about one of the blocks").0;
            let roll = rng.below(1000);
            if roll < 6 {
                disturbances += 1;
                let op = format!("resp nack {}", w.req_str(&req));
                if !w.respond(op, RepairResponse::Nack(req.clone()), "nack") { break; }
            } else if roll < 10 {
                disturbances += 1;
                queue.push_front(req);
                w.timeout();
            } else {
                answered += 1;
                let (op, resp) = correct_response(&w, blk, &req);
                if !w.respond(op, resp, "correct") { break; }
            }
            queue.extend(w.last_sent.drain(..));
        }
        // whatever is outstanding now (nothing, if the requester kept track of everything it needs) is answered as well
        let mut guard = 0;
        loop {
            guard += 1;
            let out = w.outstanding();
            if out.is_empty() || guard > 3000 { break; }
            let req = out[0].clone();
            let h = match &req { RepairRequestType::LastSliceRoot((_, h)) | RepairRequestType::SliceRoot((_, h), _) | RepairRequestType::Shred((_, h), _, _) => h.clone() };
            let blk = &blks.iter().find(|(b, _)| b.hash == h).expect("request about one of the blocks").0;
            let (op, resp) = correct_response(&w, blk, &req);
            if !w.respond(op, resp, "correct") { break; }
        }
        w.rec.count(&format!("large-fifo:peak-outstanding>1024:{}", peak > 1024));
        for (blk, specs) in &blks {
            let res = w.q_blk(blk.slot, blk.hid, &blk.hash);
            let txs: Vec<u64> = specs.iter().flat_map(|s| s.txs.clone().unwrap()).collect();
            let outs = w.repair.verif_outstanding().len();
            let (nb, bslot, hid) = (blk.built.len(), blk.slot, blk.hid);
            w.rec.oracle(res.as_ref().is_some_and(|(h, _, ids)| *h == blk.hash && *ids == txs), "repair-derailed", || {
                format!("blocks of {:?} slices repaired concurrently, every request answered correctly in the order it was sent ({answered} answers, {disturbances} NACKs/timeouts, at most {peak} requests outstanding at once): block {hid} ({nb} slices, slot {bslot}) was not completed; {outs} requests outstanding at the end", blks.iter().map(|(b, _)| b.built.len()).collect::<Vec<_>>())
            });
        }
        let c = w.class;
        w.rec.end_case(c, true);
    }
    let extra = serde_json::json!({ "rounds": rounds, "max_slices": max_n });
    w.rec.finish(&args, extra);
}
