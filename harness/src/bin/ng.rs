//! Node glue (`src/consensus.rs`, part `ng` of C16): correspondence with `AgModel.NodeGlue.handleShred` + oracle.
//!
//! A REAL `Alpenglow` node (Rotor, or Turbine with fanout 1-3) whose disseminator is wrapped in a recorder is
//! single-stepped through `handle_disseminator_shred` (hook `verif_handle_disseminator_shred`) on raw shreds:
//! the shreds of a block of a slot it leads and of a slot it does not lead (relay == own / == leader / == other all
//! occur: every index of every slice arrives), duplicates, shreds signed with the wrong key, equivocating shreds (a
//! second validly signed block of the same slot), type-flipped copies (data <-> coding tag, unauthenticated).
//! Observed per input, in order: `flag` (the blockstore's slot flag turned on), every `forward` call of the
//! disseminator with the destinations it sent to and whether the blockstore had already grown when it was called,
//! `store` (the node's blockstore holds more shreds of the slot), `block` (`Pool::add_block` calls).
//! The parameters of the model (verdict of `try_new`, answer of the blockstore) come from a TWIN blockstore the
//! harness feeds according to the specification, never from the node itself.
//!
//! ops (one output line each; `lean/Driver/NodeGlue.lean`):
//!   shred R n slot own relay verdict ty flagged bs
//!   shred T n slot own f verdict ty flagged bs p0 … p(n-1)
use std::collections::VecDeque;
use std::net::{IpAddr, Ipv4Addr, SocketAddr};
use std::sync::{Arc, Mutex};

use ag_harness::*;
use alpenglow::all2all::TrivialAll2All;
use alpenglow::consensus::{Alpenglow, Blockstore, BlockstoreImpl, ConsensusMessage, EpochInfo, SharedBlockstore, ValidatorEpochInfo};
use alpenglow::crypto::{aggsig, signature};
use alpenglow::disseminator::verif_hooks::shred_position;
use alpenglow::disseminator::{Disseminator, Rotor, Turbine};
use alpenglow::network::{Network, UdpNetwork};
use alpenglow::repair::{RepairRequest, RepairResponse};
use alpenglow::shredder::{RegularShredder, Shred, ShredValidationError, Shredder, ValidatedShred, TOTAL_SHREDS};
use alpenglow::types::{Slice, SliceIndex, Slot};
use alpenglow::{Stake, Transaction, ValidatorIndex, ValidatorInfo};

#[path = "../shredwire.rs"]
#[allow(dead_code)]
mod shredwire;

#[derive(Clone, Default)]
struct RecNet {
    log: Arc<Mutex<Vec<SocketAddr>>>,
}

impl Network for RecNet {
    type Send = Shred;
    type Recv = Shred;
    async fn send(&self, _m: &Shred, addr: SocketAddr) -> std::io::Result<()> {
        self.log.lock().unwrap().push(addr);
        Ok(())
    }
    async fn send_to_many(&self, _m: &Shred, addrs: impl IntoIterator<Item = SocketAddr> + Send) -> std::io::Result<()> {
        let v: Vec<SocketAddr> = addrs.into_iter().collect();
        self.log.lock().unwrap().extend(v);
        Ok(())
    }
    async fn receive(&self) -> std::io::Result<Shred> {
        std::future::pending().await
    }
}

fn addr_of(i: usize) -> SocketAddr {
    SocketAddr::new(IpAddr::V4(Ipv4Addr::new(10, (i >> 16) as u8, (i >> 8) as u8, i as u8)), 7000)
}
fn idx_of(a: &SocketAddr) -> usize {
    match a.ip() {
        IpAddr::V4(ip) => {
            let o = ip.octets();
            ((o[1] as usize) << 16) | ((o[2] as usize) << 8) | o[3] as usize
        }
        IpAddr::V6(_) => usize::MAX,
    }
}

/// one `forward` call seen by the recording disseminator
#[derive(Clone, Debug)]
struct FwdCall {
    pos: (u64, usize, usize),
    /// shreds of the slot the node's blockstore held when `forward` was called (None: lock not free)
    stored_then: Option<usize>,
    dests: Vec<usize>,
    ok: bool,
}

/// the node's disseminator: records every `forward` call, then lets the real one do it on a recording network
struct RecDiss<D> {
    inner: D,
    net: RecNet,
    calls: Arc<Mutex<Vec<FwdCall>>>,
    bs: Arc<Mutex<Option<SharedBlockstore>>>,
}

impl<D: Disseminator + Send + Sync> Disseminator for RecDiss<D> {
    async fn send(&self, shred: &Shred) -> std::io::Result<()> {
        self.inner.send(shred).await
    }
    async fn forward(&self, shred: &Shred) -> std::io::Result<()> {
        let (slot, sl, ix) = shred_position(shred);
        let bs = self.bs.lock().unwrap().clone();
        let stored_then = bs.and_then(|b| b.try_read().ok().map(|g| g.verif_slot_probe(slot).0));
        self.net.log.lock().unwrap().clear();
        let r = self.inner.forward(shred).await;
        let dests: Vec<usize> = self.net.log.lock().unwrap().drain(..).map(|a| idx_of(&a)).collect();
        self.calls.lock().unwrap().push(FwdCall { pos: (slot.inner(), sl, ix), stored_then, dests, ok: r.is_ok() });
        r
    }
    async fn receive(&self) -> std::io::Result<Shred> {
        std::future::pending().await
    }
}

fn list(v: &[usize]) -> String {
    v.iter().map(|x| x.to_string()).collect::<Vec<_>>().join(" ")
}

/// destinations of one bare send / forward of a reference instance
fn bare<D: Disseminator>(rt: &tokio::runtime::Runtime, d: &D, net: &RecNet, shred: &Shred, forward: bool) -> Option<Vec<usize>> {
    net.log.lock().unwrap().clear();
    let r = catch(|| rt.block_on(async { if forward { d.forward(shred).await } else { d.send(shred).await } }));
    let dests: Vec<usize> = net.log.lock().unwrap().drain(..).map(|a| idx_of(&a)).collect();
    match r {
        Ok(Ok(())) => Some(dests),
        _ => None,
    }
}

#[derive(Clone, Copy, PartialEq, Eq, Debug)]
enum Kind {
    Valid,
    Duplicate,
    WrongKey,
    Equivocating,
    TypeFlipped,
}

#[allow(clippy::too_many_arguments)]
fn glue_case<D: Disseminator + Send + Sync + 'static>(rec: &mut Recorder, rt: &tokio::runtime::Runtime, rng: &mut Rng, own: usize, n: usize, fanout: usize, mk: &dyn Fn(RecNet, Arc<ValidatorEpochInfo>) -> D, order: usize, own_first: bool) {
    let kind = if fanout == 0 { "rotor".to_string() } else { format!("turbine-f{fanout}") };
    rec.begin_case(&format!("glue {kind} own={own} n={n} order={order} own-first={own_first}"));
    let sks: Vec<signature::SecretKey> = (0..n).map(|_| signature::SecretKey::new(rng)).collect();
    let vsks: Vec<aggsig::SecretKey> = (0..n).map(|_| aggsig::SecretKey::new(rng)).collect();
    let validators: Vec<ValidatorInfo> = (0..n)
        .map(|i| ValidatorInfo {
            id: ValidatorIndex::new(i as u64),
            stake: Stake::new(1 + (i as u64 % 3)),
            pubkey: sks[i].to_pk(),
            voting_pubkey: vsks[i].to_pk(),
            all2all_address: addr_of(i),
            disseminator_address: addr_of(i),
            repair_requester_address: addr_of(i),
            repair_responder_address: addr_of(i),
        })
        .collect();
    let epoch = EpochInfo::new(validators.clone());
    let vei_of = |v: usize| Arc::new(ValidatorEpochInfo::new(ValidatorIndex::new(v as u64), epoch.clone()));
    let vei = vei_of(own);
    let net_node = RecNet::default();
    let calls: Arc<Mutex<Vec<FwdCall>>> = Default::default();
    let bs_slot: Arc<Mutex<Option<SharedBlockstore>>> = Default::default();
    // reference instances: one per validator, each on its own recording network
    let refs: Vec<(D, RecNet)> = (0..n).map(|v| { let net = RecNet::default(); (mk(net.clone(), vei_of(v)), net) }).collect();
    let node = {
        let _g = rt.enter();
        let a2a: UdpNetwork<ConsensusMessage, ConsensusMessage> = UdpNetwork::new_with_any_port();
        let rq: UdpNetwork<RepairRequest, RepairResponse> = UdpNetwork::new_with_any_port();
        let rp: UdpNetwork<RepairResponse, RepairRequest> = UdpNetwork::new_with_any_port();
        let txs: UdpNetwork<Transaction, Transaction> = UdpNetwork::new_with_any_port();
        let diss = RecDiss { inner: mk(net_node.clone(), vei.clone()), net: net_node.clone(), calls: calls.clone(), bs: bs_slot.clone() };
        Alpenglow::new(sks[own].clone(), vsks[own].clone(), TrivialAll2All::new(validators.clone(), a2a), diss, rq, rp, vei.clone(), txs)
    };
    let bs = node.verif_blockstore();
    *bs_slot.lock().unwrap() = Some(bs.clone());
    let pool = node.get_pool();
    // the twin blockstore: fed by the harness according to the specification
    let (twin_tx, _twin_rx) = tokio::sync::mpsc::channel(1 << 14);
    let mut twin = BlockstoreImpl::new(twin_tx);

    let mut slots = Vec::new();
    let mut s = 4 + rng.below(1 << 14);
    while slots.len() < 2 {
        let l = epoch.leader(Slot::new(s)).id.as_usize();
        if (slots.is_empty() && l == own) || (slots.len() == 1 && l != own) { slots.push((s, l)); }
        s += 1;
    }
    if rng.chance(1, 2) { slots.reverse(); }
    let mut class = 0u64;
    for (slot, leader) in slots {
        let nslices = 1 + rng.below(3) as usize;
        let build = |signer: &signature::SecretKey, fill: u8| -> (Vec<Vec<ValidatedShred>>, Vec<Vec<u8>>) {
            let mut shreds = Vec::new();
            let mut payloads = Vec::new();
            for j in 0..nslices {
                let slice_index: SliceIndex = wincode::deserialize(&(j as u64).to_le_bytes()).expect("slice index");
                let hb: Vec<u8> = (0..32u64).map(|q| (slot + 7 * q) as u8).collect();
                let parent = if j == 0 { Some((Slot::new(slot - 1), wincode::deserialize(&hb).expect("hash"))) } else { None };
                let mut pb: Vec<u8> = match &parent { None => vec![0], Some(_) => { let mut v = vec![1]; v.extend_from_slice(&(slot - 1).to_le_bytes()); v.extend_from_slice(&hb); v } };
                pb.extend_from_slice(&8u64.to_le_bytes());
                pb.extend_from_slice(&[fill; 8]);
                payloads.push(pb);
                let slice = Slice { slot: Slot::new(slot), slice_index, is_last: j + 1 == nslices, parent, data: vec![fill; 8] };
                shreds.push(RegularShredder::default().shred(&slice, signer).expect("fits").to_vec());
            }
            (shreds, payloads)
        };
        let (good, payloads) = build(&sks[leader], 0);
        let (equiv, _) = build(&sks[leader], 1);
        let (wrong, _) = build(&sks[(leader + 1) % n], 0);
        // arrivals
        let mut arrivals: Vec<(Kind, Shred)> = Vec::new();
        let mut base: Vec<(usize, usize)> = (0..nslices).flat_map(|j| (0..TOTAL_SHREDS).map(move |i| (j, i))).collect();
        if order > 0 { rng.shuffle(&mut base); }
        for &(j, i) in &base { arrivals.push((Kind::Valid, good[j][i].as_shred().clone())); }
        let extra = 6 + rng.below(10) as usize;
        for _ in 0..extra {
            let (j, i) = (rng.below(nslices as u64) as usize, rng.below(TOTAL_SHREDS as u64) as usize);
            let (k, sh) = match rng.below(4) {
                0 => (Kind::Duplicate, good[j][i].as_shred().clone()),
                1 => (Kind::WrongKey, wrong[j][i].as_shred().clone()),
                2 => (Kind::Equivocating, equiv[j][i].as_shred().clone()),
                _ => {
                    let mut w = shredwire::Wire::of(good[j][i].as_shred());
                    w.tag ^= 1;
                    match w.decode() { Some(f) => (Kind::TypeFlipped, f), None => (Kind::Duplicate, good[j][i].as_shred().clone()) }
                }
            };
            // equivocating shreds late (order 2: anywhere, so that the second block may win the slice), the others anywhere
            let lo = if k == Kind::Equivocating && order != 2 { arrivals.len() / 2 } else { 0 };
            let at = lo + rng.below((arrivals.len() - lo) as u64 + 1) as usize;
            arrivals.insert(at, (k, sh));
        }
        if leader == own && own_first {
            for j in 0..nslices {
                for t in 0..2 {
                    let payload = alpenglow::types::slice::SlicePayload::try_from(&payloads[j][..]).expect("slice payload decodes");
                    let arr: Box<[ValidatedShred; TOTAL_SHREDS]> = Box::new(good[j].clone().try_into().expect("64 shreds"));
                    if t == 0 { let _ = catch(|| rt.block_on(async { bs.write().await.add_own_slice(payload, arr).await })); }
                    else { let _ = catch(|| rt.block_on(twin.add_own_slice(payload, arr))); }
                }
            }
        }
        let leader_pk = sks[leader].to_pk();
        for (k, sh) in arrivals {
            let (_, sl, ix) = shred_position(&sh);
            let (_, slice_index, _, _, _) = sh.payload().verif_parts();
            // ---- parameters of the model, from the twin
            let cached = twin.cached_commitment(Slot::new(slot), slice_index);
            let (twin_cnt, flagged) = twin.verif_slot_probe(Slot::new(slot));
            let ty = k != Kind::TypeFlipped;
            let (verdict, validated) = match ValidatedShred::try_new(sh.clone(), cached.as_ref(), &leader_pk) {
                Ok(v) => (0, Some(v)),
                Err(ShredValidationError::Equivocation) => (1, None),
                Err(ShredValidationError::InvalidSignature) => (2, None),
            };
            let accepted = verdict == 0 && ty;
            let mut bsres = 0;
            if verdict == 1 { rt.block_on(twin.flag_leader_misbehavior(Slot::new(slot))); }
            if accepted && leader != own {
                let r = rt.block_on(twin.add_shred_from_dissemination(validated.expect("validated")));
                let grew = twin.verif_slot_probe(Slot::new(slot)).0 > twin_cnt;
                bsres = match r { Ok(Some(_)) => 2, _ if grew => 1, _ => 0 };
            }
            rec.count(&format!("glue:{k:?}:verdict={verdict}:own-is-leader={}:bs={bsres}", leader == own));
            // ---- routing parameters from reference instances
            let op = if fanout == 0 {
                let relay = bare(rt, &refs[own].0, &refs[own].1, &sh, false).and_then(|d| d.first().copied()).unwrap_or(usize::MAX);
                rec.count(&format!("glue:rotor:own-is-leader={}:relay={}", leader == own, if relay == own { "own" } else if relay == leader { "leader" } else { "other" }));
                (format!("shred R {n} {slot} {own} {relay} {verdict} {} {} {bsres}", ty as u8, flagged as u8), Some(relay))
            } else {
                let root = bare(rt, &refs[leader].0, &refs[leader].1, &sh, false).and_then(|d| d.first().copied()).unwrap_or(usize::MAX);
                let mut perm = Vec::new();
                let mut q: VecDeque<usize> = VecDeque::from([root]);
                while let Some(v) = q.pop_front() {
                    if v >= n || perm.len() > n { break; }
                    perm.push(v);
                    q.extend(bare(rt, &refs[v].0, &refs[v].1, &sh, true).unwrap_or_default());
                }
                (format!("shred T {n} {slot} {own} {fanout} {verdict} {} {} {bsres} {}", ty as u8, flagged as u8, list(&perm)), None)
            };
            // ---- the real node
            let (cnt0, fl0) = rt.block_on(async { bs.read().await.verif_slot_probe(Slot::new(slot)) });
            let blocks0 = rt.block_on(async { pool.read().await.verif_add_block_calls() });
            calls.lock().unwrap().clear();
            let r = catch(|| rt.block_on(node.verif_handle_disseminator_shred(sh.clone())));
            let (cnt1, fl1) = rt.block_on(async { bs.read().await.verif_slot_probe(Slot::new(slot)) });
            let blocks1 = rt.block_on(async { pool.read().await.verif_add_block_calls() });
            let fwds: Vec<FwdCall> = calls.lock().unwrap().drain(..).collect();
            let mut toks: Vec<String> = Vec::new();
            if !fl0 && fl1 { toks.push("flag".into()); }
            let render = |f: &FwdCall| if f.ok { f.dests.iter().fold("fwd".to_string(), |s, d| s + " " + &d.to_string()) } else { "fwd-panic".to_string() };
            for f in fwds.iter().filter(|f| f.stored_then == Some(cnt0) || cnt1 == cnt0) { toks.push(render(f)); }
            if cnt1 > cnt0 { toks.push("store".into()); }
            for f in fwds.iter().filter(|f| !(f.stored_then == Some(cnt0) || cnt1 == cnt0)) { toks.push(render(f)); }
            for _ in blocks0..blocks1 { toks.push("block".into()); }
            let line = match &r { Ok(Ok(())) => if toks.is_empty() { "none".to_string() } else { toks.join(" | ") }, Ok(Err(e)) => format!("io-error {e}"), Err(_) => "panic".to_string() };
            rec.step(&op.0, &line);
            class = fnv(class, &format!("{k:?} {line}"));
            // ---- oracle, independent of the model
            let what = |msg: &str| {
                let relay = match op.1 { Some(r) => format!("relay {r}{}", if r == leader { " = the slot's leader" } else if r == own { " = this node" } else { "" }), None => "turbine".to_string() };
                format!("{kind} node {own} of {n}, slot {slot} led by {leader}{}: {k:?} shred (slice {sl}, index {ix}; {relay}; try_new verdict {verdict}, expected type {ty}) - {msg}; observed effects `{line}`", if leader == own { " (the node itself)" } else { "" })
            };
            if let (Some(relay), true) = (op.1, accepted) {
                if relay == own {
                    let want: Vec<usize> = (0..n).filter(|&v| v != own && v != leader).collect();
                    let got: Vec<usize> = fwds.iter().flat_map(|f| f.dests.clone()).collect();
                    rec.oracle(got == want, "node-glue-own-relay-shred-not-broadcast", || what(&format!("the node is the relay of this shred and must broadcast it to [{}] but sent to [{}]", list(&want), list(&got))));
                }
            }
            rec.oracle(fwds.len() == usize::from(accepted), "node-glue-forward-count", || what(&format!("Disseminator::forward was called {} time(s), must be {}", fwds.len(), usize::from(accepted))));
            rec.oracle(fwds.iter().all(|f| f.pos == (slot, sl, ix)), "node-glue-forward-count", || what("forward was called with another shred"));
            rec.oracle(fwds.iter().all(|f| f.stored_then == Some(cnt0)), "node-glue-stored-before-forward", || what(&format!("the blockstore held {:?} shreds of the slot when forward was called, {cnt0} before the handler ran", fwds.iter().map(|f| f.stored_then).collect::<Vec<_>>())));
            if !accepted { rec.oracle(cnt1 == cnt0 && blocks1 == blocks0, "node-glue-rejected-shred-stored", || what(&format!("a rejected shred changed the blockstore ({cnt0} -> {cnt1} shreds) or the pool ({} add_block calls)", blocks1 - blocks0))); }
            if leader == own { rec.oracle(cnt1 == cnt0 && blocks1 == blocks0, "node-glue-leader-ingests-own-shred", || what(&format!("the leader's node ingested a shred of its own slot ({cnt0} -> {cnt1} shreds, {} add_block calls)", blocks1 - blocks0))); }
        }
    }
    rec.end_case(class, true);
}

fn main() {
    let args = Args::parse();
    quiet_panics();
    let mut rng = Rng::new(args.seed);
    let rt = tokio::runtime::Builder::new_current_thread().enable_all().build().expect("rt");
    let mut rec = Recorder::new();
    let cases = if args.thorough { 64 } else { 16 };
    for k in 0..cases {
        let n = [4usize, 5, 7, 3][k % 4];
        let own = (k / 4 + k) % n;
        let order = k % 3;
        let own_first = k % 2 == 1;
        if k % 4 == 2 {
            let f = [2usize, 1, 3][(k / 4) % 3];
            glue_case(&mut rec, &rt, &mut rng, own, n, f, &|net, vei| Turbine::new(net, vei).with_fanout(f), order, own_first);
        } else {
            glue_case(&mut rec, &rt, &mut rng, own, n, 0, &|net, vei| Rotor::new(net, vei), order, own_first);
        }
    }
    rec.finish(&args, serde_json::json!({ "cases": cases }));
}
