//! Node glue (`src/consensus.rs`, part `ng` of C16): correspondence with `AgModel.NodeGlue.handleShred` + oracle.
//!
//! A REAL `Alpenglow` node (Rotor, or Turbine with fanout 1-3) whose disseminator is wrapped in a recorder is
//! single-stepped through `handle_disseminator_shred` (hook `verif_handle_disseminator_shred`) on raw shreds:
//! the shreds of a block of a slot it leads and of a slot it does not lead (relay == own / == leader / == other all
//! occur: every index of every slice arrives), duplicates, shreds signed with the wrong key, equivocating shreds (a
//! second validly signed block of the same slot), type-flipped copies (data <-> coding tag, unauthenticated).
//! Observed per input, in order: `flag` (the blockstore's slot flag turned on), every `forward` call of the
//! disseminator with the destinations it sent to and whether the blockstore had already grown when it was called,
//! `store` (the node's blockstore holds more shreds of the slot), `block` (`Pool::add_block` calls).
//! The parameters of the model (verdict of `try_new`, answer of the blockstore) come from a TWIN blockstore the
//! harness feeds according to the specification, never from the node itself.
//!
//! Second family (`a2a_case`, selected alone by `--only a2a`; part of C09 as well): the same real node, its all-to-all
//! network replaced by a recorder, is single-stepped through `handle_all2all_message` (hook
//! `verif_handle_all2all_message`) on votes of all 5 kinds (valid, signed by another validator's / a stranger's key,
//! unknown signer index, slot far in the future / already pruned, duplicates, slashable pairs) and certificates of all
//! 5 kinds (valid, below the threshold, overlapping halves whose union is below the threshold, one part signed by a key
//! that is not the marked signer's, out-of-range slot, duplicates). Observed per message, in order: pool calls
//! (`Pool::verif_add_msg_calls`), certificate broadcasts of the node's Votor task (with the pool-call count at
//! broadcast time). Model parameters (pool verdict, certificates newly stored) come from a TWIN `PoolImpl` the
//! harness feeds only with what is valid BY CONSTRUCTION.
//!
//! ops (one output line each; `lean/Driver/NodeGlue.lean`):
//!   shred R n slot own relay verdict ty flagged bs
//!   shred T n slot own f verdict ty flagged bs p0 … p(n-1)
//!   a2a k valid res [kind slot]*
use std::collections::VecDeque;
use std::net::{IpAddr, Ipv4Addr, SocketAddr};
use std::sync::{Arc, Mutex};

use ag_harness::*;
use alpenglow::all2all::TrivialAll2All;
use alpenglow::all2all::All2All;
use alpenglow::consensus::{
    AddVoteError, Alpenglow, Blockstore, BlockstoreImpl, Cert, ConsensusMessage, EpochInfo, FastFinalCert, FinalCert, FinalVote, NotarCert, NotarFallbackCert, NotarFallbackVote,
    NotarVote, Pool, PoolEvent, PoolImpl, SharedBlockstore, SharedPool, SkipCert, SkipFallbackVote, SkipVote, ValidatedCert, ValidatedVote, ValidatorEpochInfo, Vote,
};
use alpenglow::crypto::merkle::BlockHash;
use alpenglow::crypto::{aggsig, signature};
use alpenglow::disseminator::verif_hooks::shred_position;
use alpenglow::disseminator::{Disseminator, Rotor, Turbine};
use alpenglow::network::{Network, UdpNetwork};
use alpenglow::repair::{RepairRequest, RepairResponse};
use alpenglow::shredder::{RegularShredder, Shred, ShredValidationError, Shredder, ValidatedShred, TOTAL_SHREDS};
use alpenglow::types::{Slice, SliceIndex, Slot};
use alpenglow::{Stake, Transaction, ValidatorIndex, ValidatorInfo};

#[path = "../shredwire.rs"]
#[allow(dead_code)]
mod shredwire;

#[derive(Clone, Default)]
struct RecNet {
    log: Arc<Mutex<Vec<SocketAddr>>>,
}

impl Network for RecNet {
    type Send = Shred;
    type Recv = Shred;
    async fn send(&self, _m: &Shred, addr: SocketAddr) -> std::io::Result<()> {
        self.log.lock().unwrap().push(addr);
        Ok(())
    }
    async fn send_to_many(&self, _m: &Shred, addrs: impl IntoIterator<Item = SocketAddr> + Send) -> std::io::Result<()> {
        let v: Vec<SocketAddr> = addrs.into_iter().collect();
        self.log.lock().unwrap().extend(v);
        Ok(())
    }
    async fn receive(&self) -> std::io::Result<Shred> {
        std::future::pending().await
    }
}

fn addr_of(i: usize) -> SocketAddr {
    SocketAddr::new(IpAddr::V4(Ipv4Addr::new(10, (i >> 16) as u8, (i >> 8) as u8, i as u8)), 7000)
}
fn idx_of(a: &SocketAddr) -> usize {
    match a.ip() {
        IpAddr::V4(ip) => {
            let o = ip.octets();
            ((o[1] as usize) << 16) | ((o[2] as usize) << 8) | o[3] as usize
        }
        IpAddr::V6(_) => usize::MAX,
    }
}

/// one `forward` call seen by the recording disseminator
#[derive(Clone, Debug)]
struct FwdCall {
    pos: (u64, usize, usize),
    /// shreds of the slot the node's blockstore held when `forward` was called (None: lock not free)
    stored_then: Option<usize>,
    dests: Vec<usize>,
    ok: bool,
}

/// the node's disseminator: records every `forward` call, then lets the real one do it on a recording network
struct RecDiss<D> {
    inner: D,
    net: RecNet,
    calls: Arc<Mutex<Vec<FwdCall>>>,
    bs: Arc<Mutex<Option<SharedBlockstore>>>,
}

impl<D: Disseminator + Send + Sync> Disseminator for RecDiss<D> {
    async fn send(&self, shred: &Shred) -> std::io::Result<()> {
        self.inner.send(shred).await
    }
    async fn forward(&self, shred: &Shred) -> std::io::Result<()> {
        let (slot, sl, ix) = shred_position(shred);
        let bs = self.bs.lock().unwrap().clone();
        let stored_then = bs.and_then(|b| b.try_read().ok().map(|g| g.verif_slot_probe(slot).0));
        self.net.log.lock().unwrap().clear();
        let r = self.inner.forward(shred).await;
        let dests: Vec<usize> = self.net.log.lock().unwrap().drain(..).map(|a| idx_of(&a)).collect();
        self.calls.lock().unwrap().push(FwdCall { pos: (slot.inner(), sl, ix), stored_then, dests, ok: r.is_ok() });
        r
    }
    async fn receive(&self) -> std::io::Result<Shred> {
        std::future::pending().await
    }
}

fn list(v: &[usize]) -> String {
    v.iter().map(|x| x.to_string()).collect::<Vec<_>>().join(" ")
}

/// destinations of one bare send / forward of a reference instance
fn bare<D: Disseminator>(rt: &tokio::runtime::Runtime, d: &D, net: &RecNet, shred: &Shred, forward: bool) -> Option<Vec<usize>> {
    net.log.lock().unwrap().clear();
    let r = catch(|| rt.block_on(async { if forward { d.forward(shred).await } else { d.send(shred).await } }));
    let dests: Vec<usize> = net.log.lock().unwrap().drain(..).map(|a| idx_of(&a)).collect();
    match r {
        Ok(Ok(())) => Some(dests),
        _ => None,
    }
}

#[derive(Clone, Copy, PartialEq, Eq, Debug)]
enum Kind {
    Valid,
    Duplicate,
    WrongKey,
    Equivocating,
    TypeFlipped,
}

#[allow(clippy::too_many_arguments)]
fn glue_case<D: Disseminator + Send + Sync + 'static>(rec: &mut Recorder, rt: &tokio::runtime::Runtime, rng: &mut Rng, own: usize, n: usize, fanout: usize, mk: &dyn Fn(RecNet, Arc<ValidatorEpochInfo>) -> D, order: usize, own_first: bool) {
    let kind = if fanout == 0 { "rotor".to_string() } else { format!("turbine-f{fanout}") };
    rec.begin_case(&format!("glue {kind} own={own} n={n} order={order} own-first={own_first}"));
    let sks: Vec<signature::SecretKey> = (0..n).map(|_| signature::SecretKey::new(rng)).collect();
    let vsks: Vec<aggsig::SecretKey> = (0..n).map(|_| aggsig::SecretKey::new(rng)).collect();
    let validators: Vec<ValidatorInfo> = (0..n)
        .map(|i| ValidatorInfo {
            id: ValidatorIndex::new(i as u64),
            stake: Stake::new(1 + (i as u64 % 3)),
            pubkey: sks[i].to_pk(),
            voting_pubkey: vsks[i].to_pk(),
            all2all_address: addr_of(i),
            disseminator_address: addr_of(i),
            repair_requester_address: addr_of(i),
            repair_responder_address: addr_of(i),
        })
        .collect();
    let epoch = EpochInfo::new(validators.clone());
    let vei_of = |v: usize| Arc::new(ValidatorEpochInfo::new(ValidatorIndex::new(v as u64), epoch.clone()));
    let vei = vei_of(own);
    let net_node = RecNet::default();
    let calls: Arc<Mutex<Vec<FwdCall>>> = Default::default();
    let bs_slot: Arc<Mutex<Option<SharedBlockstore>>> = Default::default();
    // reference instances: one per validator, each on its own recording network
    let refs: Vec<(D, RecNet)> = (0..n).map(|v| { let net = RecNet::default(); (mk(net.clone(), vei_of(v)), net) }).collect();
    let node = {
        let _g = rt.enter();
        let a2a: UdpNetwork<ConsensusMessage, ConsensusMessage> = UdpNetwork::new_with_any_port();
        let rq: UdpNetwork<RepairRequest, RepairResponse> = UdpNetwork::new_with_any_port();
        let rp: UdpNetwork<RepairResponse, RepairRequest> = UdpNetwork::new_with_any_port();
        let txs: UdpNetwork<Transaction, Transaction> = UdpNetwork::new_with_any_port();
        let diss = RecDiss { inner: mk(net_node.clone(), vei.clone()), net: net_node.clone(), calls: calls.clone(), bs: bs_slot.clone() };
        Alpenglow::new(sks[own].clone(), vsks[own].clone(), TrivialAll2All::new(validators.clone(), a2a), diss, rq, rp, vei.clone(), txs)
    };
    let bs = node.verif_blockstore();
    *bs_slot.lock().unwrap() = Some(bs.clone());
    let pool = node.get_pool();
    // the twin blockstore: fed by the harness according to the specification
    let (twin_tx, _twin_rx) = tokio::sync::mpsc::channel(1 << 14);
    let mut twin = BlockstoreImpl::new(twin_tx);

    let mut slots = Vec::new();
    let mut s = 4 + rng.below(1 << 14);
    while slots.len() < 2 {
        let l = epoch.leader(Slot::new(s)).id.as_usize();
        if (slots.is_empty() && l == own) || (slots.len() == 1 && l != own) { slots.push((s, l)); }
        s += 1;
    }
    if rng.chance(1, 2) { slots.reverse(); }
    let mut class = 0u64;
    for (slot, leader) in slots {
        let nslices = 1 + rng.below(3) as usize;
        let build = |signer: &signature::SecretKey, fill: u8| -> (Vec<Vec<ValidatedShred>>, Vec<Vec<u8>>) {
            let mut shreds = Vec::new();
            let mut payloads = Vec::new();
            for j in 0..nslices {
                let slice_index: SliceIndex = wincode::deserialize(&(j as u64).to_le_bytes()).expect("slice index");
                let hb: Vec<u8> = (0..32u64).map(|q| (slot + 7 * q) as u8).collect();
                let parent = if j == 0 { Some((Slot::new(slot - 1), wincode::deserialize(&hb).expect("hash"))) } else { None };
                let mut pb: Vec<u8> = match &parent { None => vec![0], Some(_) => { let mut v = vec![1]; v.extend_from_slice(&(slot - 1).to_le_bytes()); v.extend_from_slice(&hb); v } };
                pb.extend_from_slice(&8u64.to_le_bytes());
                pb.extend_from_slice(&[fill; 8]);
                payloads.push(pb);
                let slice = Slice { slot: Slot::new(slot), slice_index, is_last: j + 1 == nslices, parent, data: vec![fill; 8] };
                shreds.push(RegularShredder::default().shred(&slice, signer).expect("fits").to_vec());
            }
            (shreds, payloads)
        };
        let (good, payloads) = build(&sks[leader], 0);
        let (equiv, _) = build(&sks[leader], 1);
        let (wrong, _) = build(&sks[(leader + 1) % n], 0);
        // arrivals
        let mut arrivals: Vec<(Kind, Shred)> = Vec::new();
        let mut base: Vec<(usize, usize)> = (0..nslices).flat_map(|j| (0..TOTAL_SHREDS).map(move |i| (j, i))).collect();
        if order > 0 { rng.shuffle(&mut base); }
        for &(j, i) in &base { arrivals.push((Kind::Valid, good[j][i].as_shred().clone())); }
        let extra = 6 + rng.below(10) as usize;
        for _ in 0..extra {
            let (j, i) = (rng.below(nslices as u64) as usize, rng.below(TOTAL_SHREDS as u64) as usize);
            let (k, sh) = match rng.below(4) {
                0 => (Kind::Duplicate, good[j][i].as_shred().clone()),
                1 => (Kind::WrongKey, wrong[j][i].as_shred().clone()),
                2 => (Kind::Equivocating, equiv[j][i].as_shred().clone()),
                _ => {
                    let mut w = shredwire::Wire::of(good[j][i].as_shred());
                    w.tag ^= 1;
                    match w.decode() { Some(f) => (Kind::TypeFlipped, f), None => (Kind::Duplicate, good[j][i].as_shred().clone()) }
                }
            };
            // equivocating shreds late (order 2: anywhere, so that the second block may win the slice), the others anywhere
            let lo = if k == Kind::Equivocating && order != 2 { arrivals.len() / 2 } else { 0 };
            let at = lo + rng.below((arrivals.len() - lo) as u64 + 1) as usize;
            arrivals.insert(at, (k, sh));
        }
        if leader == own && own_first {
            for j in 0..nslices {
                for t in 0..2 {
                    let payload = alpenglow::types::slice::SlicePayload::try_from(&payloads[j][..]).expect("slice payload decodes");
                    let arr: Box<[ValidatedShred; TOTAL_SHREDS]> = Box::new(good[j].clone().try_into().expect("64 shreds"));
                    if t == 0 { let _ = catch(|| rt.block_on(async { bs.write().await.add_own_slice(payload, arr).await })); }
                    else { let _ = catch(|| rt.block_on(twin.add_own_slice(payload, arr))); }
                }
            }
        }
        let leader_pk = sks[leader].to_pk();
        for (k, sh) in arrivals {
            let (_, sl, ix) = shred_position(&sh);
            let (_, slice_index, _, _, _) = sh.payload().verif_parts();
            // ---- parameters of the model, from the twin
            let cached = twin.cached_commitment(Slot::new(slot), slice_index);
            let (twin_cnt, flagged) = twin.verif_slot_probe(Slot::new(slot));
            let ty = k != Kind::TypeFlipped;
            let (verdict, validated) = match ValidatedShred::try_new(sh.clone(), cached.as_ref(), &leader_pk) {
                Ok(v) => (0, Some(v)),
                Err(ShredValidationError::Equivocation) => (1, None),
                Err(ShredValidationError::InvalidSignature) => (2, None),
            };
            let accepted = verdict == 0 && ty;
            let mut bsres = 0;
            if verdict == 1 { rt.block_on(twin.flag_leader_misbehavior(Slot::new(slot))); }
            if accepted && leader != own {
                let r = rt.block_on(twin.add_shred_from_dissemination(validated.expect("validated")));
                let grew = twin.verif_slot_probe(Slot::new(slot)).0 > twin_cnt;
                bsres = match r { Ok(Some(_)) => 2, _ if grew => 1, _ => 0 };
            }
            rec.count(&format!("glue:{k:?}:verdict={verdict}:own-is-leader={}:bs={bsres}", leader == own));
            // ---- routing parameters from reference instances
            let op = if fanout == 0 {
                let relay = bare(rt, &refs[own].0, &refs[own].1, &sh, false).and_then(|d| d.first().copied()).unwrap_or(usize::MAX);
                rec.count(&format!("glue:rotor:own-is-leader={}:relay={}", leader == own, if relay == own { "own" } else if relay == leader { "leader" } else { "other" }));
                (format!("shred R {n} {slot} {own} {relay} {verdict} {} {} {bsres}", ty as u8, flagged as u8), Some(relay))
            } else {
                let root = bare(rt, &refs[leader].0, &refs[leader].1, &sh, false).and_then(|d| d.first().copied()).unwrap_or(usize::MAX);
                let mut perm = Vec::new();
                let mut q: VecDeque<usize> = VecDeque::from([root]);
                while let Some(v) = q.pop_front() {
                    if v >= n || perm.len() > n { break; }
                    perm.push(v);
                    q.extend(bare(rt, &refs[v].0, &refs[v].1, &sh, true).unwrap_or_default());
                }
                (format!("shred T {n} {slot} {own} {fanout} {verdict} {} {} {bsres} {}", ty as u8, flagged as u8, list(&perm)), None)
            };
            // ---- the real node
            let (cnt0, fl0) = rt.block_on(async { bs.read().await.verif_slot_probe(Slot::new(slot)) });
            let blocks0 = rt.block_on(async { pool.read().await.verif_add_block_calls() });
            calls.lock().unwrap().clear();
            let r = catch(|| rt.block_on(node.verif_handle_disseminator_shred(sh.clone())));
            let (cnt1, fl1) = rt.block_on(async { bs.read().await.verif_slot_probe(Slot::new(slot)) });
            let blocks1 = rt.block_on(async { pool.read().await.verif_add_block_calls() });
            let fwds: Vec<FwdCall> = calls.lock().unwrap().drain(..).collect();
            let mut toks: Vec<String> = Vec::new();
            if !fl0 && fl1 { toks.push("flag".into()); }
            let render = |f: &FwdCall| if f.ok { f.dests.iter().fold("fwd".to_string(), |s, d| s + " " + &d.to_string()) } else { "fwd-panic".to_string() };
            for f in fwds.iter().filter(|f| f.stored_then == Some(cnt0) || cnt1 == cnt0) { toks.push(render(f)); }
            if cnt1 > cnt0 { toks.push("store".into()); }
            for f in fwds.iter().filter(|f| !(f.stored_then == Some(cnt0) || cnt1 == cnt0)) { toks.push(render(f)); }
            for _ in blocks0..blocks1 { toks.push("block".into()); }
            let line = match &r { Ok(Ok(())) => if toks.is_empty() { "none".to_string() } else { toks.join(" | ") }, Ok(Err(e)) => format!("io-error {e}"), Err(_) => "panic".to_string() };
            rec.step(&op.0, &line);
            class = fnv(class, &format!("{k:?} {line}"));
            // ---- oracle, independent of the model
            let what = |msg: &str| {
                let relay = match op.1 { Some(r) => format!("relay {r}{}", if r == leader { " = the slot's leader" } else if r == own { " = this node" } else { "" }), None => "turbine".to_string() };
                format!("{kind} node {own} of {n}, slot {slot} led by {leader}{}: {k:?} shred (slice {sl}, index {ix}; {relay}; try_new verdict {verdict}, expected type {ty}) - {msg}; observed effects `{line}`", if leader == own { " (the node itself)" } else { "" })
            };
            if let (Some(relay), true) = (op.1, accepted) {
                if relay == own {
                    let want: Vec<usize> = (0..n).filter(|&v| v != own && v != leader).collect();
                    let got: Vec<usize> = fwds.iter().flat_map(|f| f.dests.clone()).collect();
                    rec.oracle(got == want, "node-glue-own-relay-shred-not-broadcast", || what(&format!("the node is the relay of this shred and must broadcast it to [{}] but sent to [{}]", list(&want), list(&got))));
                }
            }
            rec.oracle(fwds.len() == usize::from(accepted), "node-glue-forward-count", || what(&format!("Disseminator::forward was called {} time(s), must be {}", fwds.len(), usize::from(accepted))));
            rec.oracle(fwds.iter().all(|f| f.pos == (slot, sl, ix)), "node-glue-forward-count", || what("forward was called with another shred"));
            rec.oracle(fwds.iter().all(|f| f.stored_then == Some(cnt0)), "node-glue-stored-before-forward", || what(&format!("the blockstore held {:?} shreds of the slot when forward was called, {cnt0} before the handler ran", fwds.iter().map(|f| f.stored_then).collect::<Vec<_>>())));
            if !accepted { rec.oracle(cnt1 == cnt0 && blocks1 == blocks0, "node-glue-rejected-shred-stored", || what(&format!("a rejected shred changed the blockstore ({cnt0} -> {cnt1} shreds) or the pool ({} add_block calls)", blocks1 - blocks0))); }
            if leader == own { rec.oracle(cnt1 == cnt0 && blocks1 == blocks0, "node-glue-leader-ingests-own-shred", || what(&format!("the leader's node ingested a shred of its own slot ({cnt0} -> {cnt1} shreds, {} add_block calls)", blocks1 - blocks0))); }
        }
    }
    rec.end_case(class, true);
}


/// the node's all-to-all network: records every broadcast together with the pool-call count at that moment
#[derive(Clone, Default)]
struct RecA2A {
    log: Arc<Mutex<Vec<(ConsensusMessage, Option<(usize, usize)>)>>>,
    pool: Arc<Mutex<Option<SharedPool>>>,
}

impl All2All for RecA2A {
    async fn broadcast(&self, msg: &ConsensusMessage) -> std::io::Result<()> {
        let pool = self.pool.lock().unwrap().clone();
        let then = pool.and_then(|p| p.try_read().ok().map(|g| g.verif_add_msg_calls()));
        self.log.lock().unwrap().push((msg.clone(), then));
        Ok(())
    }
    async fn receive(&self) -> std::io::Result<ConsensusMessage> {
        std::future::pending().await
    }
}

fn cert_kind(c: &Cert) -> (usize, &'static str) {
    match c {
        Cert::Notar(_) => (0, "notar"),
        Cert::NotarFallback(_) => (1, "nf"),
        Cert::Skip(_) => (2, "skip"),
        Cert::FastFinal(_) => (3, "ff"),
        Cert::Final(_) => (4, "final"),
    }
}

/// a message of the a2a family: what it is BY CONSTRUCTION
struct A2AMsg {
    msg: ConsensusMessage,
    what: String,
    /// authentic and (certificates) sufficiently backed, by construction
    admissible: bool,
    class: &'static str,
}

fn a2a_case(rec: &mut Recorder, rt: &tokio::runtime::Runtime, rng: &mut Rng, own: usize, n: usize, shape: usize) {
    rec.begin_case(&format!("a2a own={own} n={n} shape={shape}"));
    let sks: Vec<signature::SecretKey> = (0..n).map(|_| signature::SecretKey::new(rng)).collect();
    let vsks: Vec<aggsig::SecretKey> = (0..n).map(|_| aggsig::SecretKey::new(rng)).collect();
    let stranger = aggsig::SecretKey::new(rng);
    let stakes: Vec<u64> = (0..n).map(|i| match shape { 0 => 1, 1 => 1 + (i as u64 % 3), _ => 1 + rng.below(9) }).collect();
    let total: u64 = stakes.iter().sum();
    let validators: Vec<ValidatorInfo> = (0..n)
        .map(|i| ValidatorInfo {
            id: ValidatorIndex::new(i as u64),
            stake: Stake::new(stakes[i]),
            pubkey: sks[i].to_pk(),
            voting_pubkey: vsks[i].to_pk(),
            all2all_address: addr_of(i),
            disseminator_address: addr_of(i),
            repair_requester_address: addr_of(i),
            repair_responder_address: addr_of(i),
        })
        .collect();
    let epoch = EpochInfo::new(validators.clone());
    let vei = Arc::new(ValidatorEpochInfo::new(ValidatorIndex::new(own as u64), epoch.clone()));
    let a2a = RecA2A::default();
    let node = {
        let _g = rt.enter();
        let rq: UdpNetwork<RepairRequest, RepairResponse> = UdpNetwork::new_with_any_port();
        let rp: UdpNetwork<RepairResponse, RepairRequest> = UdpNetwork::new_with_any_port();
        let txs: UdpNetwork<Transaction, Transaction> = UdpNetwork::new_with_any_port();
        Alpenglow::new(sks[own].clone(), vsks[own].clone(), a2a.clone(), Rotor::new(RecNet::default(), vei.clone()), rq, rp, vei.clone(), txs)
    };
    let pool = node.get_pool();
    *a2a.pool.lock().unwrap() = Some(pool.clone());
    let (twin_tx, mut twin_rx) = tokio::sync::mpsc::channel(1 << 14);
    let (twin_rep_tx, _twin_rep_rx) = tokio::sync::mpsc::channel(1 << 14);
    let mut twin = PoolImpl::new(vei.clone(), twin_tx, twin_rep_tx);

    let hash_of = |slot: u64, which: u64| -> BlockHash {
        let hb: Vec<u8> = (0..32u64).map(|q| (slot * 3 + which * 101 + 7 * q) as u8).collect();
        wincode::deserialize::<alpenglow::crypto::Hash>(&hb).expect("hash").into()
    };
    let stake_of = |set: &[usize]| -> u64 { let mut u: Vec<usize> = set.to_vec(); u.sort(); u.dedup(); u.iter().map(|&v| stakes[v]).sum() };
    let far = 2 * alpenglow::types::slot::SLOTS_PER_EPOCH;
    let nmsgs = 40 + rng.below(30) as usize;
    let mut sent: Vec<ConsensusMessage> = Vec::new();
    let mut hi_final_bcast = 0u64; // the oracle's own bookkeeping of the highest final(-fast) certificate broadcast so far
    let mut class = 0u64;
    let (mut saw_ok, mut saw_refused) = (false, false);
    let salt = rng.below(1 << 20);
    for step in 0..nmsgs {
        let fin_twin = twin.finalized_slot().inner();
        // slots: a small moving range above the finalized slot so that votes accumulate into certificates
        // the harness stays inside the fault assumption: every slot has ONE fate (skipped, or block `hash_of(slot, 0)`);
        // only validator 0, and only if it holds < 20 % of the stake, votes against it (second block, skip + notar, …)
        let unpruned = twin.verif_first_unpruned_slot().inner();
        let base = unpruned.max(1);
        let slot = base + rng.below(6);
        let skip_slot = |s: u64| (s.wrapping_mul(2654435761).wrapping_add(salt) >> 5) % 3 == 0;
        let byz_ok = (stakes[0] as u128) * 5 < total as u128;
        let which = 0u64;
        let honest_vote_kind = |rng: &mut Rng, s: u64| if skip_slot(s) { 2 + rng.below(2) } else { [0u64, 1, 4][rng.below(3) as usize] };
        let fit_cert_kind = |rng: &mut Rng, s: u64| if skip_slot(s) { 2usize } else { [0usize, 1, 3, 4][rng.below(4) as usize] };
        let low_or_far = |rng: &mut Rng| if rng.chance(1, 2) || unpruned == 0 { fin_twin + far + rng.below(3) } else { rng.below(unpruned) };
        let ix = |v: usize| ValidatorIndex::new(v as u64);
        // signer subsets around a threshold (num/5)
        let subset = |rng: &mut Rng, num: u64, meet: bool| -> Vec<usize> {
            let mut order: Vec<usize> = (0..n).collect();
            rng.shuffle(&mut order);
            let mut set = Vec::new();
            for v in order {
                if (stake_of(&set) as u128) * 5 >= (total as u128) * num as u128 { break; }
                set.push(v);
            }
            if !meet { set.pop(); }
            set
        };
        let mk_vote = |kind: u64, slot: u64, which: u64, key: &aggsig::SecretKey, named: ValidatorIndex| -> Vote {
            match kind {
                0 => Vote::new_notar(Slot::new(slot), hash_of(slot, which), key, named),
                1 => Vote::new_notar_fallback(Slot::new(slot), hash_of(slot, which), key, named),
                2 => Vote::new_skip(Slot::new(slot), key, named),
                3 => Vote::new_skip_fallback(Slot::new(slot), key, named),
                _ => Vote::new_final(Slot::new(slot), key, named),
            }
        };
        let vkind = ["notar", "notar-fallback", "skip", "skip-fallback", "final"];
        // certificate of kind `ck` for `slot` from signer sets (s1: first half, s2: second half for nf / skip), one part
        // optionally signed by the key of `forger` instead of the marked signer's
        let mk_cert = |ck: usize, slot: u64, which: u64, s1: &[usize], s2: &[usize], forged: Option<usize>| -> Option<Cert> {
            let key = |v: usize| -> &aggsig::SecretKey { if forged == Some(v) { &stranger } else { &vsks[v] } };
            let nv = |s: &[usize]| -> Vec<NotarVote> { s.iter().map(|&v| NotarVote::new(Slot::new(slot), hash_of(slot, which), key(v), ix(v))).collect() };
            if s1.is_empty() && s2.is_empty() { return None; }
            Some(match ck {
                0 => { if s1.is_empty() { return None; } Cert::Notar(NotarCert::new(&nv(s1), &validators)) }
                1 => {
                    let nf: Vec<NotarFallbackVote> = s2.iter().map(|&v| NotarFallbackVote::new(Slot::new(slot), hash_of(slot, which), key(v), ix(v))).collect();
                    Cert::NotarFallback(NotarFallbackCert::new(&nv(s1), &nf, &validators))
                }
                2 => {
                    let a: Vec<SkipVote> = s1.iter().map(|&v| SkipVote::new(Slot::new(slot), key(v), ix(v))).collect();
                    let b: Vec<SkipFallbackVote> = s2.iter().map(|&v| SkipFallbackVote::new(Slot::new(slot), key(v), ix(v))).collect();
                    Cert::Skip(SkipCert::new(&a, &b, &validators))
                }
                3 => { if s1.is_empty() { return None; } Cert::FastFinal(FastFinalCert::new(&nv(s1), &validators)) }
                _ => {
                    if s1.is_empty() { return None; }
                    let f: Vec<FinalVote> = s1.iter().map(|&v| FinalVote::new(Slot::new(slot), key(v), ix(v))).collect();
                    Cert::Final(FinalCert::new(&f, &validators))
                }
            })
        };
        let halves = |rng: &mut Rng, set: &[usize], ck: usize| -> (Vec<usize>, Vec<usize>) {
            if ck == 1 || ck == 2 { let cut = rng.below(set.len() as u64 + 1) as usize; (set[..cut].to_vec(), set[cut..].to_vec()) } else { (set.to_vec(), Vec::new()) }
        };
        let m: A2AMsg = match rng.below(16) {
            0..=4 => {
                let v = rng.below(n as u64) as usize;
                let (k, which) = if v == 0 && byz_ok { (rng.below(5), rng.below(2)) } else { (honest_vote_kind(rng, slot), 0) };
                A2AMsg { msg: mk_vote(k, slot, which, &vsks[v], ix(v)).into(), what: format!("genuine {} vote of validator {v} for slot {slot}", vkind[k as usize]), admissible: true, class: "vote-valid" }
            }
            5 => {
                let (k, v) = (rng.below(5), rng.below(n as u64) as usize);
                let (key, by) = if rng.chance(1, 2) { (&stranger, "a key that is no validator's".to_string()) } else { (&vsks[(v + 1) % n], format!("validator {}'s key", (v + 1) % n)) };
                A2AMsg { msg: mk_vote(k, slot, which, key, ix(v)).into(), what: format!("{} vote for slot {slot} naming validator {v} but signed with {by}", vkind[k as usize]), admissible: n == 1 && !by.starts_with("a key"), class: "vote-wrong-sig" }
            }
            6 => {
                let k = rng.below(5);
                let named = [n as u64, n as u64 + 1, (1u64 << 32) + rng.below(n as u64), u64::MAX][rng.below(4) as usize];
                let v = rng.below(n as u64) as usize;
                A2AMsg { msg: mk_vote(k, slot, which, &vsks[v], ValidatorIndex::new(named)).into(), what: format!("{} vote for slot {slot} naming signer index {named} (there are {n} validators), signed by validator {v}", vkind[k as usize]), admissible: false, class: "vote-unknown-signer" }
            }
            7 => {
                let (k, v) = (rng.below(5), rng.below(n as u64) as usize);
                let s = low_or_far(rng);
                A2AMsg { msg: mk_vote(k, s, which, &vsks[v], ix(v)).into(), what: format!("genuine {} vote of validator {v} for the out-of-range slot {s} (finalized {fin_twin})", vkind[k as usize]), admissible: true, class: "vote-slot-out-of-range" }
            }
            8 if !sent.is_empty() => {
                let j = rng.below(sent.len() as u64) as usize;
                let msg = sent[j].clone();
                let admissible = match &msg { ConsensusMessage::Vote(v) => ValidatedVote::try_new(v.clone(), &epoch).is_ok(), ConsensusMessage::Cert(c) => ValidatedCert::try_new(c.clone(), &epoch).is_ok() };
                A2AMsg { msg, what: format!("a second copy of message {j} of this case"), admissible, class: "duplicate" }
            }
            8..=11 => {
                let ck = fit_cert_kind(rng, slot);
                let set = subset(rng, if ck == 3 { 4 } else { 3 }, true);
                let (s1, s2) = halves(rng, &set, ck);
                match mk_cert(ck, slot, which, &s1, &s2, None) {
                    Some(c) => A2AMsg { msg: c.into(), what: format!("{} certificate for slot {slot} signed by {s1:?} + {s2:?} (stake {} of {total})", cert_kind(&mk_cert(ck, slot, which, &s1, &s2, None).unwrap()).1, stake_of(&set)), admissible: true, class: "cert-valid" },
                    None => continue,
                }
            }
            12 => {
                let ck = rng.below(5) as usize;
                let set = subset(rng, if ck == 3 { 4 } else { 3 }, false);
                let (s1, s2) = halves(rng, &set, ck);
                match mk_cert(ck, slot, which, &s1, &s2, None) {
                    Some(c) => A2AMsg { what: format!("{} certificate for slot {slot} signed by {s1:?} + {s2:?}: stake {} of {total}, below the threshold", cert_kind(&c).1, stake_of(&set)), msg: c.into(), admissible: false, class: "cert-insufficient-stake" },
                    None => continue,
                }
            }
            13 => {
                // both halves name the same signers: the declared stake counts them twice
                let ck = if skip_slot(slot) { 2 } else { 1 };
                let meet = rng.chance(1, 3);
                let mut set = subset(rng, 3, meet);
                if set.is_empty() { set.push(rng.below(n as u64) as usize); }
                let union = stake_of(&set);
                let ok = (union as u128) * 5 >= (total as u128) * 3;
                match mk_cert(ck, slot, which, &set, &set, None) {
                    Some(c) => A2AMsg { what: format!("{} certificate for slot {slot} whose two halves are both signed by {set:?}: distinct signers hold {union} of {total}, declared {}", cert_kind(&c).1, 2 * union), msg: c.into(), admissible: ok, class: "cert-overlapping-halves" },
                    None => continue,
                }
            }
            14 => {
                let ck = rng.below(5) as usize;
                let set = subset(rng, if ck == 3 { 4 } else { 3 }, true);
                let (s1, s2) = halves(rng, &set, ck);
                let forged = set[rng.below(set.len() as u64) as usize];
                match mk_cert(ck, slot, which, &s1, &s2, Some(forged)) {
                    Some(c) => A2AMsg { what: format!("{} certificate for slot {slot} marking signers {s1:?} + {s2:?}, the part of validator {forged} signed by a key that is not its own", cert_kind(&c).1), msg: c.into(), admissible: false, class: "cert-forged-signer-bit" },
                    None => continue,
                }
            }
            _ => {
                let ck = rng.below(5) as usize;
                let set = subset(rng, if ck == 3 { 4 } else { 3 }, true);
                let (s1, s2) = halves(rng, &set, ck);
                let s = low_or_far(rng);
                match mk_cert(ck, s, which, &s1, &s2, None) {
                    Some(c) => A2AMsg { what: format!("valid {} certificate for the out-of-range slot {s} (finalized {fin_twin})", cert_kind(&c).1), msg: c.into(), admissible: true, class: "cert-slot-out-of-range" },
                    None => continue,
                }
            }
        };
        if std::env::var_os("AG_TRACE").is_some() { eprintln!("step {step}: {} {}", m.class, m.what); }
        sent.push(m.msg.clone());
        let is_cert = matches!(m.msg, ConsensusMessage::Cert(_));
        // ---- the crate's validators on a copy (the model's `valid`); must agree with the construction
        let (valid, vv, vc) = match &m.msg {
            ConsensusMessage::Vote(v) => { let r = catch(|| ValidatedVote::try_new(v.clone(), &epoch)); (matches!(r, Ok(Ok(_))), r.ok().and_then(|x| x.ok()), None) }
            ConsensusMessage::Cert(c) => { let r = catch(|| ValidatedCert::try_new(c.clone(), &epoch)); (matches!(r, Ok(Ok(_))), None, r.ok().and_then(|x| x.ok())) }
        };
        rec.oracle(valid == m.admissible, "node-a2a-validation-verdict", || format!("n={n} stakes {stakes:?}: {} is {}admissible by construction but try_new says {valid}", m.what, if m.admissible { "" } else { "in" }));
        // ---- the twin pool gets it only if it is admissible by construction
        let mut res = 2;
        let mut created: Vec<Cert> = Vec::new();
        if m.admissible {
            if let Some(v) = vv { res = match rt.block_on(twin.add_vote(v)) { Ok(()) => 0, Err(AddVoteError::Slashable(_)) => 1, Err(_) => 2 }; }
            if let Some(c) = vc { res = match rt.block_on(twin.add_cert(c)) { Ok(()) => 0, Err(_) => 2 }; }
            while let Ok(ev) = twin_rx.try_recv() { if let PoolEvent::CertCreated(c) = ev { created.push(c); } }
        }
        let fin_twin1 = twin.finalized_slot().inner();
        rec.count(&format!("a2a:{}:valid={valid}:res={res}:created={}", m.class, created.len().min(3)));
        let op = format!("a2a {} {} {res}{}", is_cert as u8, valid as u8, created.iter().map(|c| format!(" {} {}", cert_kind(c).0, c.slot().inner())).collect::<String>());
        // ---- the real node
        let calls0 = rt.block_on(async { pool.read().await.verif_add_msg_calls() });
        a2a.log.lock().unwrap().clear();
        let r = catch(|| rt.block_on(async {
            node.verif_handle_all2all_message(m.msg.clone()).await;
            for _ in 0..16 { tokio::task::yield_now().await; }
        }));
        let calls1 = rt.block_on(async { pool.read().await.verif_add_msg_calls() });
        let fin_node = rt.block_on(async { pool.read().await.finalized_slot().inner() });
        let bc: Vec<(Cert, Option<(usize, usize)>)> = a2a.log.lock().unwrap().drain(..).filter_map(|(mm, t)| match mm { ConsensusMessage::Cert(c) => Some((c, t)), _ => None }).collect();
        let mut toks: Vec<String> = Vec::new();
        let tok = |c: &Cert| format!("bcast {}@{}", cert_kind(c).1, c.slot().inner());
        let early = |t: &Option<(usize, usize)>| calls1 != calls0 && *t == Some(calls0);
        for (c, t) in bc.iter().filter(|(_, t)| early(t)) { toks.push(tok(c)); let _ = t; }
        for _ in calls0.0..calls1.0 { toks.push("add_vote".into()); }
        for _ in calls0.1..calls1.1 { toks.push("add_cert".into()); }
        for (c, _) in bc.iter().filter(|(_, t)| !early(t)) { toks.push(tok(c)); }
        let line = match &r { Ok(()) => if toks.is_empty() { "none".to_string() } else { toks.join(" | ") }, Err(_) => "panic".to_string() };
        rec.step(&op, &line);
        class = fnv(class, &format!("{} {line}", m.class));
        if res == 0 && valid { saw_ok = true; } else { saw_refused = true; }
        // ---- oracle, independent of the model
        let what = |msg: &str| format!("node {own} of {n} (stakes {stakes:?}), message {step}: {} - {msg}; observed effects `{line}`", m.what);
        rec.oracle(r.is_ok(), "node-a2a-handler-panics", || what("handle_all2all_message panicked"));
        let dv = calls1.0 - calls0.0;
        let dc = calls1.1 - calls0.1;
        if !m.admissible {
            rec.oracle(dv + dc == 0, "node-a2a-unvalidated-reaches-pool", || what(&format!("neither authentic nor backed, yet the pool was called ({dv} add_vote, {dc} add_cert)")));
            rec.oracle(bc.is_empty() && fin_node == fin_twin, "node-a2a-refused-message-has-effect", || what(&format!("a refused message changed the node: {} certificate broadcast(s), finalized slot {fin_twin} -> {fin_node}", bc.len())));
        } else {
            rec.oracle((dv, dc) == if is_cert { (0, 1) } else { (1, 0) }, "node-a2a-valid-message-not-offered", || what(&format!("an admissible message must be offered to the pool exactly once ({dv} add_vote, {dc} add_cert calls seen)")));
        }
        rec.oracle(fin_node == fin_twin1, "node-a2a-pool-diverges", || what(&format!("the node's pool reports finalized slot {fin_node}, a pool fed only with the admissible messages {fin_twin1}")));
        // re-broadcast: exactly the certificates the pool newly stored, each once, identical, in order - except those of
        // slots below the window of the highest final(-fast) certificate broadcast before (Votor::should_ignore_pool_event)
        let mut want: Vec<Cert> = Vec::new();
        for c in &created {
            if c.slot().inner() < hi_final_bcast / 4 * 4 { continue; }
            if matches!(c, Cert::Final(_) | Cert::FastFinal(_)) { hi_final_bcast = hi_final_bcast.max(c.slot().inner()); }
            want.push(c.clone());
        }
        let got: Vec<Cert> = bc.iter().map(|(c, _)| c.clone()).collect();
        rec.oracle(got == want, "node-a2a-cert-rebroadcast", || what(&format!("the node must re-broadcast exactly the certificates its pool newly stored [{}] but broadcast [{}]", want.iter().map(&tok).collect::<Vec<_>>().join(", "), got.iter().map(&tok).collect::<Vec<_>>().join(", "))));
        rec.oracle(bc.iter().all(|(_, t)| !early(t)), "node-a2a-broadcast-before-pool", || what("a certificate was broadcast before the pool was called"));
    }
    rec.end_case(class, saw_ok && saw_refused);
}

fn main() {
    let args = Args::parse();
    quiet_panics();
    let mut rng = Rng::new(args.seed);
    let rt = tokio::runtime::Builder::new_current_thread().enable_all().build().expect("rt");
    let mut rec = Recorder::new();
    let only = args.extra.iter().position(|a| a == "--only").and_then(|i| args.extra.get(i + 1).cloned());
    let cases = if only.as_deref() == Some("a2a") { 0 } else if args.thorough { 64 } else { 16 };
    for k in 0..cases {
        let n = [4usize, 5, 7, 3][k % 4];
        let own = (k / 4 + k) % n;
        let order = k % 3;
        let own_first = k % 2 == 1;
        if k % 4 == 2 {
            let f = [2usize, 1, 3][(k / 4) % 3];
            glue_case(&mut rec, &rt, &mut rng, own, n, f, &|net, vei| Turbine::new(net, vei).with_fanout(f), order, own_first);
        } else {
            glue_case(&mut rec, &rt, &mut rng, own, n, 0, &|net, vei| Rotor::new(net, vei), order, own_first);
        }
    }
    let a2a_cases = if only.as_deref() == Some("shred") { 0 } else if args.thorough { 96 } else { 12 };
    for k in 0..a2a_cases {
        let n = [4usize, 5, 7, 3, 10, 2, 6, 8][k % 8]; // not 1: with a single validator the repair loop spins looking for a peer
        a2a_case(&mut rec, &rt, &mut rng, k % n, n, k % 3);
    }
    rec.finish(&args, serde_json::json!({ "cases": cases, "a2a_cases": a2a_cases }));
}
