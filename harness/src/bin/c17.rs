//! C17 — committee sampling: correspondence with `AgModel.Sampler` + property oracle on every
//! `SamplingStrategy` / `QuorumSamplingStrategy` shipped in `rotor::sampling_strategy`.
//!
//! ops (see `lean/Driver/C17.lean`): `stakes …`, `fa1 k`, `fa1p k`, `part w bins order…`,
//! `constructible w bins`, `fa2 k`, `draw <strategy> … committee…`.
//! The implementation side of a `draw` line is the verdict of this file's *own* naive oracle on the
//! committee the real sampler returned; the model side is `AgModel.Sampler`'s validity predicate on the
//! same committee (the theorems of `Props/C17.lean` are about that predicate).
use ag_harness::*;
use alpenglow::crypto::{aggsig, signature};
use alpenglow::disseminator::rotor::sampling_strategy::{
    AllSameSampler, DecayingAcceptanceSampler, FaitAccompli1Sampler, FaitAccompli2Sampler, PartitionSampler, TurbineSampler, UniformSampler,
};
use alpenglow::disseminator::rotor::{QuorumSamplingStrategy, SamplingStrategy, StakeWeightedSampler};
use alpenglow::{Stake, ValidatorIndex, ValidatorInfo};
use std::net::{IpAddr, Ipv4Addr, SocketAddr};

struct Env {
    pk: signature::PublicKey,
    vpk: aggsig::PublicKey,
}
impl Env {
    fn validators(&self, stakes: &[u64]) -> Vec<ValidatorInfo> {
        let a = SocketAddr::new(IpAddr::V4(Ipv4Addr::LOCALHOST), 1);
        stakes
            .iter()
            .enumerate()
            .map(|(i, s)| ValidatorInfo {
                id: ValidatorIndex::new(i as u64),
                stake: Stake::new(*s),
                pubkey: self.pk,
                voting_pubkey: self.vpk,
                all2all_address: a,
                disseminator_address: a,
                repair_requester_address: a,
                repair_responder_address: a,
            })
            .collect()
    }
}

/// the panic message without its variable parts (identifies the panic site)
fn panic_site(m: &str) -> String {
    m.chars().filter(|c| !c.is_ascii_digit()).take(60).collect()
}
fn list<T: ToString>(v: &[T]) -> String {
    v.iter().map(|x| x.to_string()).collect::<Vec<_>>().join(" ")
}
fn ids(v: &[ValidatorIndex]) -> Vec<usize> {
    v.iter().map(|x| x.as_usize()).collect()
}
fn brief(c: &[usize]) -> String {
    if c.len() <= 80 { format!("{c:?}") } else { format!("{:?}…({} seats)", &c[..80], c.len()) }
}
fn short(st: &[u64]) -> String {
    if st.len() <= 12 { format!("{st:?}") } else { format!("{:?}…(n={})", &st[..12], st.len()) }
}

// ------------------------------------------------------------ naive reference (exact, u128)

fn seats(st: &[u64], k: u64, v: usize) -> u64 {
    let t: u128 = st.iter().map(|&s| s as u128).sum();
    (st[v] as u128 * k as u128 / t) as u64
}
fn residuals(st: &[u64], k: u64) -> Vec<u64> {
    let t: u128 = st.iter().map(|&s| s as u128).sum();
    st.iter().enumerate().map(|(v, &s)| (s as u128 - seats(st, k, v) as u128 * t / k as u128) as u64).collect()
}
/// fallback weights of FA1 (original stakes when all residuals vanish) and k'
fn fa1_ref(st: &[u64], k: u64) -> (Vec<usize>, Vec<u64>, u64) {
    let req: Vec<usize> = (0..st.len()).flat_map(|v| std::iter::repeat_n(v, seats(st, k, v) as usize)).collect();
    let res = residuals(st, k);
    let w = if res.iter().all(|&r| r == 0) { st.to_vec() } else { res };
    let kp = k - req.len() as u64;
    (req, w, kp)
}
/// the shape on which the pinned snapshot panicked (D8, fixed): bins of ceil(total/bins) leave a
/// trailing bin empty.  Only used to show that the generators keep producing such shapes.
fn trailing_bin_empty(w: &[u64], bins: u64) -> bool {
    if bins == 0 {
        return false;
    }
    let t: u128 = w.iter().map(|&s| s as u128).sum();
    let spb = t.div_ceil(bins as u128);
    t <= (bins as u128 - 1) * spb
}
/// D9 condition in exact arithmetic: Σ round-half-up(s·k/T) > k
fn sum_round_exceeds_k(st: &[u64], k: u64) -> bool {
    let t: u128 = st.iter().map(|&s| s as u128).sum();
    let sum: u128 = st.iter().map(|&s| (2 * s as u128 * k as u128 + t) / (2 * t)).sum();
    sum > k as u128
}
/// some s·k/T is within 1e-9 of x.5: `f64` `.round()` may go either way (not modelled)
fn round_borderline(st: &[u64], k: u64) -> bool {
    let t: u128 = st.iter().map(|&s| s as u128).sum();
    st.iter().any(|&s| {
        let r = (2 * s as u128 * k as u128) % (2 * t);
        r.abs_diff(t) < t / 1_000_000_000 + 1
    })
}
fn floor_ok(st: &[u64], k: u64, c: &[usize]) -> bool {
    let mut cnt = vec![0u64; st.len()];
    for &v in c {
        if v < st.len() {
            cnt[v] += 1;
        }
    }
    (0..st.len()).all(|v| cnt[v] >= seats(st, k, v))
}
fn members_ok(n: usize, k: usize, c: &[usize]) -> bool {
    c.len() == k && c.iter().all(|&v| v < n)
}

// ------------------------------------------------------------ stake shapes

fn stakes(shape: &str, n: usize, k: u64, rng: &mut Rng) -> Vec<u64> {
    match shape {
        "equal1" => vec![1; n],
        "equalbig" => vec![1_000_000_007; n],
        "small" => (0..n).map(|_| rng.range(1, 5)).collect(),
        "heavy" => (0..n).map(|i| 1 + 4_000_000_000_000_000 / ((i as u64 + 1) * (i as u64 + 1))).collect(),
        "whale" => (0..n).map(|i| if i == n / 2 { 9 * n as u64 * 1000 } else { 1000 + rng.below(10) }).collect(),
        // total = k·m and stakes multiples of m: s·k/T is an exact integer (f64 lands just below it)
        "exactk" => {
            let m = rng.range(1, 1000);
            let mut v: Vec<u64> = vec![m; n];
            let mut left = (k.max(n as u64) * rng.range(1, 3)).saturating_sub(n as u64);
            while left > 0 {
                let i = rng.below(n as u64) as usize;
                let add = rng.range(1, left.min(40));
                v[i] += add * m;
                left -= add;
            }
            // make the total a multiple of k·m
            let units: u64 = v.iter().map(|s| s / m).sum();
            let pad = (k - units % k) % k;
            v[0] += pad * m;
            v
        }
        // stakes straddling the j/k boundaries: j·unit − 1, j·unit, j·unit + 1
        "straddle" => {
            let unit = rng.range(2, 2000);
            (0..n).map(|i| { let j = 1 + (i as u64 % 4); match i % 3 { 0 => j * unit - 1, 1 => j * unit, _ => j * unit + 1 } }).collect()
        }
        // one validator holds all but a few units of a total above 2^53
        "whale54" => (0..n).map(|i| if i == 0 { 1u64 << 54 } else { 1 }).collect(),
        "pow53" => (0..n).map(|_| (1u64 << 53) / n as u64 + rng.below(1 << 40)).collect(),
        "somezero" => (0..n).map(|i| if i % 3 == 1 && n > 1 { 0 } else { rng.range(1, 1000) }).collect(),
        // one validator holds 99 % of the stake (ratio to the lightest one: 99·(n−1))
        "dominant" => { let w = rng.below(n as u64) as usize; (0..n).map(|i| if i == w { 99 * (n as u64 - 1).max(1) } else { 1 }).collect() }
        _ => (0..n).map(|_| rng.range(1, 1 << 32)).collect(),
    }
}

struct Ctx<'a> {
    rec: Recorder,
    env: &'a Env,
    thorough: bool,
    class: u64,
    /// failures recorded so far per (oracle key, input class)
    recorded: std::collections::BTreeMap<String, u32>,
    /// oracle-only section: the operations of the case are not written to the compared stream (committees of 10^5 seats
    /// are too long for the line protocol to be worth it; the model's `decayValid` is the same predicate as the oracle)
    mute: bool,
}

impl Ctx<'_> {
    /// Reports a constructor / draw panic.  The recorder keeps at most 200 failures per run, so the
    /// (frequent) failures of one class — same oracle key, same panic site, same input-class flags —
    /// are recorded 6 times and counted afterwards: a flood of one known class must not push a
    /// different failure out of the report.
    fn fail_class(&mut self, key: &str, class: &str, what: impl FnOnce() -> String) {
        let n = self.recorded.entry(format!("{key}|{class}")).or_default();
        *n += 1;
        if *n <= 6 {
            self.rec.oracle(false, key, what);
        } else {
            self.rec.oracle_checks += 1;
            self.rec.count(&format!("oracle_fail_not_recorded(same class as 6 recorded):{key}|{class}"));
        }
    }
    fn begin(&mut self, tag: &str, st: &[u64]) {
        self.rec.begin_case(tag);
        self.class = fnv(0, tag);
        let t: u128 = st.iter().map(|&s| s as u128).sum();
        self.step(&format!("stakes {}", list(st)), &format!("n {} total {t}", st.len()));
    }
    fn step(&mut self, op: &str, out: &str) {
        if !self.mute {
            self.rec.step(op, out);
        }
    }
    fn seeds(&self) -> usize {
        if self.thorough { 6 } else { 4 }
    }
    /// two constructions, same seeds: equal committees (function of validator set and RNG only)
    fn draws<S: QuorumSamplingStrategy>(&mut self, kind: &str, desc: &str, a: &S, b: &S, rng: &mut Rng) -> Vec<Vec<usize>> {
        let mut out = vec![];
        for _ in 0..self.seeds() {
            let seed = rng.next();
            let ca = catch(|| a.sample_quorum(&mut Rng(seed)));
            let cb = catch(|| b.sample_quorum(&mut Rng(seed)));
            match (ca, cb) {
                (Ok(x), Ok(y)) => {
                    let (x, y) = (ids(&x), ids(&y));
                    self.rec.oracle(x == y, &format!("{kind}-nondeterministic"), || format!("{desc}: two independently constructed samplers, same RNG seed {seed}: {x:?} vs {y:?}"));
                    self.rec.count(&format!("{kind}:draw-ok"));
                    out.push(x);
                }
                (Err(m), _) | (_, Err(m)) => {
                    self.rec.count(&format!("{kind}:draw-panic"));
                    self.rec.oracle(false, &format!("{kind}-sample-panics"), || format!("{desc}: sample_quorum panicked (seed {seed}): {m}"));
                }
            }
        }
        out
    }
}

// ------------------------------------------------------------ FA1

fn fa1_case(cx: &mut Ctx, rng: &mut Rng, shape: &str, st: &[u64], k: u64, partition: bool) {
    let n = st.len();
    let kind = if partition { "fa1p" } else { "fa1w" };
    let desc = format!("FaitAccompli1Sampler::{} k={k} stakes={shape}{}", if partition { "new_with_partition_fallback" } else { "new_with_stake_weighted_fallback" }, short(st));
    cx.begin(&format!("{kind}-{shape}-{n}-k{k}"), st);
    let vals = cx.env.validators(st);
    let (req_ref, w_ref, kp_ref) = fa1_ref(st, k);
    if partition {
        let mk = || catch(|| FaitAccompli1Sampler::new_with_partition_fallback(vals.clone(), k));
        let (a, b) = (mk(), mk());
        match (a, b) {
            (Ok(a), Ok(b)) => {
                cx.rec.count("fa1p:constructed");
                if trailing_bin_empty(&w_ref, kp_ref) {
                    cx.rec.count("fa1p:constructed-on-former-D8-shape");
                }
                let kp = a.fallback_sampler.quorum_size();
                // required prefix from a first draw
                let first = catch(|| ids(&a.sample_quorum(&mut Rng(1)))).unwrap_or_default();
                let req: Vec<usize> = first.iter().take((k as usize).saturating_sub(kp)).copied().collect();
                cx.rec.step(&format!("fa1 {k}"), &format!("fa1 kprime {kp} req {}", list(&req)).trim_end().to_string());
                cx.rec.step(&format!("fa1p {k}"), "ok");
                cx.rec.oracle(req == req_ref && kp as u64 == kp_ref, "fa1-seats", || format!("{desc}: required samples {req:?} (k'={kp}), floor(stake*k/total) demands {req_ref:?} (k'={kp_ref})"));
                // bins: structure, independent recount
                let bv: Vec<Vec<usize>> = a.fallback_sampler.bin_validators.iter().map(|b| ids(b)).collect();
                let bs: Vec<Vec<u64>> = a.fallback_sampler.bin_stakes.iter().map(|b| b.iter().map(|s| s.inner()).collect()).collect();
                let same = ids_eq(&a.fallback_sampler, &b.fallback_sampler);
                cx.rec.oracle(same, "partition-nondeterministic", || format!("{desc}: two constructions give different bins: {:?} vs {:?}", bv, b.fallback_sampler.bin_validators));
                if kp > 0 {
                    emit_bins(cx, "f", kp, &bv, &bs, &w_ref, &desc);
                }
                let draws = cx.draws(kind, &desc, &a, &b, rng);
                for c in draws {
                    let in_bins = c.len() == k as usize && c[req.len().min(c.len())..].iter().zip(bv.iter()).all(|(v, b)| b.contains(v));
                    let valid = members_ok(n, k as usize, &c) && c[..req.len().min(c.len())] == req[..] && in_bins && req == req_ref;
                    let fl = floor_ok(st, k, &c);
                    cx.rec.step(&format!("draw fa1p {}", list(&c)), &format!("valid {valid} floor {fl}"));
                    cx.rec.oracle(members_ok(n, k as usize, &c), "fa1p-size-or-member", || format!("{desc}: committee {c:?} is not {k} members of the set"));
                    cx.rec.oracle(in_bins, "partition-bin-membership", || format!("{desc}: committee {c:?} not drawn bin by bin from {bv:?}"));
                    cx.rec.oracle(fl, "fa1-floor-guarantee", || format!("{desc}: committee {c:?} gives some validator fewer than floor(stake*k/total) seats (demanded prefix {req_ref:?})"));
                    cx.class = fnv(cx.class, &format!("{}{}", req.len(), valid));
                }
                cx.rec.end_case(cx.class, true);
            }
            (Err(m), _) | (_, Err(m)) => {
                cx.rec.count("fa1p:ctor-panic");
                cx.rec.step(&format!("fa1 {k}"), &format!("fa1 kprime {kp_ref} req {}", list(&req_ref)).trim_end().to_string());
                cx.rec.step(&format!("fa1p {k}"), "panic");
                cx.fail_class("fa1p-construct-panics", &panic_site(&m), || format!("{desc}: constructor panicked: {m} (fallback total {} over k'={kp_ref} bins)", w_ref.iter().map(|&x| x as u128).sum::<u128>()));
                cx.rec.end_case(fnv(cx.class, "panic"), false);
            }
        }
    } else {
        let mk = || catch(|| FaitAccompli1Sampler::new_with_stake_weighted_fallback(vals.clone(), k));
        match (mk(), mk()) {
            (Ok(a), Ok(b)) => {
                cx.rec.count("fa1w:constructed");
                let kp = a.fallback_sampler.quorum_size();
                let first = catch(|| ids(&a.sample_quorum(&mut Rng(1)))).unwrap_or_default();
                let req: Vec<usize> = first.iter().take((k as usize).saturating_sub(kp)).copied().collect();
                cx.rec.step(&format!("fa1 {k}"), &format!("fa1 kprime {kp} req {}", list(&req)).trim_end().to_string());
                cx.rec.oracle(req == req_ref && kp as u64 == kp_ref, "fa1-seats", || format!("{desc}: required samples {req:?} (k'={kp}), floor(stake*k/total) demands {req_ref:?} (k'={kp_ref})"));
                let draws = cx.draws(kind, &desc, &a, &b, rng);
                for c in draws {
                    let tail_ok = c.len() == k as usize && c[req.len().min(c.len())..].iter().all(|&v| v < n && w_ref[v] > 0);
                    let valid = members_ok(n, k as usize, &c) && c[..req.len().min(c.len())] == req[..] && tail_ok && req == req_ref;
                    let fl = floor_ok(st, k, &c);
                    cx.rec.step(&format!("draw fa1w {}", list(&c)), &format!("valid {valid} floor {fl}"));
                    cx.rec.oracle(members_ok(n, k as usize, &c), "fa1w-size-or-member", || format!("{desc}: committee {c:?} is not {k} members of the set"));
                    cx.rec.oracle(tail_ok, "fa1w-zero-weight-drawn", || format!("{desc}: committee {c:?}: a fallback seat went to a validator without residual stake {w_ref:?}"));
                    cx.rec.oracle(fl, "fa1-floor-guarantee", || format!("{desc}: committee {c:?} gives some validator fewer than floor(stake*k/total) seats (demanded prefix {req_ref:?})"));
                    cx.class = fnv(cx.class, &format!("{}{}", req.len(), valid));
                }
                cx.rec.end_case(cx.class, true);
            }
            (Err(m), _) | (_, Err(m)) => {
                cx.rec.count("fa1w:ctor-panic");
                cx.rec.step(&format!("fa1 {k}"), "panic");
                cx.fail_class("fa1w-construct-panics", &panic_site(&m), || format!("{desc}: constructor panicked: {m}"));
                cx.rec.end_case(fnv(cx.class, "panic"), false);
            }
        }
    }
}

fn ids_eq(a: &PartitionSampler, b: &PartitionSampler) -> bool {
    a.bin_validators == b.bin_validators && a.bin_stakes == b.bin_stakes
}

/// emits the `part` op (order reconstructed from the bins) and checks the bins independently
fn emit_bins(cx: &mut Ctx, w: &str, nbins: usize, bv: &[Vec<usize>], bs: &[Vec<u64>], weights: &[u64], desc: &str) {
    let mut order: Vec<usize> = vec![];
    for b in bv {
        for &v in b {
            if order.last() != Some(&v) {
                order.push(v);
            }
        }
    }
    let line = bv.iter().zip(bs).map(|(v, s)| v.iter().zip(s).map(|(a, b)| format!("{a}:{b}")).collect::<Vec<_>>().join(",")).collect::<Vec<_>>().join("|");
    cx.rec.step(&format!("part {w} {nbins} {}", list(&order)), &format!("ord true bins {line}"));
    // independent recount (repaired algorithm, fix D8: weights are in units of 1/nbins stake):
    // bins are non-empty, every bin weighs exactly the total stake, every validator's
    // stake·nbins units are fully distributed, nobody spans more than two bins when no
    // validator holds more than one bin
    let t: u128 = weights.iter().map(|&x| x as u128).sum();
    let spb = t;
    let mut taken = vec![0u128; weights.len()];
    let mut span = vec![0usize; weights.len()];
    let mut ok = bv.len() == nbins && bs.len() == nbins;
    for (v, s) in bv.iter().zip(bs) {
        ok &= !v.is_empty() && v.len() == s.len() && s.iter().all(|&x| x > 0);
        let sum: u128 = s.iter().map(|&x| x as u128).sum();
        ok &= sum == spb;
        for (&a, &b) in v.iter().zip(s) {
            if a < weights.len() {
                taken[a] += b as u128;
                span[a] += 1;
            } else {
                ok = false;
            }
        }
    }
    ok &= (0..weights.len()).all(|v| taken[v] == weights[v] as u128 * nbins as u128);
    let two = weights.iter().any(|&x| x as u128 * nbins as u128 > spb) || span.iter().all(|&c| c <= 2);
    cx.rec.oracle(ok, "partition-structure", || format!("{desc}: bins {bv:?} / {bs:?} do not partition the weights {} (times {nbins}) into {nbins} non-empty bins of exactly {spb} units", short(weights)));
    cx.rec.oracle(two, "partition-more-than-two-bins", || format!("{desc}: a validator with at most one bin of stake spans more than two bins: {bv:?}"));
}

// ------------------------------------------------------------ PartitionSampler (raw)

fn partition_case(cx: &mut Ctx, rng: &mut Rng, shape: &str, st: &[u64], bins: usize) {
    let n = st.len();
    let desc = format!("PartitionSampler::new bins={bins} stakes={shape}{}", short(st));
    cx.begin(&format!("part-{shape}-{n}-b{bins}"), st);
    let vals = cx.env.validators(st);
    let mk = || catch(|| PartitionSampler::new(vals.clone(), bins));
    let d8 = trailing_bin_empty(st, bins as u64);
    match (mk(), mk()) {
        (Ok(a), Ok(b)) => {
            cx.rec.count("part:constructed");
            if d8 {
                cx.rec.count("part:constructed-on-former-D8-shape");
            }
            cx.rec.step(&format!("constructible s {bins}"), "constructible true");
            cx.rec.oracle(ids_eq(&a, &b), "partition-nondeterministic", || format!("{desc}: two constructions give different bins: {:?} vs {:?}", a.bin_validators, b.bin_validators));
            let bv: Vec<Vec<usize>> = a.bin_validators.iter().map(|b| ids(b)).collect();
            let bs: Vec<Vec<u64>> = a.bin_stakes.iter().map(|b| b.iter().map(|s| s.inner()).collect()).collect();
            emit_bins(cx, "s", bins, &bv, &bs, st, &desc);
            cx.rec.oracle(a.quorum_size() == bins, "partition-size", || format!("{desc}: quorum_size {} != {bins}", a.quorum_size()));
            for c in cx.draws("part", &desc, &a, &b, rng) {
                let in_bins = c.len() == bins && c.iter().zip(bv.iter()).all(|(v, b)| b.contains(v));
                cx.rec.step(&format!("draw part {bins} {}", list(&c)), &format!("valid {in_bins}"));
                cx.rec.oracle(in_bins && c.iter().all(|&v| st[v] > 0), "partition-bin-membership", || format!("{desc}: committee {c:?} not drawn bin by bin from {bv:?}"));
            }
            cx.rec.end_case(fnv(cx.class, &format!("{d8}")), true);
        }
        (Err(m), _) | (_, Err(m)) => {
            cx.rec.count("part:ctor-panic");
            cx.rec.step(&format!("constructible s {bins}"), "constructible false");
            let positive = st.iter().all(|&s| s > 0);
            if !positive {
                cx.rec.count("part:ctor-panic-with-zero-stakes(outside the property)");
                cx.rec.end_case(fnv(cx.class, "panic0"), false);
                return;
            }
            cx.fail_class("partition-construct-panics", &panic_site(&m), || format!("{desc}: constructor panicked: {m}"));
            cx.rec.end_case(fnv(cx.class, "panic"), false);
        }
    }
}

// ------------------------------------------------------------ FA2

fn fa2_case(cx: &mut Ctx, rng: &mut Rng, shape: &str, st: &[u64], k: u64) {
    let n = st.len();
    let desc = format!("FaitAccompli2Sampler::new k={k} stakes={shape}{}", short(st));
    cx.begin(&format!("fa2-{shape}-{n}-k{k}"), st);
    let vals = cx.env.validators(st);
    let mk = || catch(|| FaitAccompli2Sampler::new(vals.clone(), k));
    let (req_ref, _, _) = fa1_ref(st, k);
    let d9 = sum_round_exceeds_k(st, k);
    match (mk(), mk()) {
        (Ok(a), Ok(b)) => {
            cx.rec.count("fa2:constructed");
            let t: u128 = st.iter().map(|&s| s as u128).sum();
            let medium: Vec<usize> = (0..n).filter(|&i| ((2 * st[i] as u128 * k as u128 + t) / (2 * t)) * t > st[i] as u128 * k as u128).collect();
            // (the medium set is not observable on the real sampler; the op line carries the reference value)
            let draws = cx.draws("fa2", &desc, &a, &b, rng);
            let req: Vec<usize> = draws.first().map(|c| c.iter().take(req_ref.len()).copied().collect()).unwrap_or_else(|| req_ref.clone());
            if !round_borderline(st, k) {
                cx.rec.step(&format!("fa2 {k}"), &format!("ok req {} medium {}", list(&req), list(&medium)).replace("  ", " ").trim_end().to_string());
            } else {
                cx.rec.count("fa2:round-borderline(not compared)");
                cx.rec.step(&format!("fa1 {k}"), &format!("fa1 kprime {} req {}", k as usize - req.len(), list(&req)).trim_end().to_string());
            }
            for c in draws {
                let valid = members_ok(n, k as usize, &c) && c[..req_ref.len().min(c.len())] == req_ref[..];
                let fl = floor_ok(st, k, &c);
                cx.rec.step(&format!("draw fa2 {}", list(&c)), &format!("valid {valid} floor {fl}"));
                cx.rec.oracle(members_ok(n, k as usize, &c), "fa2-size-or-member", || format!("{desc}: committee {c:?} is not {k} members of the set"));
                cx.rec.oracle(fl, "fa2-floor-guarantee", || format!("{desc}: committee {c:?} gives some validator fewer than floor(stake*k/total) seats (demanded prefix {req_ref:?})"));
                cx.class = fnv(cx.class, &format!("{}{}", req_ref.len(), valid));
            }
            cx.rec.end_case(cx.class, true);
        }
        (Err(m), _) | (_, Err(m)) => {
            cx.rec.count("fa2:ctor-panic");
            // only the `minimize_f` assertion is part of the exact model; the fallback weights are
            // f64-derived (`((rel - f) / r * total) as u64`) and outside it
            if !m.contains("assertion failed") {
                cx.rec.count("fa2:ctor-panic-outside-model(f64 fallback weights)");
            } else if !round_borderline(st, k) {
                cx.rec.step(&format!("fa2 {k}"), "panic");
            } else {
                cx.rec.count("fa2:round-borderline(not compared)");
            }
            cx.fail_class("fa2-construct-panics", &format!("{}|{d9}", panic_site(&m)), || format!("{desc}: constructor panicked: {m}; sum-round-exceeds-k={d9}"));
            cx.rec.end_case(fnv(cx.class, "panic"), false);
        }
    }
}

// ------------------------------------------------------------ IID family, decay

fn iid_case(cx: &mut Ctx, rng: &mut Rng, shape: &str, st: &[u64], k: usize) {
    let n = st.len();
    cx.begin(&format!("iid-{shape}-{n}-k{k}"), st);
    let vals = cx.env.validators(st);
    // stake weighted
    let desc = format!("StakeWeightedSampler k={k} stakes={shape}{}", short(st));
    match (catch(|| StakeWeightedSampler::new(vals.clone()).into_quorum_strategy(k)), catch(|| StakeWeightedSampler::new(vals.clone()).into_quorum_strategy(k))) {
        (Ok(a), Ok(b)) => {
            for c in cx.draws("stakeweighted", &desc, &a, &b, rng) {
                let valid = members_ok(n, k, &c) && c.iter().all(|&v| st[v] > 0);
                cx.rec.step(&format!("draw iid {k} {}", list(&c)), &format!("valid {valid}"));
                cx.rec.oracle(members_ok(n, k, &c), "stakeweighted-size-or-member", || format!("{desc}: committee {c:?}"));
                cx.rec.oracle(c.iter().all(|&v| v >= n || st[v] > 0), "stakeweighted-zero-weight-drawn", || format!("{desc}: committee {c:?} contains a zero-stake validator"));
            }
            // single-node interface
            let one = catch(|| (a.sample(&mut Rng(7)).as_usize(), a.sample_info(&mut Rng(7)).id.as_usize()));
            cx.rec.oracle(matches!(one, Ok((x, y)) if x == y && x < n && st[x] > 0), "stakeweighted-sample-info", || format!("{desc}: sample / sample_info with the same RNG: {one:?}"));
        }
        (Err(m), _) | (_, Err(m)) => cx.rec.oracle(false, "stakeweighted-construct-panics", || format!("{desc}: {m}")),
    }
    // uniform
    let desc = format!("UniformSampler k={k} n={n}");
    let (a, b) = (UniformSampler::new(vals.clone()).into_quorum_strategy(k), UniformSampler::new(vals.clone()).into_quorum_strategy(k));
    for c in cx.draws("uniform", &desc, &a, &b, rng) {
        cx.rec.step(&format!("draw uniform {k} {}", list(&c)), &format!("valid {}", members_ok(n, k, &c)));
        cx.rec.oracle(members_ok(n, k, &c), "uniform-size-or-member", || format!("{desc}: committee {c:?}"));
    }
    // all-same
    let who = rng.below(n as u64) as usize;
    let (a, b) = (AllSameSampler(vals[who].clone()).into_quorum_strategy(k), AllSameSampler(vals[who].clone()).into_quorum_strategy(k));
    for c in cx.draws("allsame", &format!("AllSameSampler({who})"), &a, &b, rng) {
        cx.rec.step(&format!("draw uniform {k} {}", list(&c)), &format!("valid {}", members_ok(n, k, &c)));
        cx.rec.oracle(c.len() == k && c.iter().all(|&v| v == who), "allsame", || format!("AllSameSampler({who}): {c:?}"));
    }
    cx.rec.end_case(cx.class, true);
}

fn turbine_sampler_case(cx: &mut Ctx, rng: &mut Rng, shape: &str, st: &[u64], fanout: usize, k: usize) {
    let n = st.len();
    cx.begin(&format!("turbinesampler-{shape}-{n}-f{fanout}-k{k}"), st);
    let vals = cx.env.validators(st);
    let desc = format!("TurbineSampler::new_with_fanout fanout={fanout} k={k} n={n} stakes={shape}{}", short(st));
    match (catch(|| TurbineSampler::new_with_fanout(vals.clone(), fanout).into_quorum_strategy(k)), catch(|| TurbineSampler::new_with_fanout(vals.clone(), fanout).into_quorum_strategy(k))) {
        (Ok(a), Ok(b)) => {
            cx.rec.count("turbinesampler:constructed");
            for c in cx.draws("turbinesampler", &desc, &a, &b, rng) {
                cx.rec.step(&format!("draw uniform {k} {}", list(&c)), &format!("valid {}", members_ok(n, k, &c)));
                cx.rec.oracle(members_ok(n, k, &c), "turbinesampler-size-or-member", || format!("{desc}: committee {c:?}"));
            }
            cx.rec.end_case(cx.class, true);
        }
        (Err(m), _) | (_, Err(m)) => {
            cx.rec.count("turbinesampler:ctor-panic");
            cx.fail_class("turbinesampler-construct-panics", &format!("{}|{}", panic_site(&m), n <= 2), || format!("{desc}: constructor panicked: {m}; n<=2={}", n <= 2));
            cx.rec.end_case(fnv(cx.class, "panic"), false);
        }
    }
}

fn decay_case(cx: &mut Ctx, rng: &mut Rng, shape: &str, st: &[u64], num: u64, den: u64, k: usize) {
    let n = st.len();
    cx.begin(&format!("decay-{shape}-{n}-m{num}/{den}-k{k}"), st);
    let vals = cx.env.validators(st);
    let max_samples = num as f64 / den as f64;
    let cap = num.div_ceil(den) as usize;
    let desc = format!("DecayingAcceptanceSampler max_samples={num}/{den} k={k} stakes={shape}{}", short(st));
    let positive = st.iter().filter(|&&s| s > 0).count();
    let feasible = k <= positive * cap;
    match (catch(|| DecayingAcceptanceSampler::new(vals.clone(), max_samples, k)), catch(|| DecayingAcceptanceSampler::new(vals.clone(), max_samples, k))) {
        (Ok(a), Ok(b)) => {
            let mut got = vec![];
            for _ in 0..cx.seeds() {
                let seed = rng.next();
                let ca = catch(|| a.sample_quorum(&mut Rng(seed)));
                let cb = catch(|| b.sample_quorum(&mut Rng(seed)));
                match (ca, cb) {
                    (Ok(x), Ok(y)) => {
                        let (x, y) = (ids(&x), ids(&y));
                        cx.rec.oracle(x == y, "decay-nondeterministic", || format!("{desc}: same seed {seed}: {x:?} vs {y:?}"));
                        cx.rec.count("decay:draw-ok");
                        got.push(x);
                    }
                    (Err(m), _) | (_, Err(m)) => {
                        // the counters are not reset after a panic: reset by hand for the next draw
                        a.reset();
                        b.reset();
                        cx.rec.count(if feasible { "decay:draw-panic-feasible" } else { "decay:draw-panic-infeasible(k>n*cap)" });
                        // only a defect when a committee of that size exists at all
                        if !feasible {
                            cx.rec.oracle(true, "decay-sample-panics", String::new);
                            continue;
                        }
                        let ratio = { let mx = *st.iter().max().unwrap_or(&1); let mn = st.iter().copied().filter(|&x| x > 0).min().unwrap_or(1); mx / mn >= 1000 };
                        cx.fail_class("decay-sample-panics", &format!("{}|{ratio}", panic_site(&m)), || {
                            let mut sorted: Vec<u64> = st.to_vec();
                            sorted.sort();
                            let pos_min = sorted.iter().copied().find(|&x| x > 0).unwrap_or(1);
                            format!("{desc}: sample_quorum panicked although k={k} <= {positive} validators x cap {cap}: {m}; max/min-stake-ratio>=1000={}", sorted[n - 1] / pos_min >= 1000)
                        });
                    }
                }
            }
            for c in got {
                let mut cnt = vec![0usize; n];
                for &v in &c {
                    if v < n {
                        cnt[v] += 1;
                    }
                }
                let cap_ok = cnt.iter().all(|&x| x <= cap);
                let valid = members_ok(n, k, &c) && c.iter().all(|&v| st[v] > 0) && cap_ok;
                cx.step(&format!("draw decay {num} {den} {k} {}", list(&c)), &format!("valid {valid} cap {cap}"));
                cx.rec.oracle(members_ok(n, k, &c), "decay-size-or-member", || format!("{desc}: committee {}", brief(&c)));
                cx.rec.oracle(cap_ok, "decay-cap", || format!("{desc}: committee {} exceeds the seat cap {cap} = ceil(max_samples): seats per validator {cnt:?}", brief(&c)));
                cx.rec.oracle(c.iter().all(|&v| v >= n || st[v] > 0), "decay-zero-weight-drawn", || format!("{desc}: committee {} contains a zero-stake validator", brief(&c)));
            }
            // the stateful single-seat interface (`SamplingStrategy::sample`, no reset in between): the same cap holds for
            // the seats handed out since the last reset
            if feasible {
                a.reset();
                let seed = rng.next();
                let got = catch(|| { let mut r = Rng(seed); (0..k).map(|_| a.sample(&mut r).as_usize()).collect::<Vec<usize>>() });
                a.reset();
                if let Ok(c) = got {
                    let mut cnt = vec![0usize; n];
                    for &v in &c {
                        if v < n {
                            cnt[v] += 1;
                        }
                    }
                    cx.rec.count("decay:successive-samples-ok");
                    cx.rec.oracle(cnt.iter().all(|&x| x <= cap), "decay-cap", || format!("{desc}: {k} successive sample() calls since the last reset (seed {seed}) exceed the seat cap {cap} = ceil(max_samples): seats per validator {cnt:?}"));
                } else {
                    cx.rec.count("decay:successive-samples-panic(see decay-sample-panics)");
                }
            }
            cx.rec.end_case(cx.class, true);
        }
        (Err(m), _) | (_, Err(m)) => {
            cx.rec.oracle(false, "decay-construct-panics", || format!("{desc}: {m}"));
            cx.rec.end_case(cx.class, false);
        }
    }
}

fn main() {
    let args = Args::parse();
    quiet_panics();
    let mut rng = Rng::new(args.seed);
    let sk = signature::SecretKey::new(&mut rng);
    let vsk = aggsig::SecretKey::new(&mut rng);
    let env = Env { pk: sk.to_pk(), vpk: vsk.to_pk() };
    let mut cx = Ctx { rec: Recorder::new(), env: &env, thorough: args.thorough, class: 0, recorded: Default::default(), mute: false };

    let mut ks: Vec<u64> = vec![1, 2, 3, 10, 64, 100, 200];
    ks.push(rng.range(4, 300));
    let ns: Vec<usize> = if args.thorough { vec![1, 2, 3, 4, 5, 7, 17, 63, 64, 65, 100, 128, 199, 200, 500, 1000, 2000] } else { vec![1, 2, 3, 5, 17, 64, 100, 128, 200, 1000] };
    let shapes = ["equal1", "equalbig", "small", "heavy", "whale", "exactk", "straddle", "whale54", "pow53", "random"];

    for &n in &ns {
        for &k in &ks {
            let reps = if args.thorough { 3 } else { 1 };
            for j in 0..shapes.len() * reps {
                let shape = shapes[j % shapes.len()];
                if n > 500 && (j + rng.below(4) as usize) % 4 != 0 {
                    continue;
                }
                let st = stakes(shape, n, k, &mut rng);
                fa1_case(&mut cx, &mut rng, shape, &st, k, false);
                fa1_case(&mut cx, &mut rng, shape, &st, k, true);
                fa2_case(&mut cx, &mut rng, shape, &st, k);
            }
        }
        // raw partition sampler
        for &bins in &[1usize, 2, 3, 4, 10, 64, 1 + rng.below(n as u64 + 3) as usize, 1 + rng.below(200) as usize] {
            let shape = *rng.pick(&["equal1", "small", "heavy", "whale", "random", "equalbig", "somezero"]);
            let st = stakes(shape, n, bins as u64, &mut rng);
            partition_case(&mut cx, &mut rng, shape, &st, bins);
        }
        // iid family
        for &k in &[1usize, 3, 64, 200] {
            let shape = *rng.pick(&["equal1", "small", "heavy", "whale", "random", "somezero"]);
            let st = stakes(shape, n, k as u64, &mut rng);
            if st.iter().all(|&s| s == 0) {
                continue;
            }
            iid_case(&mut cx, &mut rng, shape, &st, k);
        }
        // decaying acceptance: (max_samples, k)
        for &(num, den, k) in &[(1u64, 1u64, 1usize), (1, 1, n.min(64)), (5, 2, 2 * n.min(50)), (5, 1, n.min(40) * 3), (2, 1, 2 * n.min(100) + 1)] {
            let shape = *rng.pick(&["equal1", "small", "whale", "random", "somezero", "heavy"]);
            let st = stakes(shape, n, k as u64, &mut rng);
            if st.iter().all(|&s| s == 0) {
                continue;
            }
            decay_case(&mut cx, &mut rng, shape, &st, num, den, k);
        }
        // turbine sampler: O(n^3) constructor
        if n <= 128 || args.thorough && n <= 200 {
            for &f in &[1usize, 2, 200] {
                let shape = *rng.pick(&["equal1", "small", "heavy", "random"]);
                let st = stakes(shape, n, 1, &mut rng);
                turbine_sampler_case(&mut cx, &mut rng, shape, &st, f, 64);
            }
        }
    }
    // seat caps beyond one byte (and, oracle only, beyond two bytes): committees larger than the cap, a validator heavy enough
    // to be drawn more often than the cap allows. (n, max_samples = num/den, k): k stays well below n * cap.
    let mut big: Vec<(usize, u64, u64, usize)> = vec![(3, 256, 1, 600), (5, 511, 2, 1000), (8, 300, 1, 1000), (17, 1000, 1, 2000), (4, 257, 1, 700)];
    big.push((rng.range(3, 10) as usize, rng.range(256, 700), 1, rng.range(701, 1500) as usize));
    for &(n, num, den, k) in &big {
        for shape in ["dominant", "whale", *rng.pick(&["equal1", "small", "random"])] {
            let st = stakes(shape, n, k as u64, &mut rng);
            decay_case(&mut cx, &mut rng, shape, &st, num, den, k);
        }
    }
    cx.mute = true;
    for shape in ["dominant", "whale"] {
        let st = stakes(shape, 3, 1, &mut rng);
        decay_case(&mut cx, &mut rng, shape, &st, 65536, 1, 100_000);
    }
    cx.mute = false;
    // the concrete inputs named in DESIGN.md §6/§7 (D8 — fixed, now positive cases —, D9, D18)
    partition_case(&mut cx, &mut rng, "equal1", &[1; 6], 4);
    fa1_case(&mut cx, &mut rng, "equal1", &[1; 100], 64, true);
    fa2_case(&mut cx, &mut rng, "equal1", &[1; 128], 64);
    let mut st29 = vec![29u64, 71];
    fa1_case(&mut cx, &mut rng, "d18-under", &st29, 100, false);
    st29.push(0);
    st29.pop();
    fa1_case(&mut cx, &mut rng, "d18-over", &[1 << 54, 1], 3, false);
    decay_case(&mut cx, &mut rng, "whale-decay", &[1_000_000_000, 1], 1, 1, 2);

    let extra = serde_json::json!({ "validator_counts": ns, "committee_sizes": ks, "shapes": shapes });
    cx.rec.finish(&args, extra);
}
