//! Shared helpers for harness binaries that drive the real `PoolImpl` (pool.rs, cluster.rs): deterministic keys,
//! interned block hashes (byte order = id order), epochs, vote / certificate construction and canonical formatting.
use std::collections::HashMap;
use std::sync::Arc;

use crate::Rng;
use alpenglow::consensus::{
    Cert, EpochInfo, FastFinalCert, FinalCert, NotarCert, NotarFallbackCert, PoolEvent, PoolImpl, SkipCert, ValidatorEpochInfo, Vote,
};
use alpenglow::crypto::merkle::BlockHash;
use alpenglow::crypto::{aggsig, signature};
use alpenglow::network::localhost_ip_sockaddr;
use alpenglow::types::Slot;
use alpenglow::{BlockId, Stake, ValidatorIndex, ValidatorInfo};
use tokio::sync::mpsc;

pub const MAXN: usize = 40;
/// number of interned block hashes (ids 1..=NHASH; 0 = genesis)
pub const NHASH: usize = 96;
pub const KINDS: [&str; 5] = ["notar", "nf", "skip", "sf", "final"];

pub struct Keys {
    pub sks: Vec<signature::SecretKey>,
    pub vsks: Vec<aggsig::SecretKey>,
    /// public keys of `sks` / `vsks` (computed once: epochs of every size reuse them)
    pub pks: Vec<signature::PublicKey>,
    pub vpks: Vec<aggsig::PublicKey>,
    pub hashes: Vec<BlockHash>,
    pub hash_id: HashMap<BlockHash, usize>,
}

impl Keys {
    pub fn new(rng: &mut Rng) -> Self { Self::with_validators(rng, MAXN) }

    /// keys for `n` validators; the first `MAXN` are the ones `new` generates (the further ones come from a forked
    /// stream), so vote caches and corpus scenarios do not depend on `n`
    pub fn with_validators(rng: &mut Rng, n: usize) -> Self {
        let mut sks: Vec<signature::SecretKey> = (0..MAXN).map(|_| signature::SecretKey::new(rng)).collect();
        let mut vsks: Vec<aggsig::SecretKey> = (0..MAXN).map(|_| aggsig::SecretKey::new(rng)).collect();
        let mut more = Rng::new(0xB16_E90C ^ rng.0);
        for _ in MAXN..n { sks.push(signature::SecretKey::new(&mut more)); vsks.push(aggsig::SecretKey::new(&mut more)); }
        let pks = sks.iter().map(|k| k.to_pk()).collect();
        let vpks = vsks.iter().map(|k| k.to_pk()).collect();
        // adversarial interning (see `advhash`): ids of one group of four differ in a single byte; byte order of the
        // hashes = order of their ids (the pool iterates some sets in hash order)
        let hashes: Vec<BlockHash> = (0..=NHASH as u64).map(crate::advhash::block_hash).collect();
        let hash_id = hashes.iter().cloned().enumerate().map(|(i, h)| (h, i)).collect();
        Self { sks, vsks, pks, vpks, hashes, hash_id }
    }
}

#[derive(Clone, Copy, PartialEq, Eq, PartialOrd, Ord, Debug, Hash)]
pub enum K { Notar, Nf, Skip, Sf, Final }
impl K {
    pub fn name(self) -> &'static str { KINDS[self as usize] }
    pub fn all() -> [K; 5] { [K::Notar, K::Nf, K::Skip, K::Sf, K::Final] }
    pub fn has_hash(self) -> bool { matches!(self, K::Notar | K::Nf) }
}
#[derive(Clone, Copy, PartialEq, Eq, PartialOrd, Ord, Debug, Hash)]
pub enum CK { Notar, Nf, Skip, Ff, Final }
impl CK {
    pub fn name(self) -> &'static str { ["notar", "nf", "skip", "ff", "final"][self as usize] }
    pub fn has_hash(self) -> bool { matches!(self, CK::Notar | CK::Nf | CK::Ff) }
}

pub fn met(num: u64, value: u64, total: u64) -> bool { (value as u128) * 5 >= (total as u128) * (num as u128) }

pub fn make_epoch(keys: &Keys, stakes: &[u64], own: usize) -> Arc<ValidatorEpochInfo> {
    let validators: Vec<ValidatorInfo> = stakes.iter().enumerate().map(|(i, s)| ValidatorInfo {
        id: ValidatorIndex::new(i as u64),
        stake: Stake::new(*s),
        pubkey: keys.pks[i].clone(),
        voting_pubkey: keys.vpks[i].clone(),
        all2all_address: localhost_ip_sockaddr(0),
        disseminator_address: localhost_ip_sockaddr(0),
        repair_requester_address: localhost_ip_sockaddr(0),
        repair_responder_address: localhost_ip_sockaddr(0),
    }).collect();
    Arc::new(ValidatorEpochInfo::new(ValidatorIndex::new(own as u64), EpochInfo::new(validators)))
}

pub fn new_pool(epoch: &Arc<ValidatorEpochInfo>) -> (PoolImpl, mpsc::Receiver<PoolEvent>, mpsc::Receiver<BlockId>) {
    let (ev_tx, ev_rx) = mpsc::channel(1 << 14);
    let (rep_tx, rep_rx) = mpsc::channel(1 << 14);
    (PoolImpl::new(epoch.clone(), ev_tx, rep_tx), ev_rx, rep_rx)
}

pub fn raw_vote(keys: &Keys, k: K, slot: u64, h: usize, signer: usize) -> Vote {
    let s = Slot::new(slot);
    let sk = &keys.vsks[signer];
    let v = ValidatorIndex::new(signer as u64);
    match k {
        K::Notar => Vote::new_notar(s, keys.hashes[h].clone(), sk, v),
        K::Nf => Vote::new_notar_fallback(s, keys.hashes[h].clone(), sk, v),
        K::Skip => Vote::new_skip(s, sk, v),
        K::Sf => Vote::new_skip_fallback(s, sk, v),
        K::Final => Vote::new_final(s, sk, v),
    }
}

pub fn fmt_list(v: &[usize]) -> String {
    if v.is_empty() { "-".to_string() } else { v.iter().map(|x| x.to_string()).collect::<Vec<_>>().join(",") }
}

pub fn cert_kind(c: &Cert) -> CK {
    match c { Cert::Notar(_) => CK::Notar, Cert::NotarFallback(_) => CK::Nf, Cert::Skip(_) => CK::Skip, Cert::FastFinal(_) => CK::Ff, Cert::Final(_) => CK::Final }
}

pub fn fmt_cert(keys: &Keys, c: &Cert) -> String {
    let (a, b) = c.verif_signer_halves();
    let a: Vec<usize> = a.iter().map(|v| v.as_usize()).collect();
    let b: Vec<usize> = b.iter().map(|v| v.as_usize()).collect();
    let h = c.block_hash().map(|h| keys.hash_id[h]).unwrap_or(0);
    format!("cert {} {} {} {} {} {}", cert_kind(c).name(), c.slot().inner(), h, fmt_list(&a), fmt_list(&b), c.stake().inner())
}

pub fn fmt_vote(keys: &Keys, v: &Vote) -> String {
    let k = match v { Vote::Notar(_) => "notar", Vote::NotarFallback(_) => "nf", Vote::Skip(_) => "skip", Vote::SkipFallback(_) => "sf", Vote::Final(_) => "final" };
    let h = v.block_hash().map(|h| keys.hash_id[h]).unwrap_or(0);
    format!("vote {} {} {} {}", k, v.slot().inner(), h, v.signer().as_usize())
}

pub fn build_cert(keys: &Keys, ck: CK, slot: u64, h: usize, a: &[usize], b: &[usize], validators: &[ValidatorInfo]) -> Cert {
    let s = Slot::new(slot);
    let hash = keys.hashes[h].clone();
    let vi = |i: usize| ValidatorIndex::new(i as u64);
    use alpenglow::consensus::{FinalVote, NotarFallbackVote, NotarVote, SkipFallbackVote, SkipVote};
    match ck {
        CK::Notar => { let v: Vec<NotarVote> = a.iter().map(|&i| NotarVote::new(s, hash.clone(), &keys.vsks[i], vi(i))).collect(); Cert::Notar(NotarCert::new(&v, validators)) }
        CK::Ff => { let v: Vec<NotarVote> = a.iter().map(|&i| NotarVote::new(s, hash.clone(), &keys.vsks[i], vi(i))).collect(); Cert::FastFinal(FastFinalCert::new(&v, validators)) }
        CK::Final => { let v: Vec<FinalVote> = a.iter().map(|&i| FinalVote::new(s, &keys.vsks[i], vi(i))).collect(); Cert::Final(FinalCert::new(&v, validators)) }
        CK::Nf => {
            let v: Vec<NotarVote> = a.iter().map(|&i| NotarVote::new(s, hash.clone(), &keys.vsks[i], vi(i))).collect();
            let w: Vec<NotarFallbackVote> = b.iter().map(|&i| NotarFallbackVote::new(s, hash.clone(), &keys.vsks[i], vi(i))).collect();
            Cert::NotarFallback(NotarFallbackCert::new(&v, &w, validators))
        }
        CK::Skip => {
            let v: Vec<SkipVote> = a.iter().map(|&i| SkipVote::new(s, &keys.vsks[i], vi(i))).collect();
            let w: Vec<SkipFallbackVote> = b.iter().map(|&i| SkipFallbackVote::new(s, &keys.vsks[i], vi(i))).collect();
            Cert::Skip(SkipCert::new(&v, &w, validators))
        }
    }
}

